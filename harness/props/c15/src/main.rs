//! Property check C15 — speculative lanes fork faithfully and settle lawfully.
//!
//! Explicit-state breadth-first search over operation histories of the real `WorldlineRuntime` +
//! `ProvenanceService` (both cloned as the search state, fresh `Engine` per tick).  Operations:
//! parent tick with one of the parent intents, fork of the next strand at *every* tick of the
//! parent (and of a live strand lane in the nested configuration), strand tick with one of the
//! strand intents, settlement under the default and the allow-plural policy, support pin / unpin.
//! Every visited state is additionally probed (without changing it) with: plan twice (purity),
//! settlement with injected failures (global-tick overflow after 0/1/2 appended entries, frontier
//! drift) and a menu of malformed fork requests.
//!
//! The oracles are written from the property statement and use an abstract view of a worldline
//! state (`Abs`: every node record, edge record, attachment and instance record read through the
//! public store iterators) and abstract diffs between replayed states — never the declared
//! footprints, except to *weaken* the must-import obligation (see `check_settle`).

use mc::{json, Level, Report, Value};
use rules::fixture::{self, wl, Rt};
use rules::{Program, Step};
use std::collections::{BTreeMap, BTreeSet};
use warp_core::verif_hooks as hooks;
use warp_core::{
    compute_commit_hash_v2, make_head_id, make_strand_id, ActorId, AdmissionScopeId,
    AttachmentOwner, AuthorityBinding, AuthorityDomainId, AuthorityDomainRef, BraidShellOutcome,
    CausalAuthority, CausalPosture, ForkBasisRef, ForkStrandReceipt, ForkStrandRequest,
    InboxPolicy, IngressDisposition, OriginId, PlaybackMode, PostureDerivation, ProvenanceEntry,
    ProvenanceEventKind, ProvenanceService, ProvenanceStore, RetentionContractId,
    RetentionPosture, SchedulerKind, SealStrength, SettlementDecision, SettlementPlan,
    SettlementPolicy, SettlementResult, SettlementService, SlotId, StrandId, WorldlineId,
    WorldlineRuntime, WorldlineState, WorldlineTick, WriterHead, WriterHeadKey,
};

// ---------------------------------------------------------------------------------------------
// naming
// ---------------------------------------------------------------------------------------------

fn parent() -> WorldlineId {
    wl(1)
}
fn child(k: u8) -> WorldlineId {
    wl(10 + k)
}
fn sid(k: u8) -> StrandId {
    make_strand_id(&format!("s{k}"))
}
fn shead(k: u8) -> WriterHeadKey {
    WriterHeadKey {
        worldline_id: child(k),
        head_id: make_head_id(&format!("sh{k}")),
    }
}
fn phead() -> WriterHeadKey {
    WriterHeadKey {
        worldline_id: parent(),
        head_id: make_head_id("h0"),
    }
}
fn wt(t: u64) -> WorldlineTick {
    WorldlineTick::from_raw(t)
}
fn mk_head(key: WriterHeadKey) -> WriterHead {
    WriterHead::with_routing(key, PlaybackMode::Play, InboxPolicy::AcceptAll, None, true)
}
fn wname(w: WorldlineId) -> String {
    let b = w.as_bytes()[0];
    if b == 1 {
        "parent".into()
    } else {
        format!("strand{}", b.wrapping_sub(10))
    }
}

fn shared_posture() -> RetentionPosture {
    let origin_id = OriginId::from_bytes([0x51; 32]);
    let authority = AuthorityDomainRef::new(origin_id, AuthorityDomainId::from_bytes([0x52; 32]));
    RetentionPosture::new(
        CausalPosture::Shared,
        PostureDerivation::ExplicitIntent,
        CausalAuthority::new(
            origin_id,
            ActorId::from_bytes([0x53; 32]),
            authority,
            AuthorityBinding::LocalUnbound { origin: origin_id },
            SealStrength::Advisory,
        )
        .expect("authority"),
        RetentionContractId::from_bytes([0x54; 32]),
        Some(AdmissionScopeId::from_bytes([0x55; 32])),
    )
    .expect("posture")
}

fn policy(plural: bool) -> SettlementPolicy {
    if plural {
        SettlementPolicy::allow_plural_over_footprint_overlap([0x77; 32])
    } else {
        SettlementPolicy::default()
    }
}

// ---------------------------------------------------------------------------------------------
// configurations (alphabets)
// ---------------------------------------------------------------------------------------------

impl Cfg {
    fn strand_prog(&self, k: u8, j: u8) -> Program {
        match (&self.strand2, k) {
            (Some(s2), 2) => s2[j as usize].clone(),
            _ => self.strand[j as usize].clone(),
        }
    }
}

#[derive(Clone)]
struct Cfg {
    name: &'static str,
    parent: Vec<Program>,
    strand: Vec<Program>,
    /// alphabet of strand 2 when it differs from strand 1's (sibling strands that write the same
    /// slots with DIFFERENT values); `None` = same as `strand`
    strand2: Option<Vec<Program>>,
    max_strands: u8,
    pins: bool,
    nested: bool,
    depth: usize,
    /// failed-fork / injected-failure probes on states up to this depth
    probe_depth: usize,
    /// operations executed (and checked) before the search starts; reported paths include them
    prefix: Vec<Op>,
    /// the last operation of a maximal-length sequence is a settlement or a fork (ticks and pins
    /// at the last position can only repeat the isolation checks made one level earlier)
    last_level_settle_fork_only: bool,
}

fn prog(steps: Vec<Step>) -> Program {
    Program::new(steps)
}

/// X = attachment of n1, Y = attachment of n2, Z = attachment of n3.
fn slots_parent() -> Vec<Program> {
    vec![
        prog(vec![Step::SetNodeAtt { n: 1, v: 1 }]),      // X := "A"
        prog(vec![Step::SetNodeAtt { n: 2, v: 1 }]),      // Y := "A"
        prog(vec![Step::CopyNodeAtt { from: 1, to: 3 }]), // Z := X   (reads X)
    ]
}
fn slots_strand() -> Vec<Program> {
    vec![
        prog(vec![Step::SetNodeAtt { n: 1, v: 2 }]),      // X := "AB"
        prog(vec![Step::SetNodeAtt { n: 2, v: 2 }]),      // Y := "AB"
        prog(vec![Step::CopyNodeAtt { from: 1, to: 3 }]), // Z := X   (same bytes as the parent's)
    ]
}
/// Strand 2's alphabet in sibling configurations: the same slots, other bytes.
fn slots_strand_b() -> Vec<Program> {
    vec![
        prog(vec![Step::SetNodeAtt { n: 1, v: 3 }]), // X := third payload
        prog(vec![Step::SetNodeAtt { n: 2, v: 3 }]), // Y := third payload
    ]
}
/// Entries that write two slots at once: X := the value the parent's own intent writes ("A"),
/// Y := a different value; and the mirrored one; plus a plain single-slot writer.
fn mixed_strand() -> Vec<Program> {
    vec![
        prog(vec![Step::SetNodeAtt { n: 1, v: 1 }, Step::SetNodeAtt { n: 2, v: 2 }]), // X := "A" (= parent's), Y := "AB"
        prog(vec![Step::SetNodeAtt { n: 1, v: 2 }, Step::SetNodeAtt { n: 2, v: 1 }]), // X := "AB", Y := "A" (= parent's)
        prog(vec![Step::CopyNodeAtt { from: 1, to: 3 }, Step::SetNodeAtt { n: 2, v: 2 }]), // Z := X (reads X), Y := "AB"
    ]
}
/// Structural alphabet: node record, edge record, edge attachment.
fn struct_parent() -> Vec<Program> {
    vec![
        prog(vec![Step::UpsertNode { n: 3, ty: 1 }]),
        prog(vec![Step::SetEdgeAtt { e: 0, v: 1 }]),
        prog(vec![Step::UpsertEdge { e: 1, from: 0, to: 2, ty: 0 }]),
    ]
}
fn struct_strand() -> Vec<Program> {
    vec![
        prog(vec![Step::UpsertNode { n: 3, ty: 2 }]),
        prog(vec![Step::SetEdgeAtt { e: 0, v: 2 }]),
        prog(vec![Step::UpsertEdge { e: 1, from: 0, to: 2, ty: 1 }]),
        prog(vec![Step::SetNodeAtt { n: 2, v: 2 }]),
    ]
}

fn genesis_program() -> Program {
    prog(vec![Step::ReadNode { n: 0 }])
}

// ---------------------------------------------------------------------------------------------
// abstract view
// ---------------------------------------------------------------------------------------------

type H = [u8; 32];

#[derive(Clone, Debug, PartialEq, Eq, PartialOrd, Ord, Hash)]
enum Loc {
    Inst(H),
    Node(H, H),
    Edge(H, H),
    NAtt(H, H),
    EAtt(H, H),
}
impl Loc {
    fn short(&self) -> String {
        let h = |x: &H| mc::hex(&x[..3]);
        match self {
            Loc::Inst(w) => format!("inst:{}", h(w)),
            Loc::Node(_, n) => format!("node:{}", h(n)),
            Loc::Edge(_, e) => format!("edge:{}", h(e)),
            Loc::NAtt(_, n) => format!("natt:{}", h(n)),
            Loc::EAtt(_, e) => format!("eatt:{}", h(e)),
        }
    }
}
type Abs = BTreeMap<Loc, String>;
type Diff = BTreeMap<Loc, Option<String>>;

fn abs(ws: &WorldlineState) -> Abs {
    let s = ws.warp_state();
    let mut m = Abs::new();
    for inst in hooks::warp_state::instances(s) {
        m.insert(Loc::Inst(inst.warp_id.0), format!("{inst:?}"));
    }
    for wid in hooks::warp_state::store_ids(s) {
        let Some(st) = s.store(&wid) else { continue };
        for (nid, rec) in st.iter_nodes() {
            m.insert(Loc::Node(wid.0, nid.0), format!("{rec:?}"));
        }
        for (_, bucket) in st.iter_edges() {
            for rec in bucket {
                m.insert(Loc::Edge(wid.0, rec.id.0), format!("{rec:?}"));
            }
        }
        for (nid, v) in st.iter_node_attachments() {
            m.insert(Loc::NAtt(wid.0, nid.0), format!("{v:?}"));
        }
        for (eid, v) in st.iter_edge_attachments() {
            m.insert(Loc::EAtt(wid.0, eid.0), format!("{v:?}"));
        }
    }
    m
}

/// Locations whose value differs, with the value in `b` (`None` = absent in `b`).
fn diff(a: &Abs, b: &Abs) -> Diff {
    let mut d = Diff::new();
    for (k, v) in a {
        match b.get(k) {
            Some(v2) if v2 == v => {}
            other => {
                d.insert(k.clone(), other.cloned());
            }
        }
    }
    for (k, v) in b {
        if !a.contains_key(k) {
            d.insert(k.clone(), Some(v.clone()));
        }
    }
    d
}

fn apply_diff(a: &mut Abs, d: &Diff) {
    for (k, v) in d {
        match v {
            Some(v) => {
                a.insert(k.clone(), v.clone());
            }
            None => {
                a.remove(k);
            }
        }
    }
}

fn slot_loc(s: &SlotId) -> Option<Loc> {
    match s {
        SlotId::Node(nk) => Some(Loc::Node(nk.warp_id.0, nk.local_id.0)),
        SlotId::Edge(ek) => Some(Loc::Edge(ek.warp_id.0, ek.local_id.0)),
        SlotId::Attachment(k) => Some(match k.owner {
            AttachmentOwner::Node(nk) => Loc::NAtt(nk.warp_id.0, nk.local_id.0),
            AttachmentOwner::Edge(ek) => Loc::EAtt(ek.warp_id.0, ek.local_id.0),
        }),
        SlotId::Port(_) => None,
    }
}

// ---------------------------------------------------------------------------------------------
// state
// ---------------------------------------------------------------------------------------------

#[derive(Clone)]
struct St {
    rt: Rt,
    /// hash of the full Debug fingerprint (runtime + provenance)
    fp: H,
    parts: Parts,
    /// per-worldline fingerprint: frontier, provenance entries/checkpoints, heads + inboxes
    wf: BTreeMap<WorldlineId, H>,
    /// strand registry fingerprint
    reg: H,
}

fn lane_fp(rt: &Rt, w: WorldlineId) -> H {
    use std::fmt::Write;
    let mut s = HashW(blake3::Hasher::new());
    let _ = write!(s, "{:?}", rt.runtime.worldlines().get(&w));
    let len = rt.provenance.len(w).unwrap_or(0);
    let _ = write!(
        s,
        "|len={len}|u0={:?}|ib={:?}",
        rt.provenance.u0(w),
        rt.provenance.initial_boundary_hash(w)
    );
    for t in 0..len {
        let _ = write!(s, "|{:?}", rt.provenance.entry(w, wt(t)));
    }
    for t in 0..=len + 1 {
        let _ = write!(s, "|{:?}", rt.provenance.checkpoint_before(w, wt(t)));
    }
    for (k, h) in rt.runtime.heads().iter() {
        if k.worldline_id == w {
            let _ = write!(s, "|{h:?}");
        }
    }
    *s.0.finalize().as_bytes()
}

impl St {
    fn of(rt: Rt) -> St {
        let parts = parts(&rt);
        let fp = mc::h(&[parts.0, parts.1].concat());
        let mut wf = BTreeMap::new();
        let ids: Vec<WorldlineId> = rt.runtime.worldlines().iter().map(|(w, _)| *w).collect();
        for w in ids {
            wf.insert(w, lane_fp(&rt, w));
        }
        let reg = dbg_hash(rt.runtime.strands());
        St { rt, fp, parts, wf, reg }
    }
    fn live(&self, cfg: &Cfg) -> Vec<u8> {
        (1..=cfg.max_strands)
            .filter(|k| self.rt.runtime.strands().contains(&sid(*k)))
            .collect()
    }
    fn len(&self, w: WorldlineId) -> u64 {
        self.rt.provenance.len(w).unwrap_or(0)
    }
}

/// `WorldlineRuntime` holds a `Cell` (an instrumentation counter), so it is `Send` but not `Sync`;
/// the BFS shares states between rayon workers by reference, hence the mutex.
struct Sh(std::sync::Mutex<St>);
impl Sh {
    fn new(s: St) -> Sh {
        Sh(std::sync::Mutex::new(s))
    }
    fn with<R>(&self, f: impl FnOnce(&St) -> R) -> R {
        let g = self.0.lock().unwrap_or_else(|e| e.into_inner());
        f(&g)
    }
}
impl Clone for Sh {
    fn clone(&self) -> Sh {
        self.with(|s| Sh::new(s.clone()))
    }
}

fn base_ref() -> world::RefState {
    let mut s = fixture::base_state();
    s.nodes.insert((0, 3), 0);
    s
}

/// A runtime with the parent worldline only (no history).
fn empty_rt() -> Rt {
    let mut runtime = WorldlineRuntime::new();
    runtime
        .register_worldline(parent(), fixture::worldline_state(&base_ref()))
        .expect("register parent");
    runtime
        .register_writer_head(mk_head(phead()))
        .expect("register parent head");
    let mut provenance = ProvenanceService::new();
    let st = runtime.worldlines().get(&parent()).expect("parent").state().clone();
    provenance
        .register_worldline(parent(), &st)
        .expect("register provenance");
    Rt {
        runtime,
        provenance,
        heads: vec![phead()],
    }
}

/// BFS root: the parent has committed one genesis tick (so that tick 0 exists and can be forked).
fn root_state() -> Result<St, String> {
    let mut rt = empty_rt();
    match rt
        .runtime
        .ingest(fixture::intent_default(parent(), &genesis_program()))
    {
        Ok(IngressDisposition::Accepted { .. }) => {}
        other => return Err(format!("genesis ingest: {other:?}")),
    }
    rt.super_tick(SchedulerKind::Radix)
        .map_err(|e| format!("genesis tick: {e:?}"))?;
    if rt.provenance.len(parent()).unwrap_or(0) != 1 {
        return Err("genesis tick did not commit".into());
    }
    Ok(St::of(rt))
}

// ---------------------------------------------------------------------------------------------
// operations
// ---------------------------------------------------------------------------------------------

#[derive(Clone, Debug, PartialEq, Eq)]
enum Op {
    /// parent tick with parent intent i
    PTick(u8),
    /// fork strand k from lane `src` (0 = parent, s = strand s's lane) at tick t
    Fork { k: u8, src: u8, t: u64 },
    /// strand k tick with strand intent j
    STick(u8, u8),
    /// settle strand k (plural policy?)
    Settle(u8, bool),
    Pin(u8, u8),
    Unpin(u8, u8),
}

impl Op {
    fn enc(&self) -> String {
        match self {
            Op::PTick(i) => format!("P{i}"),
            Op::Fork { k, src, t } => format!("F{k}<{src}@{t}"),
            Op::STick(k, j) => format!("S{k}:{j}"),
            Op::Settle(k, p) => format!("T{k}{}", if *p { "p" } else { "d" }),
            Op::Pin(a, b) => format!("N{a}>{b}"),
            Op::Unpin(a, b) => format!("U{a}>{b}"),
        }
    }
    fn dec(s: &str) -> Option<Op> {
        let b = s.as_bytes();
        let d = |c: u8| (c as char).to_digit(10).map(|x| x as u8);
        match *b.first()? {
            b'P' => Some(Op::PTick(s[1..].parse().ok()?)),
            b'F' => {
                let k = d(*b.get(1)?)?;
                let rest = &s[3..];
                let (src, t) = rest.split_once('@')?;
                Some(Op::Fork {
                    k,
                    src: src.parse().ok()?,
                    t: t.parse().ok()?,
                })
            }
            b'S' => {
                let (k, j) = s[1..].split_once(':')?;
                Some(Op::STick(k.parse().ok()?, j.parse().ok()?))
            }
            b'T' => Some(Op::Settle(d(*b.get(1)?)?, *b.get(2)? == b'p')),
            b'N' => {
                let (a, c) = s[1..].split_once('>')?;
                Some(Op::Pin(a.parse().ok()?, c.parse().ok()?))
            }
            b'U' => {
                let (a, c) = s[1..].split_once('>')?;
                Some(Op::Unpin(a.parse().ok()?, c.parse().ok()?))
            }
            _ => None,
        }
    }
}

fn path_str(path: &[Op], op: Option<&Op>) -> Vec<String> {
    let mut v: Vec<String> = path.iter().map(Op::enc).collect();
    if let Some(o) = op {
        v.push(o.enc());
    }
    v
}

struct Ctx<'a> {
    r: &'a Report,
    cfg: &'a Cfg,
    /// paths handed to the checks already start at the genesis root
    replaying: bool,
}

impl Ctx<'_> {
    /// Path from the genesis root: configuration prefix (unless `path` already starts with it,
    /// as during the prefix execution itself and in replay) + search path.
    fn full_path(&self, path: &[Op], op: Option<&Op>) -> Vec<String> {
        let mut v = Vec::new();
        if !self.replaying {
            v.extend(self.cfg.prefix.iter().map(Op::enc));
        }
        v.extend(path_str(path, op));
        v
    }
    fn viol(&self, sig: &str, path: &[Op], op: Option<&Op>, extra: Value) {
        self.r.violation(
            &format!("C15:{sig}"),
            json!({"case": {"cfg": self.cfg.name, "path": self.full_path(path, op)}, "what": extra}),
        );
    }
}

fn err_name<E: std::fmt::Debug>(e: &E) -> String {
    let s = format!("{e:?}");
    s.split(|c: char| !(c.is_alphanumeric() || c == '_'))
        .next()
        .unwrap_or("?")
        .to_string()
}
fn err_name2<E: std::fmt::Debug>(e: &E) -> String {
    // first two identifiers (e.g. Runtime/GlobalTickOverflow)
    let s = format!("{e:?}");
    let v: Vec<&str> = s
        .split(|c: char| !(c.is_alphanumeric() || c == '_'))
        .filter(|x| !x.is_empty())
        .take(2)
        .collect();
    v.join("/")
}

struct HashW(blake3::Hasher);
impl std::fmt::Write for HashW {
    fn write_str(&mut self, s: &str) -> std::fmt::Result {
        self.0.update(s.as_bytes());
        Ok(())
    }
}
/// Hash of the `Debug` rendering (streamed, no 150 kB strings).
fn dbg_hash<T: std::fmt::Debug>(t: &T) -> H {
    use std::fmt::Write;
    let mut w = HashW(blake3::Hasher::new());
    let _ = write!(w, "{t:?}");
    *w.0.finalize().as_bytes()
}
/// (Debug hash of the runtime, Debug hash of the provenance service).
type Parts = (H, H);
fn parts(rt: &Rt) -> Parts {
    (dbg_hash(&rt.runtime), dbg_hash(&rt.provenance))
}

/// Which part of the cloneable system is not Debug-identical (for all-or-nothing signatures).
fn residue(a: Parts, b: &Rt) -> Option<&'static str> {
    let pb = parts(b);
    match (a.0 != pb.0, a.1 != pb.1) {
        (false, false) => None,
        (true, false) => Some("runtime"),
        (false, true) => Some("provenance"),
        (true, true) => Some("runtime+provenance"),
    }
}

/// A lane is verifiable from its own history: frontier tick = history length, replay from history
/// reproduces the frontier (state root and abstract content), the tip entry commits to that root.
fn check_lane(cx: &Ctx, rt: &Rt, w: WorldlineId, tag: &str, path: &[Op], op: Option<&Op>) {
    let Some(f) = rt.runtime.worldlines().get(&w) else {
        cx.viol(&format!("{tag}:lane-missing"), path, op, json!({"lane": wname(w)}));
        return;
    };
    let len = rt.provenance.len(w).unwrap_or(u64::MAX);
    if f.frontier_tick().as_u64() != len {
        cx.viol(
            &format!("{tag}:frontier-tick-differs-from-history-length"),
            path,
            op,
            json!({"lane": wname(w), "frontier": f.frontier_tick().as_u64(), "history": len}),
        );
        return;
    }
    match rt.provenance.replay_worldline_state(w, f.state()) {
        Ok(rep) => {
            if rep.state_root() != f.state().state_root() || abs(&rep) != abs(f.state()) {
                cx.viol(
                    &format!("{tag}:replay-from-own-history-differs-from-frontier"),
                    path,
                    op,
                    json!({"lane": wname(w)}),
                );
            }
        }
        Err(e) => cx.viol(
            &format!("{tag}:replay-from-own-history-fails"),
            path,
            op,
            json!({"lane": wname(w), "err": format!("{e:?}")}),
        ),
    }
    if len > 0 {
        if let Ok(e) = rt.provenance.entry(w, wt(len - 1)) {
            if e.expected.state_root != f.state().state_root() {
                cx.viol(
                    &format!("{tag}:tip-entry-root-differs-from-frontier"),
                    path,
                    op,
                    json!({"lane": wname(w)}),
                );
            }
        }
    }
}

/// Hash-chain check of one entry against its predecessor (C05 oracle, restricted to what C15 says).
fn check_chain(
    cx: &Ctx,
    rt: &Rt,
    w: WorldlineId,
    t: u64,
    tag: &str,
    path: &[Op],
    op: Option<&Op>,
) {
    let Ok(e) = rt.provenance.entry(w, wt(t)) else {
        cx.viol(&format!("{tag}:entry-missing"), path, op, json!({"tick": t}));
        return;
    };
    let mut bad = Vec::new();
    if e.worldline_id != w || e.worldline_tick != wt(t) {
        bad.push("coordinate");
    }
    let prev = if t == 0 {
        None
    } else {
        rt.provenance.entry(w, wt(t - 1)).ok()
    };
    let want_parents: Vec<_> = prev.iter().map(|p| p.as_ref()).collect();
    if e.parents != want_parents {
        bad.push("parents");
    }
    if let Some(p) = &prev {
        if e.commit_global_tick <= p.commit_global_tick {
            bad.push("global-tick-not-increasing");
        }
    }
    match &e.patch {
        Some(p) => {
            if p.patch_digest != e.expected.patch_digest {
                bad.push("patch-digest");
            }
            let parent_hashes: Vec<H> = want_parents.iter().map(|p| p.commit_hash).collect();
            let want = compute_commit_hash_v2(
                &e.expected.state_root,
                &parent_hashes,
                &e.expected.patch_digest,
                p.policy_id(),
            );
            if want != e.expected.commit_hash {
                bad.push("commit-hash");
            }
            if p.commit_global_tick() != e.commit_global_tick {
                bad.push("patch-global-tick");
            }
        }
        None => bad.push("no-patch"),
    }
    if !bad.is_empty() {
        cx.viol(
            &format!("{tag}:appended-entry-does-not-chain:{}", bad.join("+")),
            path,
            op,
            json!({"lane": wname(w), "tick": t}),
        );
    }
}

fn do_tick(cx: &Ctx, pre: &St, w: WorldlineId, p: &Program, path: &[Op], op: &Op) -> Option<St> {
    let r = cx.r;
    let mut rt = pre.rt.clone();
    match rt.runtime.ingest(fixture::intent_default(w, p)) {
        Ok(IngressDisposition::Accepted { .. }) => {}
        Ok(IngressDisposition::Duplicate { .. }) => {
            r.outcome("tick:intent-duplicate(pruned)");
            return None;
        }
        Err(e) => {
            r.outcome(&format!("tick:ingest-error:{}", err_name(&e)));
            return None;
        }
    }
    let len0 = pre.len(w);
    if let Err(e) = rt.super_tick(SchedulerKind::Radix) {
        r.machinery_error(&format!("super_tick failed: {e:?} at {:?}", path_str(path, Some(op))));
        return None;
    }
    let len1 = rt.provenance.len(w).unwrap_or(0);
    if len1 != len0 + 1 {
        r.outcome("tick:no-commit(pruned)");
        return None;
    }
    let post = St::of(rt);
    let is_parent = w == parent();
    r.outcome(if is_parent { "tick:parent" } else { "tick:strand" });
    // ISOLATION: every other lane's fingerprint is unchanged.
    for (x, f0) in &pre.wf {
        if *x == w {
            continue;
        }
        if post.wf.get(x) != Some(f0) {
            let sig = if is_parent {
                "isolation:parent-tick-changed-strand-lane".to_string()
            } else if *x == parent() {
                "isolation:strand-tick-changed-parent-lane".to_string()
            } else {
                "isolation:strand-tick-changed-other-strand-lane".to_string()
            };
            cx.viol(&sig, path, Some(op), json!({"ticked": wname(w), "changed": wname(*x)}));
        }
    }
    if post.wf.len() != pre.wf.len() {
        cx.viol("isolation:tick-changed-lane-set", path, Some(op), json!({}));
    }
    if post.reg != pre.reg {
        cx.viol("isolation:tick-changed-strand-registry", path, Some(op), json!({}));
    }
    if post.wf.get(&w) == pre.wf.get(&w) {
        cx.viol("tick:committed-but-lane-unchanged", path, Some(op), json!({}));
    }
    // the ticked lane stays verifiable and its new entry is a local commit by its own head
    check_lane(cx, &post.rt, w, "tick", path, Some(op));
    check_chain(cx, &post.rt, w, len0, "tick", path, Some(op));
    if let Ok(e) = post.rt.provenance.entry(w, wt(len0)) {
        let own_head = e.head_key.map(|h| h.worldline_id == w).unwrap_or(false);
        if e.event_kind != ProvenanceEventKind::LocalCommit || !own_head {
            cx.viol("tick:entry-not-a-local-commit-of-own-head", path, Some(op), json!({}));
        }
    }
    Some(post)
}

fn fork_request(
    strand: StrandId,
    source: WorldlineId,
    t: u64,
    child_wl: WorldlineId,
    heads: Vec<WriterHeadKey>,
) -> ForkStrandRequest {
    ForkStrandRequest {
        strand_id: strand,
        source_lane_id: source,
        fork_tick: wt(t),
        child_worldline_id: child_wl,
        writer_heads: heads.into_iter().map(mk_head).collect(),
        retention_posture: shared_posture(),
    }
}

/// Same, but the strand's heads are not default writers (so the duplicate-default-writer check of
/// head registration cannot mask a missing lane-ownership check).
fn fork_request_nd(
    strand: StrandId,
    source: WorldlineId,
    t: u64,
    child_wl: WorldlineId,
    heads: Vec<WriterHeadKey>,
) -> ForkStrandRequest {
    let mut q = fork_request(strand, source, t, child_wl, vec![]);
    q.writer_heads = heads
        .into_iter()
        .map(|k| WriterHead::with_routing(k, PlaybackMode::Play, InboxPolicy::AcceptAll, None, false))
        .collect();
    q
}

fn relane(mut e: ProvenanceEntry, source: WorldlineId, new_id: WorldlineId) -> ProvenanceEntry {
    e.worldline_id = new_id;
    if let Some(h) = e.head_key.as_mut() {
        if h.worldline_id == source {
            h.worldline_id = new_id;
        }
    }
    for p in &mut e.parents {
        if p.worldline_id == source {
            p.worldline_id = new_id;
        }
    }
    e
}

fn lane_of(src: u8) -> WorldlineId {
    if src == 0 {
        parent()
    } else {
        child(src)
    }
}

fn do_fork(cx: &Ctx, pre: &St, k: u8, src: u8, t: u64, path: &[Op], op: &Op) -> Option<St> {
    let r = cx.r;
    let source = lane_of(src);
    let mut rt = pre.rt.clone();
    let req = fork_request(sid(k), source, t, child(k), vec![shead(k)]);
    let rc: ForkStrandReceipt = match rt.runtime.fork_strand(&mut rt.provenance, req) {
        Ok(rc) => rc,
        Err(e) => {
            r.outcome(&format!("fork:error:{}", err_name2(&e)));
            if let Some(part) = residue(pre.parts, &rt) {
                cx.viol(
                    &format!("fork:failed-fork-left-residue:{part}"),
                    path,
                    Some(op),
                    json!({"err": format!("{e:?}")}),
                );
            }
            // a well-formed request on an existing tick must not fail
            cx.viol("fork:well-formed-fork-rejected", path, Some(op), json!({"err": format!("{e:?}")}));
            return None;
        }
    };
    let post = St::of(rt);
    r.outcome(if t == 0 { "fork:at-tick-0" } else { "fork:at-tick>=1" });
    if t + 1 < pre.len(source) {
        r.outcome("fork:at-past-tick(not-the-tip)");
    }
    if src != 0 {
        r.outcome("fork:nested(from-strand-lane)");
    }
    let c = child(k);
    // receipt fields agree with provenance
    match pre.rt.provenance.entry(source, wt(t)) {
        Ok(pe) => {
            let want = ForkBasisRef {
                source_lane_id: source,
                fork_tick: wt(t),
                commit_hash: pe.expected.commit_hash,
                boundary_hash: pe.expected.state_root,
                provenance_ref: pe.as_ref(),
            };
            if rc.fork_basis_ref != want {
                cx.viol("fork:receipt-basis-disagrees-with-provenance", path, Some(op), json!({}));
            }
        }
        Err(_) => cx.viol("fork:succeeded-on-missing-tick", path, Some(op), json!({})),
    }
    if rc.strand_id != sid(k) || rc.child_worldline_id != c || rc.writer_heads != vec![shead(k)] {
        cx.viol("fork:receipt-identity-fields-wrong", path, Some(op), json!({}));
    }
    match post.rt.runtime.strands().get(&sid(k)) {
        Some(s) => {
            if s.fork_basis_ref() != rc.fork_basis_ref
                || s.child_worldline_id() != c
                || s.writer_heads() != rc.writer_heads.as_slice()
                || !s.support_pins().is_empty()
            {
                cx.viol("fork:registered-strand-disagrees-with-receipt", path, Some(op), json!({}));
            }
        }
        None => cx.viol("fork:strand-not-registered", path, Some(op), json!({})),
    }
    // child history == parent's prefix 0..=t, re-laned, entry by entry
    let clen = post.len(c);
    if clen != t + 1 {
        cx.viol(
            "fork:child-history-length-is-not-fork-tick+1",
            path,
            Some(op),
            json!({"child_len": clen, "fork_tick": t}),
        );
    }
    for i in 0..clen.min(pre.len(source)) {
        let want = pre.rt.provenance.entry(source, wt(i)).map(|e| relane(e, source, c));
        let got = post.rt.provenance.entry(c, wt(i));
        match (want, got) {
            (Ok(a), Ok(b)) if a == b => {}
            _ => {
                cx.viol(
                    "fork:child-entry-differs-from-relaned-parent-entry",
                    path,
                    Some(op),
                    json!({"tick": i}),
                );
                break;
            }
        }
    }
    // child frontier == parent's state at the fork coordinate
    if let (Some(cf), Some(sf)) = (
        post.rt.runtime.worldlines().get(&c),
        pre.rt.runtime.worldlines().get(&source),
    ) {
        match pre
            .rt
            .provenance
            .replay_worldline_state_at(source, sf.state(), wt(t + 1))
        {
            Ok(hist) => {
                if cf.state().state_root() != hist.state_root() || abs(cf.state()) != abs(&hist) {
                    cx.viol("fork:child-state-differs-from-parent-at-fork-tick", path, Some(op), json!({}));
                }
            }
            Err(e) => r.machinery_error(&format!("replay source at fork tick: {e:?}")),
        }
        if cf.frontier_tick() != wt(t + 1) {
            cx.viol("fork:child-frontier-tick-wrong", path, Some(op), json!({}));
        }
    } else {
        cx.viol("fork:child-frontier-missing", path, Some(op), json!({}));
    }
    check_lane(cx, &post.rt, c, "fork", path, Some(op));
    // fresh writer heads only
    for hk in &rc.writer_heads {
        if hk.worldline_id != c {
            cx.viol("fork:strand-head-not-on-child-lane", path, Some(op), json!({}));
        }
        if pre.rt.runtime.heads().get(hk).is_some() {
            cx.viol("fork:strand-head-key-existed-before", path, Some(op), json!({}));
        }
        if post.rt.runtime.heads().get(hk).is_none() {
            cx.viol("fork:strand-head-not-registered", path, Some(op), json!({}));
        }
    }
    let new_heads: Vec<WriterHeadKey> = post
        .rt
        .runtime
        .heads()
        .iter()
        .map(|(k, _)| *k)
        .filter(|k| pre.rt.runtime.heads().get(k).is_none())
        .collect();
    if new_heads != rc.writer_heads {
        cx.viol("fork:registered-heads-differ-from-receipt", path, Some(op), json!({}));
    }
    for (hk, _) in post.rt.runtime.heads().iter() {
        if hk.worldline_id == source && pre.rt.runtime.heads().get(hk).is_none() {
            cx.viol("fork:new-head-on-source-lane", path, Some(op), json!({}));
        }
    }
    // ISOLATION: the fork changes no existing lane and no existing strand
    for (x, f0) in &pre.wf {
        if post.wf.get(x) != Some(f0) {
            cx.viol("isolation:fork-changed-existing-lane", path, Some(op), json!({"lane": wname(*x)}));
        }
    }
    if post.wf.len() != pre.wf.len() + 1 {
        cx.viol("fork:lane-set-not-extended-by-exactly-the-child", path, Some(op), json!({}));
    }
    for j in pre.live(cx.cfg) {
        let a = format!("{:?}", pre.rt.runtime.strands().get(&sid(j)));
        let b = format!("{:?}", post.rt.runtime.strands().get(&sid(j)));
        if a != b {
            cx.viol("isolation:fork-changed-existing-strand", path, Some(op), json!({}));
        }
    }
    Some(post)
}

fn dec_name(d: &SettlementDecision) -> String {
    match d {
        SettlementDecision::ImportCandidate(c) => match &c.overlap_revalidation {
            None => "import".into(),
            Some(_) => "import(revalidated-clean)".into(),
        },
        SettlementDecision::ConflictArtifact(c) => format!("conflict:{:?}", c.reason),
        SettlementDecision::PluralAlternative(_) => "plural".into(),
    }
}

struct StrandView {
    target: WorldlineId,
    child: WorldlineId,
    fork_tick: u64,
}

fn strand_view(rt: &Rt, k: u8) -> Option<StrandView> {
    let s = rt.runtime.strands().get(&sid(k))?;
    Some(StrandView {
        target: s.fork_basis_ref().source_lane_id,
        child: s.child_worldline_id(),
        fork_tick: s.fork_basis_ref().fork_tick.as_u64(),
    })
}

fn replay_abs(rt: &Rt, w: WorldlineId, t: u64) -> Result<(Abs, H, WorldlineState), String> {
    let f = rt
        .runtime
        .worldlines()
        .get(&w)
        .ok_or_else(|| "lane missing".to_string())?;
    let s = rt
        .provenance
        .replay_worldline_state_at(w, f.state(), wt(t))
        .map_err(|e| format!("{e:?}"))?;
    Ok((abs(&s), s.state_root(), s))
}

fn do_settle(cx: &Ctx, pre: &St, k: u8, plural: bool, path: &[Op], op: &Op) -> Option<St> {
    let r = cx.r;
    let pol = policy(plural);
    let plan0 =
        SettlementService::plan_with_policy(&pre.rt.runtime, &pre.rt.provenance, sid(k), &pol);
    let mut rt = pre.rt.clone();
    let res =
        SettlementService::settle_with_policy(&mut rt.runtime, &mut rt.provenance, sid(k), &pol);
    match res {
        Err(e) => {
            r.outcome(&format!("settle:error:{}", err_name2(&e)));
            // SETTLE is all-or-nothing
            if let Some(part) = residue(pre.parts, &rt) {
                cx.viol(
                    &format!("settle:failed-settle-left-residue:{part}"),
                    path,
                    Some(op),
                    json!({"err": format!("{e:?}")}),
                );
            } else {
                r.counter("natural_settle_failures_rolled_back", 1);
                if matches!(e, warp_core::SettlementError::BraidShell(_)) {
                    r.counter("late_shell_failures_rolled_back", 1);
                }
            }
            None
        }
        Ok(res) => {
            let plan0 = match plan0 {
                Ok(p) => p,
                Err(e) => {
                    cx.viol("settle:succeeded-although-plan-fails", path, Some(op), json!({"err": format!("{e:?}")}));
                    return None;
                }
            };
            if res.plan.decisions.is_empty() {
                r.outcome("settle:empty-suffix(no-op)");
                if residue(pre.parts, &rt).is_some()
                    || res.braid_shell.is_some()
                    || !res.appended_imports.is_empty()
                {
                    cx.viol("settle:empty-settlement-changed-state", path, Some(op), json!({}));
                }
                return None;
            }
            let post = St::of(rt);
            check_settle(cx, pre, &post, k, plural, &plan0, &res, path, op);
            Some(post)
        }
    }
}

#[allow(clippy::too_many_arguments)]
fn check_settle(
    cx: &Ctx,
    pre: &St,
    post: &St,
    k: u8,
    plural: bool,
    plan0: &SettlementPlan,
    res: &SettlementResult,
    path: &[Op],
    op: &Op,
) {
    let r = cx.r;
    let o = Some(op);
    let Some(sv) = strand_view(&pre.rt, k) else {
        cx.viol("settle:ok-for-unknown-strand", path, o, json!({}));
        return;
    };
    let (target, c, ft) = (sv.target, sv.child, sv.fork_tick);
    let pol = policy(plural);
    // PLAN then execution: the executed plan is the pure plan of the pre-state.
    if res.plan != *plan0 {
        cx.viol("settle:executed-plan-differs-from-pure-plan", path, o, json!({}));
    }
    if res.plan.target_worldline != target || res.plan.strand_id != sid(k) {
        cx.viol("settle:plan-identity-fields-wrong", path, o, json!({}));
    }
    let decisions = &res.plan.decisions;
    let n = decisions.len() as u64;
    let pre_len = pre.len(target);
    let post_len = post.len(target);
    let child_len = pre.len(c);
    let s_from = ft + 1;
    if post_len != pre_len + n {
        cx.viol(
            "settle:history-growth-differs-from-decision-count",
            path,
            o,
            json!({"pre": pre_len, "post": post_len, "decisions": n}),
        );
        return;
    }
    if child_len < s_from || n != child_len - s_from {
        cx.viol(
            "settle:decision-count-differs-from-suffix-length",
            path,
            o,
            json!({"suffix": child_len.saturating_sub(s_from), "decisions": n}),
        );
        return;
    }
    // ISOLATION under settlement: only the target lane changes; the registry does not.
    for (x, f0) in &pre.wf {
        if *x != target && post.wf.get(x) != Some(f0) {
            cx.viol("isolation:settle-changed-non-target-lane", path, o, json!({"lane": wname(*x)}));
        }
    }
    if post.wf.len() != pre.wf.len() {
        cx.viol("isolation:settle-changed-lane-set", path, o, json!({}));
    }
    if post.reg != pre.reg {
        cx.viol("isolation:settle-changed-strand-registry", path, o, json!({}));
    }
    // the pre-existing history of the target is untouched
    for t in 0..pre_len {
        if pre.rt.provenance.entry(target, wt(t)).ok() != post.rt.provenance.entry(target, wt(t)).ok() {
            cx.viol("settle:rewrote-existing-target-history", path, o, json!({"tick": t}));
            break;
        }
    }

    // ---- abstract histories -------------------------------------------------------------------
    // strand suffix diffs d[j] : state before entry s_from+j -> state after it
    let mut strand_abs = Vec::new();
    for t in s_from..=child_len {
        match replay_abs(&pre.rt, c, t) {
            Ok((a, _, _)) => strand_abs.push(a),
            Err(e) => {
                r.machinery_error(&format!("replay strand lane: {e}"));
                return;
            }
        }
    }
    let d: Vec<Diff> = strand_abs.windows(2).map(|w| diff(&w[0], &w[1])).collect();
    // parent movement since the fork coordinate (stepwise and net), from replayed states
    let mut par_abs = Vec::new();
    for t in s_from..=pre_len {
        match replay_abs(&pre.rt, target, t) {
            Ok((a, _, _)) => par_abs.push(a),
            Err(e) => {
                r.machinery_error(&format!("replay target lane: {e}"));
                return;
            }
        }
    }
    let Some(pre_abs) = par_abs.last().cloned() else {
        cx.viol("settle:target-shorter-than-fork-coordinate", path, o, json!({}));
        return;
    };
    let pre_frontier = pre.rt.runtime.worldlines().get(&target).map(|f| f.state().clone());
    let Some(pre_frontier) = pre_frontier else { return };
    if abs(&pre_frontier) != pre_abs {
        cx.viol("settle:pre-state-frontier-differs-from-replay", path, o, json!({}));
    }
    let moved_net: BTreeSet<Loc> = diff(&par_abs[0], &pre_abs).into_keys().collect();
    let mut moved_step: BTreeSet<Loc> = BTreeSet::new();
    for w in par_abs.windows(2) {
        moved_step.extend(diff(&w[0], &w[1]).into_keys());
    }
    // declared parent writes: used ONLY to weaken the must-import obligation (a declared write
    // that did not change the value still counts as "the parent moved there")
    let mut declared: BTreeSet<Loc> = BTreeSet::new();
    for t in s_from..pre_len {
        if let Ok(e) = pre.rt.provenance.entry(target, wt(t)) {
            if let Some(p) = &e.patch {
                declared.extend(p.out_slots.iter().filter_map(slot_loc));
            }
        }
    }
    let parent_moved = pre_len > s_from;

    // ---- appended entries ---------------------------------------------------------------------
    let mut want_imports = Vec::new();
    let mut want_conflicts = Vec::new();
    let mut want_plurals = Vec::new();
    let mut plural_ids = Vec::new();
    let mut expected = pre_abs.clone();
    let mut sim = pre_frontier.clone();
    let mut blocked = false;
    let mut n_import = 0u64;
    let mut n_conflict = 0u64;
    let mut n_plural = 0u64;
    let mut n_blocked = 0u64;
    let mut w_overlap_any = false;
    let mut r_overlap_any = false;
    let mut names = Vec::new();
    for (j, dec) in decisions.iter().enumerate() {
        let t_new = pre_len + j as u64;
        let src_tick = s_from + j as u64;
        names.push(dec_name(dec));
        let Ok(se) = pre.rt.provenance.entry(c, wt(src_tick)) else {
            r.machinery_error("strand suffix entry missing");
            return;
        };
        let Ok(ne) = post.rt.provenance.entry(target, wt(t_new)) else {
            cx.viol("settle:appended-entry-missing", path, o, json!({"tick": t_new}));
            return;
        };
        let dj = &d[j];
        let is_import = matches!(dec, SettlementDecision::ImportCandidate(_));
        // decision j is about suffix entry j
        let dref = match dec {
            SettlementDecision::ImportCandidate(x) => x.source_ref,
            SettlementDecision::ConflictArtifact(x) => x.source_ref,
            SettlementDecision::PluralAlternative(x) => x.source_ref,
        };
        if dref != se.as_ref() {
            cx.viol("settle:decision-order-differs-from-suffix-order", path, o, json!({"index": j}));
        }
        // appended entry kind agrees with the decision
        let kind_ok = match (dec, &ne.event_kind) {
            (
                SettlementDecision::ImportCandidate(_),
                ProvenanceEventKind::MergeImport {
                    source_worldline,
                    source_worldline_tick,
                    ..
                },
            ) => *source_worldline == c && *source_worldline_tick == wt(src_tick),
            (
                SettlementDecision::ConflictArtifact(x),
                ProvenanceEventKind::ConflictArtifact { artifact_id },
            ) => *artifact_id == x.artifact_id,
            (
                SettlementDecision::PluralAlternative(x),
                ProvenanceEventKind::PluralArtifact { plural_id, .. },
            ) => *plural_id == x.plural_id,
            _ => false,
        };
        if !kind_ok {
            cx.viol(
                "settle:appended-entry-kind-differs-from-decision",
                path,
                o,
                json!({"index": j, "decision": dec_name(dec), "entry": err_name(&ne.event_kind)}),
            );
        }
        match dec {
            SettlementDecision::ImportCandidate(_) => want_imports.push(ne.as_ref()),
            SettlementDecision::ConflictArtifact(_) => want_conflicts.push(ne.as_ref()),
            SettlementDecision::PluralAlternative(x) => {
                want_plurals.push(ne.as_ref());
                plural_ids.push(x.plural_id);
            }
        }
        // (iv) every appended entry chains
        check_chain(cx, &post.rt, target, t_new, "settle", path, o);

        // ---- the statement's conditions on this suffix entry ----
        let written: BTreeSet<&Loc> = dj.keys().collect();
        let w_overlap = written.iter().any(|l| moved_step.contains(*l));
        let reads: BTreeSet<Loc> = se
            .patch
            .as_ref()
            .map(|p| p.in_slots.iter().filter_map(slot_loc).collect())
            .unwrap_or_default();
        let r_overlap = reads.iter().any(|l| moved_step.contains(l) && !dj.contains_key(l));
        w_overlap_any |= w_overlap;
        r_overlap_any |= r_overlap;
        let mut cand = sim.clone();
        let applies = se
            .patch
            .as_ref()
            .map(|p| p.apply_to_worldline_state(&mut cand).is_ok())
            .unwrap_or(false);
        let disjoint = !written
            .iter()
            .any(|l| moved_step.contains(*l) || declared.contains(*l));
        let local = se.event_kind == ProvenanceEventKind::LocalCommit;
        if !local {
            r.outcome("settle:suffix-entry-not-a-local-commit(v1-unsupported)");
        }
        if !disjoint && !w_overlap {
            r.outcome("settle:declared-parent-write-without-value-change(obligation-waived)");
        }
        // (iii) must import
        if !blocked && applies && disjoint && local && !is_import {
            cx.viol(
                "settle:clean-disjoint-entry-not-imported",
                path,
                o,
                json!({"index": j, "decision": dec_name(dec), "policy_plural": plural}),
            );
        }
        // imports never follow a retained artifact (the strand's later patches were recorded on
        // top of the retained entry; ConflictReason::PluralUpstream documents the law)
        if blocked && is_import {
            cx.viol(
                "settle:entry-imported-after-retained-artifact",
                path,
                o,
                json!({"index": j, "decisions": names.clone()}),
            );
        }
        // (v) an entry that would change a slot the parent changed is retained, not imported
        let overwrites: Vec<String> = dj
            .iter()
            .filter(|(l, v)| moved_net.contains(*l) && **v != pre_abs.get(*l).cloned())
            .map(|(l, _)| l.short())
            .collect();
        if !overwrites.is_empty() && is_import {
            cx.viol(
                "settle:entry-changing-parent-moved-slot-was-imported",
                path,
                o,
                json!({"index": j, "slots": overwrites}),
            );
        }
        if matches!(dec, SettlementDecision::PluralAlternative(_)) && !plural {
            cx.viol("settle:plural-retained-under-refusing-policy", path, o, json!({"index": j}));
        }
        // replayed target state after this appended entry
        let after = match replay_abs(&post.rt, target, t_new + 1) {
            Ok(x) => x,
            Err(e) => {
                cx.viol(
                    "settle:target-not-replayable-after-settlement",
                    path,
                    o,
                    json!({"tick": t_new, "err": e}),
                );
                return;
            }
        };
        if after.1 != ne.expected.state_root {
            cx.viol("settle:appended-entry-root-differs-from-replay", path, o, json!({"index": j}));
        }
        if is_import {
            n_import += 1;
            // (ii) the parent holds the strand's post-entry value on every slot the entry wrote
            for (l, v) in dj {
                if after.0.get(l).cloned() != *v {
                    cx.viol(
                        "settle:imported-entry-value-not-taken-by-parent",
                        path,
                        o,
                        json!({"index": j, "slot": l.short()}),
                    );
                    break;
                }
            }
            apply_diff(&mut expected, dj);
            if applies {
                sim = cand;
            } else {
                cx.viol("settle:imported-entry-does-not-apply-to-parent", path, o, json!({"index": j}));
            }
        } else {
            if blocked {
                n_blocked += 1;
            }
            blocked = true;
            match dec {
                SettlementDecision::ConflictArtifact(_) => n_conflict += 1,
                _ => n_plural += 1,
            }
        }
        // frame: nothing else changes
        if after.0 != expected {
            let dd: Vec<String> = diff(&expected, &after.0).keys().map(Loc::short).collect();
            cx.viol(
                if is_import {
                    "settle:import-changed-slots-the-entry-did-not-write"
                } else {
                    "settle:retained-artifact-changed-parent-state"
                },
                path,
                o,
                json!({"index": j, "slots": dd}),
            );
            expected = after.0.clone();
        }
    }
    // result lists agree with history, in order
    if res.appended_imports != want_imports
        || res.appended_conflicts != want_conflicts
        || res.appended_plurals != want_plurals
    {
        cx.viol("settle:result-refs-differ-from-appended-history", path, o, json!({}));
    }
    // (i) never-overwrite
    let post_frontier = post.rt.runtime.worldlines().get(&target).map(|f| f.state().clone());
    let Some(post_frontier) = post_frontier else { return };
    let post_abs = abs(&post_frontier);
    for l in &moved_net {
        if post_abs.get(l) != pre_abs.get(l) {
            cx.viol(
                "settle:parent-moved-slot-overwritten",
                path,
                o,
                json!({"slot": l.short(), "before": pre_abs.get(l), "after": post_abs.get(l), "decisions": names.clone()}),
            );
            break;
        }
    }
    // (iv) the parent stays verifiable from its own history
    check_lane(cx, &post.rt, target, "settle", path, o);
    if post_abs != expected {
        cx.viol("settle:frontier-differs-from-replayed-history", path, o, json!({}));
    }
    // parent unmoved and everything imported ⇒ the parent now *is* the strand
    if !parent_moved && n_import == n {
        let strand_root = pre.rt.runtime.worldlines().get(&c).map(|f| f.state().state_root());
        if Some(post_frontier.state_root()) != strand_root {
            cx.viol("settle:full-import-on-unmoved-parent-differs-from-strand", path, o, json!({}));
        }
    }
    // (v') the retained shell describes the finished act
    match res.braid_shell {
        None => cx.viol("settle:non-empty-settlement-retained-no-shell", path, o, json!({})),
        Some(dg) => match post.rt.provenance.braid_shell(&dg) {
            None => cx.viol("settle:reported-shell-not-retained", path, o, json!({})),
            Some(sh) => {
                let ok = match &sh.outcome {
                    BraidShellOutcome::Plural { alternative_ids } => {
                        n_plural > 0 && *alternative_ids == plural_ids
                    }
                    BraidShellOutcome::Conflict { reason_codes } => {
                        n_plural == 0 && n_conflict > 0 && reason_codes.len() as u64 == n_conflict
                    }
                    BraidShellOutcome::Derived { result_refs, .. } => {
                        n_plural == 0 && n_conflict == 0 && *result_refs == res.appended_imports
                    }
                    BraidShellOutcome::Obstruction { .. } => false,
                };
                if !ok {
                    cx.viol(
                        "settle:retained-shell-does-not-describe-the-appended-entries",
                        path,
                        o,
                        json!({"outcome": err_name(&sh.outcome), "decisions": names.clone()}),
                    );
                }
                if sh.worldline_id != target
                    || sh.basis != res.plan.target_base_ref
                    || sh.policy_id != pol.policy_id
                    || sh.members.len() != 1
                {
                    cx.viol("settle:retained-shell-coordinates-wrong", path, o, json!({}));
                }
            }
        },
    }
    let shells_pre = pre.rt.provenance.braid_shells().count();
    let shells_post = post.rt.provenance.braid_shells().count();
    if shells_post > shells_pre + 1 || shells_post < shells_pre {
        cx.viol("settle:shell-count-changed-by-other-than-one", path, o, json!({}));
    }

    // ---- evidence -----------------------------------------------------------------------------
    let movement = if !parent_moved {
        "unmoved"
    } else if w_overlap_any {
        "write-overlap"
    } else if r_overlap_any {
        "read-overlap"
    } else {
        "disjoint"
    };
    r.outcome(&format!("settle:parent-{movement}"));
    r.outcome(&format!(
        "settle:{}:{}",
        if plural { "allow-plural" } else { "default" },
        if n_plural > 0 {
            "plural-retained"
        } else if n_conflict > 0 {
            "conflict-retained"
        } else {
            "all-imported"
        }
    ));
    for nm in &names {
        r.outcome(&format!("decision:{nm}"));
    }
    if n_import > 0 {
        r.counter("settlements_with_import", 1);
    }
    if n_conflict > 0 {
        r.counter("settlements_with_conflict", 1);
    }
    if n_plural > 0 {
        r.counter("settlements_with_plural", 1);
    }
    if n_blocked > 0 {
        r.counter("settlements_with_entry_blocked_behind_retained", 1);
    }
    if n_import > 0 && (n_conflict + n_plural) > 0 {
        r.counter("settlements_import_then_retained", 1);
    }
    if parent_moved && movement == "disjoint" && n_import > 0 {
        r.counter("imports_on_disjointly_moved_parent", 1);
    }
    if movement == "read-overlap" && n_import > 0 {
        r.counter("imports_on_read_overlapping_parent", 1);
    }
    if target != parent() {
        r.counter("settlements_into_strand_lane", 1);
    }
    if pre
        .rt
        .runtime
        .strands()
        .get(&sid(k))
        .map(|s| !s.support_pins().is_empty())
        .unwrap_or(false)
    {
        r.counter("settlements_of_pinned_strand", 1);
    }
    let key = format!("{}|{:?}", cx.cfg.name, cx.full_path(path, o));
    r.nontrivial(key.as_bytes());
    keep_sample(&key, json!({
        "cfg": cx.cfg.name,
        "path": cx.full_path(path, o),
        "policy": if plural {"allow-plural"} else {"default"},
        "parent_movement": movement,
        "decisions": names,
        "parent_moved_slots": moved_net.iter().map(Loc::short).collect::<Vec<_>>(),
    }));
}

fn do_pin(cx: &Ctx, pre: &St, a: u8, b: u8, unpin: bool, path: &[Op], op: &Op) -> Option<St> {
    let r = cx.r;
    let mut rt = pre.rt.clone();
    let tick = pre.len(child(b)).saturating_sub(1);
    let res = if unpin {
        rt.runtime.unpin_support(sid(a), sid(b))
    } else {
        rt.runtime.pin_support(&rt.provenance, sid(a), sid(b), wt(tick))
    };
    match res {
        Err(e) => {
            r.outcome(&format!("pin:error:{}", err_name2(&e)));
            if let Some(part) = residue(pre.parts, &rt) {
                cx.viol(&format!("pin:failed-pin-left-residue:{part}"), path, Some(op), json!({}));
            }
            None
        }
        Ok(pin) => {
            let post = St::of(rt);
            r.outcome(if unpin { "pin:unpinned" } else { "pin:pinned" });
            // pins are read-only support: no lane changes, provenance untouched
            for (x, f0) in &pre.wf {
                if post.wf.get(x) != Some(f0) {
                    cx.viol("isolation:pin-changed-lane", path, Some(op), json!({"lane": wname(*x)}));
                }
            }
            if pre.parts.1 != post.parts.1 {
                cx.viol("isolation:pin-changed-provenance", path, Some(op), json!({}));
            }
            // the pin agrees with provenance
            let want_root = pre
                .rt
                .provenance
                .entry(child(b), wt(tick))
                .map(|e| e.expected.state_root)
                .ok();
            if pin.strand_id != sid(b)
                || pin.worldline_id != child(b)
                || (!unpin && (pin.pinned_tick != wt(tick) || Some(pin.state_hash) != want_root))
            {
                cx.viol("pin:pin-disagrees-with-provenance", path, Some(op), json!({}));
            }
            let has = post
                .rt
                .runtime
                .strands()
                .get(&sid(a))
                .map(|s| s.support_pins().iter().any(|p| p.strand_id == sid(b)))
                .unwrap_or(false);
            if has == unpin {
                cx.viol("pin:registry-not-updated", path, Some(op), json!({}));
            }
            // the pinned target's strand record and fork basis are untouched
            let tb = format!("{:?}", pre.rt.runtime.strands().get(&sid(b)));
            let ta = format!("{:?}", post.rt.runtime.strands().get(&sid(b)));
            if tb != ta {
                cx.viol("pin:changed-support-target-strand", path, Some(op), json!({}));
            }
            Some(post)
        }
    }
}

fn step(cx: &Ctx, pre: &St, op: &Op, path: &[Op]) -> Option<St> {
    cx.r.eval(1);
    match op {
        Op::PTick(i) => do_tick(cx, pre, parent(), &cx.cfg.parent[*i as usize], path, op),
        Op::STick(k, j) => do_tick(cx, pre, child(*k), &cx.cfg.strand_prog(*k, *j), path, op),
        Op::Fork { k, src, t } => do_fork(cx, pre, *k, *src, *t, path, op),
        Op::Settle(k, p) => do_settle(cx, pre, *k, *p, path, op),
        Op::Pin(a, b) => do_pin(cx, pre, *a, *b, false, path, op),
        Op::Unpin(a, b) => do_pin(cx, pre, *a, *b, true, path, op),
    }
}

fn menu(cfg: &Cfg, st: &St) -> Vec<Op> {
    let mut v = Vec::new();
    for i in 0..cfg.parent.len() {
        v.push(Op::PTick(i as u8));
    }
    let live = st.live(cfg);
    let next = (1..=cfg.max_strands).find(|k| !live.contains(k));
    if let Some(k) = next {
        for t in 0..st.len(parent()) {
            v.push(Op::Fork { k, src: 0, t });
        }
        if cfg.nested {
            for s in &live {
                for t in 0..st.len(child(*s)) {
                    v.push(Op::Fork { k, src: *s, t });
                }
            }
        }
    }
    for k in &live {
        for j in 0..cfg.strand.len() {
            v.push(Op::STick(*k, j as u8));
        }
        v.push(Op::Settle(*k, false));
        v.push(Op::Settle(*k, true));
    }
    if cfg.pins {
        for a in &live {
            for b in &live {
                if a == b {
                    continue;
                }
                let pinned = st
                    .rt
                    .runtime
                    .strands()
                    .get(&sid(*a))
                    .map(|s| s.support_pins().iter().any(|p| p.strand_id == sid(*b)))
                    .unwrap_or(false);
                v.push(if pinned { Op::Unpin(*a, *b) } else { Op::Pin(*a, *b) });
            }
        }
    }
    v
}

// ---------------------------------------------------------------------------------------------
// probes (do not change the state)
// ---------------------------------------------------------------------------------------------

fn probes(cx: &Ctx, st: &St, path: &[Op]) {
    let r = cx.r;
    let live = st.live(cx.cfg);
    let mut ndecs: BTreeMap<(u8, bool), usize> = BTreeMap::new();
    // PLAN is pure and deterministic
    for &k in &live {
        for plural in [false, true] {
            let pol = policy(plural);
            let p1 = SettlementService::plan_with_policy(&st.rt.runtime, &st.rt.provenance, sid(k), &pol);
            let p2 = SettlementService::plan_with_policy(&st.rt.runtime, &st.rt.provenance, sid(k), &pol);
            r.eval(2);
            let same = match (&p1, &p2) {
                (Ok(a), Ok(b)) => a == b,
                (Err(a), Err(b)) => format!("{a:?}") == format!("{b:?}"),
                _ => false,
            };
            if !same {
                cx.viol("plan:two-plans-of-the-same-state-differ", path, None, json!({"strand": k, "plural": plural}));
            }
            match &p1 {
                Ok(p) => {
                    ndecs.insert((k, plural), p.decisions.len());
                    r.outcome(&format!("plan:ok:{}-decisions", p.decisions.len().min(3)))
                }
                Err(e) => r.outcome(&format!("plan:error:{}", err_name2(e))),
            }
            if !plural {
                // the default policy is the policy of the policy-less entry points
                let p3 = SettlementService::plan(&st.rt.runtime, &st.rt.provenance, sid(k));
                let same = match (&p1, &p3) {
                    (Ok(a), Ok(b)) => a == b,
                    (Err(a), Err(b)) => format!("{a:?}") == format!("{b:?}"),
                    _ => false,
                };
                if !same {
                    cx.viol("plan:default-policy-plan-differs-from-plan()", path, None, json!({}));
                }
            }
        }
        let _ = SettlementService::compare(&st.rt.runtime, &st.rt.provenance, sid(k));
    }
    if !live.is_empty() && parts(&st.rt) != st.parts {
        cx.viol("plan:planning-changed-the-state", path, None, json!({}));
    }
    // Probes that strike after >=1 appended entry run on every state; the trivial ones (failure
    // before the first append, malformed forks/pins) on states up to `probe_depth`.
    let shallow = path.len() <= cx.cfg.probe_depth;
    let mut inj_rt_hash: [Option<H>; 3] = [None; 3];
    // SETTLE with an injected failure is all-or-nothing
    for &k in &live {
        let Some(sv) = strand_view(&st.rt, k) else { continue };
        for plural in [false, true] {
            let pol = policy(plural);
            for inj in 0..4u8 {
                let nd = ndecs.get(&(k, plural)).copied().unwrap_or(0);
                let effective = (inj == 1 && nd > 1) || (inj == 2 && nd > 2);
                if !(effective || shallow) {
                    continue;
                }
                let mut rt = st.rt.clone();
                let name = match inj {
                    0 => {
                        hooks::coordinator::set_global_tick(&mut rt.runtime, u64::MAX);
                        "global-tick-overflow-at-entry-0"
                    }
                    1 => {
                        hooks::coordinator::set_global_tick(&mut rt.runtime, u64::MAX - 1);
                        "global-tick-overflow-at-entry-1"
                    }
                    2 => {
                        hooks::coordinator::set_global_tick(&mut rt.runtime, u64::MAX - 2);
                        "global-tick-overflow-at-entry-2"
                    }
                    _ => {
                        hooks::coordinator::set_frontier_tick(&mut rt.runtime, &sv.target, u64::MAX);
                        "target-frontier-tick-drift"
                    }
                };
                let before: Parts = if inj < 3 {
                    (
                        *inj_rt_hash[inj as usize].get_or_insert_with(|| dbg_hash(&rt.runtime)),
                        st.parts.1,
                    )
                } else {
                    (dbg_hash(&rt.runtime), st.parts.1)
                };
                let res = SettlementService::settle_with_policy(
                    &mut rt.runtime,
                    &mut rt.provenance,
                    sid(k),
                    &pol,
                );
                r.eval(1);
                match res {
                    Err(e) => {
                        r.outcome(&format!("inject:{name}:{}", err_name2(&e)));
                        match residue(before, &rt) {
                            Some(part) => cx.viol(
                                &format!("settle:failed-settle-left-residue:{part}"),
                                path,
                                None,
                                json!({"inject": name, "strand": k, "plural": plural, "err": format!("{e:?}")}),
                            ),
                            None => {
                                r.counter("injected_failures_rolled_back", 1);
                                if inj == 1 || inj == 2 {
                                    // ≥1 entry had been appended to runtime and provenance
                                    r.counter("injected_failures_after_partial_append_rolled_back", 1);
                                    r.nontrivial(
                                        format!("{}|inj{inj}|{k}|{plural}|{:?}", cx.cfg.name, path_str(path, None))
                                            .as_bytes(),
                                    );
                                }
                            }
                        }
                    }
                    Ok(_) => r.outcome(&format!("inject:{name}:no-failure(suffix-too-short)")),
                }
            }
        }
    }
    if !shallow {
        return;
    }
    // malformed forks fail and leave no residue
    let plen = st.len(parent());
    let fresh = make_strand_id("fresh");
    let fresh_wl = wl(40);
    let fresh_head = WriterHeadKey {
        worldline_id: fresh_wl,
        head_id: make_head_id("fh"),
    };
    let mut bad: Vec<(&str, ForkStrandRequest)> = vec![
        (
            "tick-beyond-tip",
            fork_request(fresh, parent(), plen, fresh_wl, vec![fresh_head]),
        ),
        (
            "child-equals-source",
            fork_request(
                fresh,
                parent(),
                0,
                parent(),
                vec![WriterHeadKey {
                    worldline_id: parent(),
                    head_id: make_head_id("fh"),
                }],
            ),
        ),
        (
            "head-on-source-lane",
            fork_request(
                fresh,
                parent(),
                0,
                fresh_wl,
                vec![WriterHeadKey {
                    worldline_id: parent(),
                    head_id: make_head_id("fh"),
                }],
            ),
        ),
        (
            "source-head-key-reused",
            fork_request(fresh, parent(), 0, fresh_wl, vec![phead()]),
        ),
        (
            "non-default-head-on-source-lane",
            fork_request_nd(
                fresh,
                parent(),
                0,
                fresh_wl,
                vec![WriterHeadKey {
                    worldline_id: parent(),
                    head_id: make_head_id("fh"),
                }],
            ),
        ),
        (
            "two-heads-one-on-source-lane",
            fork_request_nd(
                fresh,
                parent(),
                0,
                fresh_wl,
                vec![
                    fresh_head,
                    WriterHeadKey {
                        worldline_id: parent(),
                        head_id: make_head_id("fh"),
                    },
                ],
            ),
        ),
        ("no-writer-heads", fork_request(fresh, parent(), 0, fresh_wl, vec![])),
        (
            "unknown-source-lane",
            fork_request(fresh, wl(99), 0, fresh_wl, vec![fresh_head]),
        ),
    ];
    if let Some(&k) = live.first() {
        bad.push((
            "strand-id-taken",
            fork_request(sid(k), parent(), 0, fresh_wl, vec![fresh_head]),
        ));
        bad.push((
            "child-lane-taken",
            fork_request(fresh, parent(), 0, child(k), vec![shead(k)]),
        ));
        bad.push((
            "non-default-head-on-other-strand-lane",
            fork_request_nd(
                fresh,
                parent(),
                0,
                fresh_wl,
                vec![WriterHeadKey {
                    worldline_id: child(k),
                    head_id: make_head_id("fh"),
                }],
            ),
        ));
        bad.push((
            "head-on-other-strand-lane",
            fork_request(
                fresh,
                parent(),
                0,
                fresh_wl,
                vec![WriterHeadKey {
                    worldline_id: child(k),
                    head_id: make_head_id("fh"),
                }],
            ),
        ));
    }
    for (name, req) in bad {
        let mut rt = st.rt.clone();
        r.eval(1);
        match rt.runtime.fork_strand(&mut rt.provenance, req) {
            Ok(_) => cx.viol(&format!("fork:malformed-fork-accepted:{name}"), path, None, json!({})),
            Err(e) => {
                r.outcome(&format!("fork-probe:{name}:{}", err_name2(&e)));
                match residue(st.parts, &rt) {
                    Some(part) => cx.viol(
                        &format!("fork:failed-fork-left-residue:{part}"),
                        path,
                        None,
                        json!({"probe": name, "err": format!("{e:?}")}),
                    ),
                    None => r.counter("failed_forks_rolled_back", 1),
                }
            }
        }
    }
    // malformed pins
    if cx.cfg.pins && live.len() >= 2 {
        let (a, b) = (live[0], live[1]);
        let cases: Vec<(&str, StrandId, StrandId, u64)> = vec![
            ("self-pin", sid(a), sid(a), 0),
            ("tick-unavailable", sid(a), sid(b), st.len(child(b)) + 3),
            ("unknown-target", sid(a), make_strand_id("nope"), 0),
        ];
        for (name, x, y, t) in cases {
            let mut rt = st.rt.clone();
            match rt.runtime.pin_support(&rt.provenance, x, y, wt(t)) {
                Ok(_) => cx.viol(&format!("pin:malformed-pin-accepted:{name}"), path, None, json!({})),
                Err(e) => {
                    r.outcome(&format!("pin-probe:{name}:{}", err_name2(&e)));
                    if residue(st.parts, &rt).is_some() {
                        cx.viol("pin:failed-pin-left-residue", path, None, json!({"probe": name}));
                    }
                }
            }
        }
    }
}

// ---------------------------------------------------------------------------------------------
// driver
// ---------------------------------------------------------------------------------------------

/// Samples are chosen deterministically (the 8 smallest keys), not by thread arrival order.
static SAMPLES: std::sync::Mutex<BTreeMap<String, Value>> = std::sync::Mutex::new(BTreeMap::new());
fn keep_sample(key: &str, v: Value) {
    let mut g = SAMPLES.lock().unwrap_or_else(|e| e.into_inner());
    // prefer long paths with mixed decisions: key them by (inverse length, text)
    let k = format!("{:04}|{key}", 9999usize.saturating_sub(key.len()));
    g.insert(k, v);
    while g.len() > 8 {
        let last = g.keys().next_back().cloned();
        if let Some(l) = last {
            g.remove(&l);
        }
    }
}

fn run_cfg(r: &Report, cfg: &Cfg, budget_frac: f64) {
    let cx = Ctx { r, cfg, replaying: false };
    let root = match root_state() {
        Ok(s) => s,
        Err(e) => {
            r.machinery_error(&e);
            return;
        }
    };
    let root = {
        let pcx = Ctx { r, cfg, replaying: true };
        let mut st = root;
        let mut done: Vec<Op> = Vec::new();
        for op in &cfg.prefix {
            match step(&pcx, &st, op, &done) {
                Some(n) => st = n,
                None => {
                    r.machinery_error(&format!("cfg {}: prefix op {} did not apply", cfg.name, op.enc()));
                    return;
                }
            }
            done.push(op.clone());
        }
        st
    };
    let t0 = std::time::Instant::now();
    let depth = cfg.depth;
    let stats = mc::bfs::bfs(
        Sh::new(root),
        depth + 1,
        |s: &Sh| s.with(|s| s.fp.to_vec()),
        |s: &Sh, path: &[Op]| {
            s.with(|s| {
                probes(&cx, s, path);
                if path.len() >= depth {
                    Vec::new()
                } else if cfg.last_level_settle_fork_only && path.len() + 1 == depth {
                    menu(cfg, s)
                        .into_iter()
                        .filter(|o| matches!(o, Op::Settle(..) | Op::Fork { .. }))
                        .collect()
                } else {
                    menu(cfg, s)
                }
            })
        },
        |s: &Sh, op: &Op, path: &[Op]| s.with(|s| step(&cx, s, op, path)).map(Sh::new),
        |_s: &Sh, _p: &[Op]| {},
        || r.over_budget_frac(budget_frac),
    );
    r.add_states(stats.states);
    r.add_transitions(stats.transitions);
    r.add_traces(stats.paths);
    if stats.capped {
        r.cap_hit(&format!(
            "cfg {}: wall cap during BFS (states per depth so far {:?}, target depth {})",
            cfg.name, stats.per_depth, depth
        ));
    }
    r.note(
        &format!("bfs_{}", cfg.name),
        json!({
            "depth": depth, "states": stats.states, "transitions": stats.transitions,
            "per_depth": stats.per_depth, "capped": stats.capped,
            "wall_s": t0.elapsed().as_secs_f64(),
            "parent_intents": cfg.parent.len(), "strand_intents": cfg.strand.len(),
            "max_strands": cfg.max_strands, "pins": cfg.pins, "nested": cfg.nested,
        }),
    );
    println!(
        "[C15] cfg {:<10} depth {} states {} transitions {} per-depth {:?} {:.1}s{}",
        cfg.name,
        depth,
        stats.states,
        stats.transitions,
        stats.per_depth,
        t0.elapsed().as_secs_f64(),
        if stats.capped { " CAPPED" } else { "" }
    );
}

/// Forking a lane that has no history yet must fail cleanly (there is no tick to anchor on).
fn empty_parent_probe(r: &Report, cfg: &Cfg) {
    let cx = Ctx { r, cfg, replaying: false };
    let rt0 = empty_rt();
    let mut rt = rt0.clone();
    r.eval(1);
    match rt
        .runtime
        .fork_strand(&mut rt.provenance, fork_request(sid(1), parent(), 0, child(1), vec![shead(1)]))
    {
        Ok(_) => cx.viol("fork:fork-of-empty-lane-accepted", &[], None, json!({})),
        Err(e) => {
            r.outcome(&format!("fork-probe:empty-lane:{}", err_name2(&e)));
            if residue(parts(&rt0), &rt).is_some() {
                cx.viol("fork:failed-fork-left-residue:empty-lane", &[], None, json!({}));
            } else {
                r.counter("failed_forks_rolled_back", 1);
            }
        }
    }
}

fn configs(r: &Report) -> Vec<Cfg> {
    let quick = r.quick();
    let mut v = vec![Cfg {
        name: "slots",
        parent: slots_parent(),
        strand: slots_strand(),
        strand2: None,
        max_strands: 1,
        pins: false,
        nested: false,
        depth: if quick { 5 } else { 7 },
        probe_depth: if quick { 3 } else { 6 },
        prefix: vec![],
        last_level_settle_fork_only: quick,
    }];
    v.push(Cfg {
        name: "structure",
        parent: struct_parent(),
        strand: struct_strand(),
        strand2: None,
        max_strands: 1,
        pins: false,
        nested: false,
        depth: if quick { 4 } else { 6 },
        probe_depth: if quick { 3 } else { 4 },
        prefix: vec![],
        last_level_settle_fork_only: true,
    });
    v.push(Cfg {
        name: "two-strands",
        parent: slots_parent()[..2].to_vec(),
        strand: slots_strand()[..2].to_vec(),
        strand2: Some(slots_strand_b()),
        max_strands: 2,
        pins: true,
        nested: false,
        depth: if quick { 4 } else { 6 },
        probe_depth: if quick { 2 } else { 4 },
        prefix: vec![Op::Fork { k: 1, src: 0, t: 0 }],
        last_level_settle_fork_only: quick,
    });
    // sibling strands forked from the same parent tick, writing the SAME slots with different
    // values, settled one after the other: the first settlement moves the parent through a
    // MergeImport entry, which the second settlement must see as parent movement
    v.push(Cfg {
        name: "siblings",
        parent: slots_parent()[..1].to_vec(),
        strand: slots_strand()[..2].to_vec(),
        strand2: Some(slots_strand_b()),
        max_strands: 2,
        pins: false,
        nested: false,
        depth: if quick { 4 } else { 6 },
        probe_depth: 2,
        prefix: vec![Op::Fork { k: 1, src: 0, t: 0 }, Op::Fork { k: 2, src: 0, t: 0 }],
        last_level_settle_fork_only: true,
    });
    // one strand entry that overlaps the moved parent on TWO slots with a mixed outcome (X gets the
    // value the parent already holds, Y a different one), next to single-slot entries
    v.push(Cfg {
        name: "mixed-overlap",
        parent: slots_parent()[..2].to_vec(),
        strand: mixed_strand(),
        strand2: None,
        max_strands: 1,
        pins: false,
        nested: false,
        depth: if quick { 4 } else { 6 },
        probe_depth: 2,
        prefix: vec![Op::Fork { k: 1, src: 0, t: 0 }],
        last_level_settle_fork_only: true,
    });
    if !quick {
        v.push(Cfg {
            name: "nested",
            parent: slots_parent()[..2].to_vec(),
            strand: slots_strand()[..2].to_vec(),
            strand2: None,
            max_strands: 2,
            pins: false,
            nested: true,
            depth: 5,
            probe_depth: 4,
            prefix: vec![],
        last_level_settle_fork_only: quick,
        });
    }
    v
}

fn replay(r: &Report, file: &std::path::Path) {
    let txt = match std::fs::read_to_string(file) {
        Ok(t) => t,
        Err(e) => {
            r.machinery_error(&format!("cannot read replay file: {e}"));
            return;
        }
    };
    let v: Value = match serde_json::from_str(&txt) {
        Ok(v) => v,
        Err(e) => {
            r.machinery_error(&format!("replay file is not JSON: {e}"));
            return;
        }
    };
    // accept the detail object itself or a wrapper holding it
    let case = [
        v.pointer("/case"),
        v.pointer("/detail/case"),
        v.pointer("/violation/detail/case"),
    ]
    .into_iter()
    .flatten()
    .next()
    .cloned();
    let Some(case) = case else {
        r.machinery_error("replay file has no `case`");
        return;
    };
    let name = case.get("cfg").and_then(Value::as_str).unwrap_or("slots").to_string();
    let mut all = configs(r);
    // replay must not depend on the tier: make every configuration maximally permissive
    for c in &mut all {
        c.depth = 64;
        c.probe_depth = 64;
    }
    let Some(cfg) = all.into_iter().find(|c| c.name == name).or_else(|| {
        Some(Cfg {
            name: "nested",
            parent: slots_parent()[..2].to_vec(),
            strand: slots_strand()[..2].to_vec(),
            strand2: None,
            max_strands: 2,
            pins: false,
            nested: true,
            depth: 64,
            probe_depth: 64,
            prefix: vec![],
            last_level_settle_fork_only: false,
        })
    }) else {
        return;
    };
    let ops: Vec<Op> = case
        .get("path")
        .and_then(Value::as_array)
        .map(|a| a.iter().filter_map(|x| x.as_str().and_then(Op::dec)).collect())
        .unwrap_or_default();
    let cx = Ctx { r, cfg: &cfg, replaying: true };
    let mut st = match root_state() {
        Ok(s) => s,
        Err(e) => {
            r.machinery_error(&e);
            return;
        }
    };
    let mut path: Vec<Op> = Vec::new();
    probes(&cx, &st, &path);
    for op in ops {
        let before = r.violation_count();
        let nxt = step(&cx, &st, &op, &path);
        println!(
            "[C15 replay] {:<8} -> {} (violations so far {})",
            op.enc(),
            if nxt.is_some() { "new state" } else { "no state change / pruned" },
            r.violation_count()
        );
        let _ = before;
        path.push(op);
        if let Some(n) = nxt {
            st = n;
            r.add_states(1);
        }
        r.add_transitions(1);
        probes(&cx, &st, &path);
    }
    r.add_states(1);
    r.add_traces(1);
    r.nontrivial(b"replay");
    r.nontrivial(b"replay2");
    r.sample(json!({"replayed": path_str(&path, None), "cfg": cfg.name}));
}

fn main() {
    let r = Report::new("C15", Level::ModelChecking);
    r.rule(
        "explicit-state BFS (canonical key = hash of the Debug fingerprint of runtime+provenance) over \
         {parent tick(p_i), fork of the next strand at every tick of the parent (nested cfg: also of a \
         live strand lane), strand tick(s_j), settle(default|allow-plural), pin/unpin} from a root whose \
         parent has one committed tick; every state is probed with plan×2, 4 injected settlement \
         failures per strand and policy, and 6-9 malformed forks. A case is distinct by \
         (configuration, operation path); non-trivial = a settlement with ≥1 decision or an injected \
         failure that struck after ≥1 appended entry",
    );
    r.assume(
        "the abstract view reads node/edge/attachment/instance records through GraphStore iterators; \
         replay_worldline_state_at is used to obtain historical states (cross-checked against frontiers \
         and recorded state roots at every step)",
    );
    r.assume(
        "must-import is waived for suffix entries writing a slot that a parent entry after the fork \
         coordinate *declares* written even if its value did not change, and for non-LocalCommit \
         suffix entries (documented v1 limitation UnsupportedImport)",
    );
    r.assume("fresh Engine per tick (engine configuration is constant); SchedulerKind::Radix, 1 worker");
    if let Some(p) = r.replay.clone() {
        replay(&r, &p);
        r.finish();
    }
    let cfgs = configs(&r);
    empty_parent_probe(&r, &cfgs[0]);
    // Configurations are independent searches: run them side by side (each BFS level is itself
    // expanded in parallel; all counters are order-independent sums).
    {
        use rayon::prelude::*;
        let frac = if r.quick() { 0.5 } else { 0.45 };
        cfgs.par_iter().for_each(|cfg| run_cfg(&r, cfg, frac));
    }
    for (_, v) in std::mem::take(&mut *SAMPLES.lock().unwrap_or_else(|e| e.into_inner())) {
        r.sample(v);
    }
    // vacuity guards
    let c = |n: &str| r.counter_value(n);
    let o = |n: &str| r.outcome_count(n);
    r.guard("settlement_with_imported_entry", c("settlements_with_import") > 0);
    r.guard("settlement_with_conflict_retained", c("settlements_with_conflict") > 0);
    r.guard("settlement_with_plural_retained_under_allow_plural", c("settlements_with_plural") > 0);
    r.guard("entry_blocked_behind_retained_artifact", c("settlements_with_entry_blocked_behind_retained") > 0);
    r.guard("import_followed_by_retained_in_one_settlement", c("settlements_import_then_retained") > 0);
    r.guard("fork_at_tick_0", o("fork:at-tick-0") > 0);
    r.guard("fork_at_tick_ge_1", o("fork:at-tick>=1") > 0);
    r.guard("fork_at_past_tick", o("fork:at-past-tick(not-the-tip)") > 0);
    r.guard("parent_unmoved_settlement", o("settle:parent-unmoved") > 0);
    r.guard("parent_moved_disjoint_settlement_with_import", c("imports_on_disjointly_moved_parent") > 0);
    r.guard("parent_moved_read_overlap_settlement_with_import", c("imports_on_read_overlapping_parent") > 0);
    r.guard("parent_moved_write_overlap_settlement", o("settle:parent-write-overlap") > 0);
    r.guard("injected_failure_rolled_back", c("injected_failures_rolled_back") > 0);
    r.guard(
        "injected_failure_after_partial_append_rolled_back",
        c("injected_failures_after_partial_append_rolled_back") > 0,
    );
    r.guard("failed_fork_rolled_back", c("failed_forks_rolled_back") > 0);
    r.guard("parent_and_strand_ticks_seen", o("tick:parent") > 0 && o("tick:strand") > 0);
    r.guard("second_strand_and_pins_seen", o("pin:pinned") > 0 && o("pin:unpinned") > 0);
    r.guard("settlement_of_pinned_strand", c("settlements_of_pinned_strand") > 0);
    if r.thorough() {
        r.guard("nested_fork_seen", o("fork:nested(from-strand-lane)") > 0);
        r.guard("settlement_into_strand_lane", c("settlements_into_strand_lane") > 0);
    }
    r.finish();
}
