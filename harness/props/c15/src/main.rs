//! probe
use rules::fixture::{self, wl, Rt};
use rules::{Program, Step};
use warp_core::*;

fn posture() -> RetentionPosture {
    let origin_id = OriginId::from_bytes([0x51; 32]);
    let authority = AuthorityDomainRef::new(origin_id, AuthorityDomainId::from_bytes([0x52; 32]));
    RetentionPosture::new(
        CausalPosture::Shared,
        PostureDerivation::ExplicitIntent,
        CausalAuthority::new(
            origin_id,
            ActorId::from_bytes([0x53; 32]),
            authority,
            AuthorityBinding::LocalUnbound { origin: origin_id },
            SealStrength::Advisory,
        )
        .unwrap(),
        RetentionContractId::from_bytes([0x54; 32]),
        Some(AdmissionScopeId::from_bytes([0x55; 32])),
    )
    .unwrap()
}

fn main() {
    let mut rt = Rt::new(1, 1);
    let px = Program::new(vec![Step::SetNodeAtt { n: 1, v: 1 }]);
    let py = Program::new(vec![Step::SetNodeAtt { n: 2, v: 1 }]);
    let sx = Program::new(vec![Step::SetNodeAtt { n: 1, v: 2 }]);
    let rx = Program::new(vec![Step::CopyNodeAtt { from: 1, to: 0 }]);
    println!("{:?}", rt.runtime.ingest(fixture::intent_default(wl(1), &py)));
    let recs = rt.super_tick(SchedulerKind::Radix).unwrap();
    println!("steps {:?}", recs.len());
    let e = rt.provenance.entry(wl(1), WorldlineTick::from_raw(0)).unwrap();
    show("entry0", &e);
    let child = wl(9);
    let hk = WriterHeadKey { worldline_id: child, head_id: make_head_id("s0") };
    let rec = rt.runtime.fork_strand(
        &mut rt.provenance,
        ForkStrandRequest {
            strand_id: make_strand_id("s1"),
            source_lane_id: wl(1),
            fork_tick: WorldlineTick::from_raw(0),
            child_worldline_id: child,
            writer_heads: vec![WriterHead::with_routing(hk, PlaybackMode::Play, InboxPolicy::AcceptAll, None, true)],
            retention_posture: posture(),
        },
    );
    println!("fork {:?}", rec);
    println!("{:?}", rt.runtime.ingest(fixture::intent_default(child, &sx)));
    println!("dup? {:?}", rt.runtime.ingest(fixture::intent_default(child, &py)));
    let recs = rt.super_tick(SchedulerKind::Radix).unwrap();
    println!("steps {:?}", recs.len());
    println!("{:?}", rt.runtime.ingest(fixture::intent_default(child, &rx)));
    rt.super_tick(SchedulerKind::Radix).unwrap();
    println!("{:?}", rt.runtime.ingest(fixture::intent_default(wl(1), &px)));
    rt.super_tick(SchedulerKind::Radix).unwrap();
    let e = rt.provenance.entry(child, WorldlineTick::from_raw(2)).unwrap();
    show("child2", &e); for t in 0..rt.provenance.len(wl(1)).unwrap() { show("parent", &rt.provenance.entry(wl(1), WorldlineTick::from_raw(t)).unwrap()); }
    let plan = SettlementService::plan(&rt.runtime, &rt.provenance, make_strand_id("s1"));
    println!("plan {}", short(&format!("{:?}", plan.as_ref().map(|p| &p.decisions))));println!("report {}", short(&format!("{:?}", plan.as_ref().map(|p| &p.basis_report))));
    let res = SettlementService::settle(&mut rt.runtime, &mut rt.provenance, make_strand_id("s1"));
    println!("settle {}", short(&format!("{:?}", res.map(|r| (r.appended_imports, r.appended_conflicts, r.appended_plurals, r.braid_shell)))));for t in 0..rt.provenance.len(wl(1)).unwrap() { show("parent", &rt.provenance.entry(wl(1), WorldlineTick::from_raw(t)).unwrap()); }
    println!("fp len {}", rt.fingerprint().len());
}

fn short(s: &str) -> String {
    // collapse [a, b, c, ... 32 numbers] into hex prefix
    let mut out = String::new();
    let b = s.as_bytes();
    let mut i = 0;
    while i < b.len() {
        if b[i] == b'[' {
            if let Some(j) = s[i..].find(']') {
                let inner = &s[i + 1..i + j];
                let parts: Vec<&str> = inner.split(", ").collect();
                if parts.len() == 32 && parts.iter().all(|p| p.parse::<u8>().is_ok()) {
                    out.push_str(&format!("#{:02x}{:02x}{:02x}", parts[0].parse::<u8>().unwrap(), parts[1].parse::<u8>().unwrap(), parts[2].parse::<u8>().unwrap()));
                    i += j + 1;
                    continue;
                }
            }
        }
        out.push(b[i] as char);
        i += 1;
    }
    out
}
fn show(tag: &str, e: &ProvenanceEntry) {
    let p = e.patch.as_ref().unwrap();
    println!("{tag} tick={:?} gt={:?} kind={} head={} parents={}", e.worldline_tick, e.commit_global_tick, short(&format!("{:?}", e.event_kind)), short(&format!("{:?}", e.head_key)), short(&format!("{:?}", e.parents)));
    println!("   ops={}", short(&format!("{:?}", p.ops)));
    println!("   in={}", short(&format!("{:?}", p.in_slots)));
    println!("   out={}", short(&format!("{:?}", p.out_slots)));
    println!("   outputs={} atom_writes={}", short(&format!("{:?}", e.outputs)), short(&format!("{:?}", e.atom_writes)));
}
