//! Round-trip + writer-determinism codecs (no canonical-form claim): materialization frames v1/v2,
//! scene CBOR, WSC columnar snapshots.

use crate::warp::dg;
use crate::{mk, Codec, SampleT};
use echo_scene_codec as sc;
use echo_scene_port as sp;
use warp_core::materialization::{
    decode_frames, decode_v2_packets, encode_frames, encode_v2_packet, make_channel_id, MaterializationFrame, V2Entry, V2Packet, V2PacketHeader,
};
use warp_core::wsc::types::{AttRow, EdgeRow, NodeRow, OutEdgeRef, Range};
use warp_core::wsc::{validate_wsc, write_wsc_one_warp, OneWarpInput, WscFile};
use warp_core::{make_warp_id, Hash};

fn s_frames_v1(thorough: bool) -> Vec<SampleT<Vec<MaterializationFrame>>> {
    let c1 = make_channel_id("verif:a");
    let c2 = make_channel_id("verif:b");
    let mut v = vec![
        SampleT::new("no-frames", vec![]),
        SampleT::new("one-empty", vec![MaterializationFrame::new(c1, vec![])]),
        SampleT::new("one-1", vec![MaterializationFrame::new(c1, vec![7])]),
        SampleT::new("two", vec![MaterializationFrame::new(c1, vec![1, 2]), MaterializationFrame::new(c2, vec![3; 255])]),
        SampleT::new("three", vec![MaterializationFrame::new(c2, vec![]), MaterializationFrame::new(c1, vec![9; 256]), MaterializationFrame::new(c2, vec![1])]),
    ];
    if thorough {
        v.push(SampleT::new("64k", vec![MaterializationFrame::new(c1, vec![5; 65536])]));
    }
    v
}

fn v2_header(tick: u64) -> V2PacketHeader {
    V2PacketHeader { session_id: dg("session"), cursor_id: dg("cursor"), worldline_id: dg("worldline"), warp_id: make_warp_id("w"), tick, commit_hash: dg("commit") }
}
fn v2_entry(label: &str, value: Vec<u8>) -> V2Entry {
    V2Entry { channel: make_channel_id(label), value_hash: warp_core::materialization::compute_value_hash(&value), value }
}
fn s_frames_v2(_: bool) -> Vec<SampleT<Vec<V2Packet>>> {
    vec![
        SampleT::new("no-packets", vec![]),
        SampleT::new("empty-packet", vec![V2Packet::new(v2_header(0), vec![])]),
        SampleT::new("one-entry", vec![V2Packet::new(v2_header(1), vec![v2_entry("a", vec![])])]),
        SampleT::new("two-entries", vec![V2Packet::new(v2_header(u64::MAX), vec![v2_entry("a", vec![1]), v2_entry("b", vec![2; 256])])]),
        SampleT::new("two-packets", vec![V2Packet::new(v2_header(1), vec![v2_entry("a", vec![1, 2])]), V2Packet::new(v2_header(2), vec![])]),
    ]
}
fn enc_v2(v: &Vec<V2Packet>) -> Result<Vec<u8>, String> {
    let mut out = Vec::new();
    for p in v {
        out.extend(encode_v2_packet(&p.header, &p.entries).map_err(|e| format!("{e:?}"))?);
    }
    Ok(out)
}

fn key(x: u8) -> sp::Hash {
    [x; 32]
}
fn s_scene_delta(_: bool) -> Vec<SampleT<sp::SceneDelta>> {
    let node = sp::NodeDef { key: sp::NodeKey(key(1)), position: [0.0, 1.5, -2.25], radius: 0.5, shape: sp::NodeShape::Cube, color: [1, 2, 3, 4] };
    let edge = sp::EdgeDef { key: sp::EdgeKey(key(2)), a: sp::NodeKey(key(1)), b: sp::NodeKey(key(3)), width: 0.1, style: sp::EdgeStyle::Dashed, color: [0; 4] };
    let label_n = sp::LabelDef { key: sp::LabelKey(key(4)), text: "é".into(), font_size: 12.0, color: [255; 4], anchor: sp::LabelAnchor::Node { key: sp::NodeKey(key(1)) }, offset: [0.0; 3] };
    let label_w = sp::LabelDef { key: sp::LabelKey(key(5)), text: String::new(), font_size: 1.0e-3, color: [9; 4], anchor: sp::LabelAnchor::World { position: [1.0, 2.0, 3.0] }, offset: [0.5, 0.0, -0.5] };
    let all_ops = vec![
        sp::SceneOp::UpsertNode(node),
        sp::SceneOp::RemoveNode { key: sp::NodeKey(key(1)) },
        sp::SceneOp::UpsertEdge(edge),
        sp::SceneOp::RemoveEdge { key: sp::EdgeKey(key(2)) },
        sp::SceneOp::UpsertLabel(label_n),
        sp::SceneOp::UpsertLabel(label_w),
        sp::SceneOp::RemoveLabel { key: sp::LabelKey(key(4)) },
        sp::SceneOp::Clear,
    ];
    let mut v = vec![SampleT::new("no-ops", sp::SceneDelta { session_id: key(7), cursor_id: key(8), epoch: 0, ops: vec![] })];
    for (i, op) in all_ops.iter().enumerate() {
        v.push(SampleT::new(format!("op{i}"), sp::SceneDelta { session_id: key(7), cursor_id: key(8), epoch: 1 << 40, ops: vec![op.clone()] }));
    }
    v.push(SampleT::new("all-ops", sp::SceneDelta { session_id: key(7), cursor_id: key(8), epoch: u64::MAX, ops: all_ops }));
    v
}
fn s_camera(_: bool) -> Vec<SampleT<sp::CameraState>> {
    let mut o = sp::CameraState::default();
    o.projection = sp::ProjectionKind::Orthographic;
    o.near = f32::MIN_POSITIVE;
    o.far = f32::MAX;
    vec![SampleT::new("default", sp::CameraState::default()), SampleT::new("ortho", o)]
}
fn s_highlight(_: bool) -> Vec<SampleT<sp::HighlightState>> {
    vec![
        SampleT::new("default", sp::HighlightState::default()),
        SampleT::new(
            "full",
            sp::HighlightState {
                selected_nodes: vec![sp::NodeKey(key(1)), sp::NodeKey(key(2))],
                selected_edges: vec![sp::EdgeKey(key(3))],
                hovered_node: Some(sp::NodeKey(key(4))),
                hovered_edge: Some(sp::EdgeKey(key(5))),
            },
        ),
    ]
}

/// Owned image of a one-warp WSC file, rebuilt from the zero-copy view.
#[derive(Debug, Clone)]
pub struct WscImage {
    pub schema_hash: Hash,
    pub tick: u64,
    pub input: OneWarpInput,
}

fn range(start: u64, len: u64) -> Range {
    Range { start_le: start.to_le(), len_le: len.to_le() }
}

pub fn wsc_decode(b: &[u8]) -> Result<WscImage, String> {
    let f = WscFile::from_bytes(b.to_vec()).map_err(|e| crate::err_kind(&e))?;
    validate_wsc(&f).map_err(|e| crate::err_kind(&e))?;
    if f.warp_count() != 1 {
        return Err(format!("WarpCount{}", f.warp_count()));
    }
    let v = f.warp_view(0).map_err(|e| crate::err_kind(&e))?;
    let nodes: Vec<NodeRow> = v.nodes().to_vec();
    let edges: Vec<EdgeRow> = v.edges().to_vec();
    let mut out_index = Vec::new();
    let mut out_edges: Vec<OutEdgeRef> = Vec::new();
    let mut node_atts_index = Vec::new();
    let mut node_atts: Vec<AttRow> = Vec::new();
    for i in 0..nodes.len() {
        let oe = v.out_edges_for_node(i);
        out_index.push(range(out_edges.len() as u64, oe.len() as u64));
        out_edges.extend_from_slice(oe);
        let na = v.node_attachments(i);
        node_atts_index.push(range(node_atts.len() as u64, na.len() as u64));
        node_atts.extend_from_slice(na);
    }
    let mut edge_atts_index = Vec::new();
    let mut edge_atts: Vec<AttRow> = Vec::new();
    for i in 0..edges.len() {
        let ea = v.edge_attachments(i);
        edge_atts_index.push(range(edge_atts.len() as u64, ea.len() as u64));
        edge_atts.extend_from_slice(ea);
    }
    Ok(WscImage {
        schema_hash: *f.schema_hash(),
        tick: f.tick(),
        input: OneWarpInput {
            warp_id: *v.warp_id(),
            root_node_id: *v.root_node_id(),
            nodes,
            edges,
            out_index,
            out_edges,
            node_atts_index,
            node_atts,
            edge_atts_index,
            edge_atts,
            blobs: v.blobs().to_vec(),
        },
    })
}

pub fn wsc_encode(v: &WscImage) -> Result<Vec<u8>, String> {
    write_wsc_one_warp(&v.input, v.schema_hash, v.tick).map_err(|e| format!("{:?}", e.kind()))
}

fn atom(off: u64, len: u64) -> AttRow {
    AttRow { tag: AttRow::TAG_ATOM, reserved0: [0; 7], type_or_warp: dg("atom-type"), blob_off_le: off.to_le(), blob_len_le: len.to_le() }
}
fn descend() -> AttRow {
    AttRow { tag: AttRow::TAG_DESCEND, reserved0: [0; 7], type_or_warp: dg("child-warp"), blob_off_le: 0, blob_len_le: 0 }
}

pub fn wsc_samples(_: bool) -> Vec<SampleT<WscImage>> {
    let n = |x: u8| {
        let mut h = [0u8; 32];
        h[0] = x;
        h
    };
    let empty = OneWarpInput {
        warp_id: dg("warp"),
        root_node_id: [0; 32],
        nodes: vec![],
        edges: vec![],
        out_index: vec![],
        out_edges: vec![],
        node_atts_index: vec![],
        node_atts: vec![],
        edge_atts_index: vec![],
        edge_atts: vec![],
        blobs: vec![],
    };
    let one = OneWarpInput {
        warp_id: dg("warp"),
        root_node_id: n(1),
        nodes: vec![NodeRow { node_id: n(1), node_type: dg("t") }],
        edges: vec![],
        out_index: vec![range(0, 0)],
        out_edges: vec![],
        node_atts_index: vec![range(0, 0)],
        node_atts: vec![],
        edge_atts_index: vec![],
        edge_atts: vec![],
        blobs: vec![],
    };
    let full = OneWarpInput {
        warp_id: dg("warp"),
        root_node_id: n(1),
        nodes: vec![NodeRow { node_id: n(1), node_type: dg("t") }, NodeRow { node_id: n(2), node_type: dg("t2") }],
        edges: vec![
            EdgeRow { edge_id: n(10), from_node_id: n(1), to_node_id: n(2), edge_type: dg("e") },
            EdgeRow { edge_id: n(11), from_node_id: n(2), to_node_id: n(1), edge_type: dg("e") },
        ],
        out_index: vec![range(0, 1), range(1, 1)],
        out_edges: vec![OutEdgeRef { edge_ix_le: 0u64.to_le(), edge_id: n(10) }, OutEdgeRef { edge_ix_le: 1u64.to_le(), edge_id: n(11) }],
        node_atts_index: vec![range(0, 2), range(2, 0)],
        node_atts: vec![atom(0, 5), descend()],
        edge_atts_index: vec![range(0, 0), range(0, 1)],
        edge_atts: vec![atom(8, 3)],
        blobs: vec![b'h', b'e', b'l', b'l', b'o', 0, 0, 0, 1, 2, 3],
    };
    vec![
        SampleT::new("empty", WscImage { schema_hash: dg("schema"), tick: 0, input: empty }),
        SampleT::new("one-node", WscImage { schema_hash: dg("schema"), tick: 1, input: one }),
        SampleT::new("two-nodes-two-edges-atts", WscImage { schema_hash: dg("schema"), tick: u64::MAX, input: full }),
    ]
}

pub fn codecs() -> Vec<Codec> {
    vec![
        mk(
            "materialization-frames-v1",
            "mbus-frame",
            false,
            0,
            "crates/warp-core/src/materialization/frame.rs: encode_frames/decode_frames",
            |b: &[u8]| decode_frames(b).ok_or("Malformed"),
            |v: &Vec<MaterializationFrame>, _h: &[u8]| Ok(encode_frames(v)),
            s_frames_v1,
        ),
        mk(
            "materialization-frames-v2",
            "mbus-frame",
            false,
            0,
            "crates/warp-core/src/materialization/frame_v2.rs: encode_v2_packet/decode_v2_packets",
            |b: &[u8]| decode_v2_packets(b),
            |v: &Vec<V2Packet>, _h: &[u8]| enc_v2(v),
            s_frames_v2,
        ),
        mk(
            "scene-cbor:SceneDelta",
            "scene-cbor",
            false,
            70,
            "crates/echo-scene-codec/src/cbor.rs: encode_scene_delta/decode_scene_delta",
            |b: &[u8]| sc::decode_scene_delta(b).map_err(|e| e.to_string().chars().take(24).collect::<String>()),
            |v: &sp::SceneDelta, _h: &[u8]| Ok(sc::encode_scene_delta(v)),
            s_scene_delta,
        ),
        mk(
            "scene-cbor:CameraState",
            "scene-cbor",
            false,
            40,
            "crates/echo-scene-codec/src/cbor.rs: encode_camera_state/decode_camera_state",
            |b: &[u8]| sc::decode_camera_state(b).map_err(|e| e.to_string().chars().take(24).collect::<String>()),
            |v: &sp::CameraState, _h: &[u8]| Ok(sc::encode_camera_state(v)),
            s_camera,
        ),
        mk(
            "scene-cbor:HighlightState",
            "scene-cbor",
            false,
            6,
            "crates/echo-scene-codec/src/cbor.rs: encode_highlight_state/decode_highlight_state",
            |b: &[u8]| sc::decode_highlight_state(b).map_err(|e| e.to_string().chars().take(24).collect::<String>()),
            |v: &sp::HighlightState, _h: &[u8]| Ok(sc::encode_highlight_state(v)),
            s_highlight,
        ),
        mk(
            "wsc-one-warp",
            "wsc",
            false,
            312,
            "crates/warp-core/src/wsc: write_wsc_one_warp / WscFile::from_bytes + validate_wsc + WarpView",
            wsc_decode,
            |v: &WscImage, _h: &[u8]| wsc_encode(v),
            wsc_samples,
        ),
    ]
}
