//! Shared codec table for C12 (canonical encodings are bijective) and C13 (decoders are total).
//!
//! Every wire / retention codec of the repository that is reachable through public API is wrapped
//! in one uniform, type-erased [`Codec`] entry:
//!
//! * `decode`       — run the real decoder; on success return a value fingerprint (`Debug`) and the
//!                    bytes obtained by feeding the *decoded value* back into the real encoder;
//! * `decode_only`  — run the real decoder and drop the value (C13 totality / allocation metering);
//! * `samples`      — bounded-exhaustive generator of valid values, already encoded by the real
//!                    encoder (twice, for writer determinism) plus differently-constructed equal
//!                    values that must encode identically (map insertion orders, parent-set orders).
//!
//! Nothing here decides a verdict; the oracles live in `props/c12` and `props/c13`.

use std::fmt::Debug;

pub mod abi;
pub mod classify;
pub mod edict;
pub mod mutate;
pub mod rt;
pub mod warp;

/// Result of decoding one byte string with one codec.
#[derive(Clone, Debug)]
pub struct Decoded {
    /// `Debug` rendering of the decoded value (all NaNs render alike: NaN is one value).
    pub repr: String,
    /// Real encoder applied to the decoded value (`Err` if the encoder refuses the value).
    pub reencoded: Result<Vec<u8>, String>,
}

/// One generated value of a codec's domain, already pushed through the real encoder.
#[derive(Clone, Debug)]
pub struct Sample {
    pub label: String,
    /// `Debug` rendering of the generated value.
    pub repr: String,
    /// `Debug` rendering the decoder is expected to return (differs from `repr` only for
    /// documented encode-side normalisation, e.g. ABI integral floats → ints).
    pub expect_repr: String,
    /// False when the value is outside the codec's documented value domain (reported as
    /// `encoder_accepts_outside_domain`, never a violation).
    pub in_domain: bool,
    pub bytes: Result<Vec<u8>, String>,
    /// Second, independent run of the encoder on the same value (writer determinism).
    pub bytes_again: Result<Vec<u8>, String>,
    /// Equal values built in a different construction order; must encode to `bytes`.
    pub variants: Vec<(String, Result<Vec<u8>, String>)>,
}

type DecFn = Box<dyn Fn(&[u8]) -> Result<Decoded, String> + Send + Sync>;
type DecOnlyFn = Box<dyn Fn(&[u8]) -> Result<(), String> + Send + Sync>;
type SamplesFn = Box<dyn Fn(bool) -> Vec<Sample> + Send + Sync>;

/// Uniform codec entry.
pub struct Codec {
    pub name: String,
    /// Family used in violation signatures (`abi-cbor`, `abi-dto`, `edict-cbor`, …).
    pub group: &'static str,
    /// Codec defines a canonical form: accepted ⇒ re-encodes to exactly the input.
    pub canonical: bool,
    /// Length of the shortest valid encoding (vacuity explanation for the ≤3-byte sweep).
    pub min_len: usize,
    /// Where the pair lives in /repo.
    pub anchor: &'static str,
    pub decode: DecFn,
    pub decode_only: DecOnlyFn,
    pub samples: SamplesFn,
    /// `Some(f)`: `f(input)` is true when feeding `input` to this decoder *in-process* is known to
    /// be unsafe (defect D4: allocation from a declared length).  C12 skips and counts such inputs
    /// (they can never be valid encodings); C13 runs them in a child process instead.
    pub unsafe_in_process: Option<fn(&[u8]) -> bool>,
}

impl Codec {
    pub fn with_prefilter(mut self, f: fn(&[u8]) -> bool) -> Self {
        self.unsafe_in_process = Some(f);
        self
    }
}

/// True when, reading `b` sequentially as definite-length CBOR, the first structural problem met
/// is an array/map header whose declared count exceeds both 65535 and the number of remaining input bytes (every
/// element needs ≥ 1 byte, so such an input is never a valid encoding).  `skip` = bytes of
/// non-CBOR prefix (EINT header).
pub const UNSAFE_COUNT: u64 = 0xffff;

pub fn cbor_count_exceeds_input(b: &[u8]) -> bool {
    let mut pos = 0usize;
    // number of items still expected at each open level
    let mut pending: Vec<u64> = vec![1];
    while let Some(top) = pending.last_mut() {
        if *top == 0 {
            pending.pop();
            continue;
        }
        *top -= 1;
        let Some(&b0) = b.get(pos) else { return false };
        pos += 1;
        let major = b0 >> 5;
        let info = b0 & 0x1f;
        let n = match info {
            0..=23 => 0usize,
            24 => 1,
            25 => 2,
            26 => 4,
            27 => 8,
            _ => return false,
        };
        if b.len() - pos < n {
            return false;
        }
        let mut arg = u64::from(info);
        if n > 0 {
            arg = 0;
            for i in 0..n {
                arg = (arg << 8) | u64::from(b[pos + i]);
            }
            pos += n;
        }
        let remaining = (b.len() - pos) as u64;
        match major {
            0 | 1 | 7 => {}
            2 | 3 => {
                if arg > remaining {
                    return false;
                }
                pos += arg as usize;
            }
            4 | 5 => {
                if arg > remaining && arg > UNSAFE_COUNT {
                    return true;
                }
                // counts ≤ 65535 are harmless in-process (≤ 2 MiB pre-allocation) even when they
                // exceed the input: the real decoder walks on into the elements, so do we
                pending.push(if major == 5 { arg.saturating_mul(2) } else { arg });
            }
            _ => return false,
        }
        if pending.len() > 100_000 {
            return true;
        }
    }
    false
}

/// Same, for an EINT v1 envelope carrying CBOR.
pub fn eint_cbor_count_exceeds_input(b: &[u8]) -> bool {
    b.len() > 12 && cbor_count_exceeds_input(&b[12..])
}

/// Typed sample before erasure.
pub struct SampleT<T> {
    pub label: String,
    pub value: T,
    /// What decode(encode(value)) is expected to render as; `None` = the value itself.
    pub expect: Option<String>,
    pub in_domain: bool,
    pub variants: Vec<(String, T)>,
}

impl<T> SampleT<T> {
    pub fn new(label: impl Into<String>, value: T) -> Self {
        SampleT { label: label.into(), value, expect: None, in_domain: true, variants: Vec::new() }
    }
    pub fn outside(mut self, expect: Option<String>) -> Self {
        self.in_domain = false;
        self.expect = expect;
        self
    }
    pub fn variant(mut self, label: impl Into<String>, v: T) -> Self {
        self.variants.push((label.into(), v));
        self
    }
}

/// Shorten an error's `Debug` rendering to its variant name (histogram key).
pub fn err_kind<E: Debug>(e: &E) -> String {
    let s = format!("{e:?}");
    let s = s.trim_matches('"').to_string();
    let cut = s.find(|c: char| c == '(' || c == '{' || c == ' ' || c == ':').unwrap_or(s.len());
    let k = &s[..cut];
    if k.is_empty() {
        s.chars().take(24).collect()
    } else {
        k.to_string()
    }
}

/// Build a type-erased entry from the typed real functions.
#[allow(clippy::too_many_arguments)]
pub fn mk<T, E, D, N, S>(
    name: &str,
    group: &'static str,
    canonical: bool,
    min_len: usize,
    anchor: &'static str,
    dec: D,
    enc: N,
    samples: S,
) -> Codec
where
    T: Debug + 'static,
    E: Debug,
    D: Fn(&[u8]) -> Result<T, E> + Send + Sync + Clone + 'static,
    N: Fn(&T, &[u8]) -> Result<Vec<u8>, String> + Send + Sync + Clone + 'static,
    S: Fn(bool) -> Vec<SampleT<T>> + Send + Sync + 'static,
{
    let d1 = dec.clone();
    let e1 = enc.clone();
    let decode: DecFn = Box::new(move |b: &[u8]| match d1(b) {
        Ok(v) => Ok(Decoded { repr: format!("{v:?}"), reencoded: e1(&v, b) }),
        Err(e) => Err(err_kind(&e)),
    });
    let d2 = dec;
    let decode_only: DecOnlyFn = Box::new(move |b: &[u8]| match d2(b) {
        Ok(v) => {
            drop(v);
            Ok(())
        }
        Err(e) => Err(err_kind(&e)),
    });
    let e2 = enc;
    let samples: SamplesFn = Box::new(move |thorough: bool| {
        samples(thorough)
            .into_iter()
            .map(|s| {
                let repr = format!("{:?}", s.value);
                Sample {
                    label: s.label,
                    expect_repr: s.expect.clone().unwrap_or_else(|| repr.clone()),
                    repr,
                    in_domain: s.in_domain,
                    bytes: e2(&s.value, &[]),
                    bytes_again: e2(&s.value, &[]),
                    variants: s.variants.iter().map(|(l, v)| (l.clone(), e2(v, &[]))).collect(),
                }
            })
            .collect()
    });
    Codec { name: name.to_string(), group, canonical, min_len, anchor, decode, decode_only, samples, unsafe_in_process: None }
}

/// The full table (order is stable; names are unique).
pub fn table() -> Vec<Codec> {
    let mut t = Vec::new();
    t.extend(abi::codecs());
    t.extend(edict::codecs());
    t.extend(warp::codecs());
    t.extend(rt::codecs());
    t
}

/// Encodings that have a reader but no writer in the repository (legacy forms): the byte strings
/// themselves plus the `Debug` of the value they must decode to.  `(codec name, label, bytes, repr)`.
pub fn legacy_encodings() -> Vec<(&'static str, String, Vec<u8>, String)> {
    warp::ingress_v1_samples().into_iter().map(|(l, b, e)| ("ingress-retention", l, b, format!("{:?}", (warp::IngressForm::LegacyV1, e)))).collect()
}

/// Encode/decode pairs found by grep that are NOT in the table, with the reason.
pub fn not_covered() -> Vec<(&'static str, &'static str)> {
    vec![
        ("warp_core::provenance_codec::{encode,decode}_local_commit_v1", "pub(crate); exercised through WalRuntimeStateDeltaRecord::{to,from}_payload_bytes which wraps it byte-for-byte"),
        ("warp_core::causal_wal::TickReceiptBatchRecord / decode_tick_receipt_records", "private / pub(crate); only reachable inside build_replayable_tick_transaction + recovery; the single-receipt TickReceiptRecord pair is covered"),
        ("warp_core::causal_wal::{encode,decode}_frame / {encode,decode}_commit / manifest / writer-epoch ledger", "private; decode side reached through recover_wal_segment_bytes in C13 (totality), no public encoder to round-trip against"),
        ("warp_core::causal_wal::TopologyIntentRecord", "encode-only enum wrapper (no from_payload_bytes); its five member records are covered individually"),
        ("warp_core::head_inbox EINGR001 writer", "no v1 writer exists; the v1 reader is checked against the canonical form the reader itself defines (v2 writer bytes with the v1 magic)"),
        ("echo_wasm_abi::{pack,unpack}_import_suffix_intent_v1", "covered at the envelope layer by intent-envelope-v1 and at the DTO layer by decode_cbor; ImportSuffixRequest values need a full CausalSuffixBundle graph (not generated)"),
        ("echo_wasm_abi kernel_port DTOs other than the 17 listed abi-dto:* entries", "~100 serde-derived structs share the one generic decode_cbor/encode_cbor path; a representative set with every serde shape (struct, option fields, internally/adjacently/externally tagged enums, transparent newtypes, opaque ids, flatten) is covered"),
        ("warp_core::wsc::store WscStoreEnvelope record codecs (*_to/from_wsc_envelope)", "operate on typed envelopes built from WSC files, not on a flat byte string; WSC bytes themselves are covered (round trip in C12, lying fields in C13)"),
    ]
}
