//! Root-cause classification of "decoder accepted bytes that are not the canonical encoding".
//! One stable signature per root cause (never per input).

use ciborium::value::Value;

#[derive(Debug, Clone)]
struct Item {
    start: usize,
    end: usize,
    major: u8,
    info: u8,
    arg: u64,
    parent_major: Option<u8>,
}

/// Minimal independent walker over definite-length, tag-free CBOR (what both value decoders
/// accept).  Returns the flat item list or `None` when the bytes are not of that shape.
fn walk(b: &[u8]) -> Option<Vec<Item>> {
    fn rec(b: &[u8], pos: &mut usize, parent: Option<u8>, out: &mut Vec<Item>, depth: usize) -> Option<()> {
        if depth > 4096 {
            return None;
        }
        let start = *pos;
        let b0 = *b.get(*pos)?;
        *pos += 1;
        let major = b0 >> 5;
        let info = b0 & 0x1f;
        let n = match info {
            0..=23 => 0,
            24 => 1,
            25 => 2,
            26 => 4,
            27 => 8,
            _ => return None,
        };
        let mut arg = u64::from(info);
        if n > 0 {
            arg = 0;
            for _ in 0..n {
                arg = (arg << 8) | u64::from(*b.get(*pos)?);
                *pos += 1;
            }
        }
        let idx = out.len();
        out.push(Item { start, end: *pos, major, info, arg, parent_major: parent });
        match major {
            0 | 1 | 7 => {}
            2 | 3 => {
                let l = usize::try_from(arg).ok()?;
                if b.len() - *pos < l {
                    return None;
                }
                *pos += l;
            }
            4 => {
                for _ in 0..arg {
                    rec(b, pos, Some(4), out, depth + 1)?;
                }
            }
            5 => {
                for _ in 0..arg {
                    rec(b, pos, Some(5), out, depth + 1)?;
                    rec(b, pos, Some(5), out, depth + 1)?;
                }
            }
            _ => return None,
        }
        out[idx].end = *pos;
        Some(())
    }
    let mut out = Vec::new();
    let mut pos = 0;
    rec(b, &mut pos, None, &mut out, 0)?;
    Some(out)
}

fn minimal_header(it: &Item) -> bool {
    match it.info {
        0..=23 => true,
        24 => it.arg >= 24,
        25 => it.arg > 0xff,
        26 => it.arg > 0xffff,
        27 => it.arg > 0xffff_ffff,
        _ => false,
    }
}

fn first_diff(a: &[u8], b: &[u8]) -> usize {
    a.iter().zip(b.iter()).position(|(x, y)| x != y).unwrap_or_else(|| a.len().min(b.len()))
}

/// Classify a non-canonical input accepted by a CBOR *value* decoder (`prefix` = `abi-cbor` /
/// `edict-cbor`).
pub fn classify_cbor(prefix: &str, input: &[u8], reenc: &Result<Vec<u8>, String>) -> String {
    let Ok(re) = reenc else {
        return format!("{prefix}:accepted-value-the-encoder-refuses");
    };
    let Some(items) = walk(input) else {
        return format!("{prefix}:accepted-noncanonical:unwalkable");
    };
    let d = first_diff(input, re);
    // innermost item whose header or scalar body contains the first differing byte
    let mut hit: Option<&Item> = None;
    for it in &items {
        if it.start <= d && d < it.end.max(it.start + 1) {
            hit = Some(it);
        }
    }
    let Some(it) = hit else {
        return format!("{prefix}:accepted-noncanonical:trailing-or-length");
    };
    if it.major == 7 {
        return match it.info {
            25 => {
                let bits = it.arg as u16;
                if bits & 0x7c00 == 0x7c00 && bits & 0x03ff != 0 {
                    format!("{prefix}:f16-NaN-payload-accepted")
                } else {
                    format!("{prefix}:f16-noncanonical-accepted")
                }
            }
            26 => {
                let bits = it.arg as u32;
                if bits & 0x7f80_0000 == 0x7f80_0000 && bits & 0x007f_ffff != 0 {
                    format!("{prefix}:f32-NaN-accepted")
                } else {
                    format!("{prefix}:f32-noncanonical-accepted")
                }
            }
            27 => {
                if it.arg & 0x7ff0_0000_0000_0000 == 0x7ff0_0000_0000_0000 && it.arg & 0x000f_ffff_ffff_ffff != 0 {
                    format!("{prefix}:f64-NaN-accepted")
                } else {
                    format!("{prefix}:f64-noncanonical-accepted")
                }
            }
            _ => format!("{prefix}:simple-value-noncanonical-accepted"),
        };
    }
    if !minimal_header(it) {
        return format!("{prefix}:non-minimal-header-accepted:major{}", it.major);
    }
    if it.parent_major == Some(5) || items.iter().any(|p| p.major == 5 && p.start <= it.start && it.end <= p.end && p.start != it.start) {
        return format!("{prefix}:map-key-order-or-duplicate-accepted");
    }
    format!("{prefix}:accepted-noncanonical:other-major{}", it.major)
}

fn kind_of(v: &Value) -> &'static str {
    match v {
        Value::Integer(_) => "int",
        Value::Bytes(_) => "bytes",
        Value::Float(_) => "float",
        Value::Text(_) => "text",
        Value::Bool(_) => "bool",
        Value::Null => "null",
        Value::Tag(..) => "tag",
        Value::Array(_) => "array",
        Value::Map(_) => "map",
        _ => "other",
    }
}

fn diff_tree(a: &Value, b: &Value) -> String {
    match (a, b) {
        (Value::Array(_), Value::Map(_)) => "struct-from-array-accepted".into(),
        (Value::Map(x), Value::Map(y)) => {
            if x.iter().any(|(k, _)| !matches!(k, Value::Text(_))) && y.iter().all(|(k, _)| matches!(k, Value::Text(_))) {
                return "non-text-field-key-accepted".into();
            }
            let kx: Vec<&Value> = x.iter().map(|(k, _)| k).collect();
            let ky: Vec<&Value> = y.iter().map(|(k, _)| k).collect();
            let missing = ky.iter().any(|k| !kx.contains(k));
            let extra = kx.iter().any(|k| !ky.contains(k));
            match (missing, extra) {
                (true, false) => return "missing-field-defaulted".into(),
                (false, true) => return "unknown-field-ignored".into(),
                // a misspelt optional field = unknown key ignored + absent option defaulted; the
                // enabling root cause is that unknown keys are not rejected
                (true, true) => return "unknown-field-ignored".into(),
                _ => {}
            }
            for (k, vx) in x {
                if let Some((_, vy)) = y.iter().find(|(k2, _)| k2 == k) {
                    if vx != vy {
                        return diff_tree(vx, vy);
                    }
                }
            }
            "map-reordered".into()
        }
        (Value::Array(x), Value::Array(y)) => {
            if x.len() != y.len() {
                return "sequence-length-changed".into();
            }
            for (vx, vy) in x.iter().zip(y) {
                if vx != vy {
                    return diff_tree(vx, vy);
                }
            }
            "array-equal".into()
        }
        (Value::Map(_), Value::Text(_)) | (Value::Text(_), Value::Map(_)) => "enum-alternative-representation-accepted".into(),
        (x, y) => format!("value-coerced:{}-to-{}", kind_of(x), kind_of(y)),
    }
}

/// Classify a non-canonical input accepted by a serde DTO decoder on top of the ABI CBOR layer.
pub fn classify_dto(input: &[u8], reenc: &Result<Vec<u8>, String>) -> String {
    let Ok(re) = reenc else {
        return "abi-dto:accepted-value-the-encoder-refuses".into();
    };
    let Ok(vin) = echo_wasm_abi::decode_value(input) else {
        return "abi-dto:accepted-bytes-the-cbor-layer-rejects".into();
    };
    // a CBOR-layer root cause (e.g. NaN payload inside a DTO) keeps its CBOR-layer signature
    let cbor_re = echo_wasm_abi::encode_value(&vin).map_err(|e| format!("{e:?}"));
    if cbor_re.as_deref().ok() != Some(input) {
        return classify_cbor("abi-cbor", input, &cbor_re);
    }
    let Ok(vout) = echo_wasm_abi::decode_value(re) else {
        return "abi-dto:reencoding-not-decodable".into();
    };
    format!("abi-dto:{}", diff_tree(&vin, &vout))
}

fn per_type(sig: String, name: &str) -> String {
    match sig.strip_prefix("abi-dto:") {
        Some(rest) => format!("{name}:{rest}"),
        None => sig,
    }
}

/// Classify for any codec of the table.
pub fn classify(group: &str, name: &str, input: &[u8], reenc: &Result<Vec<u8>, String>) -> String {
    match group {
        "abi-cbor" | "edict-cbor" => classify_cbor(group, input, reenc),
        // the DTO type is part of the signature: serde strictness is a per-type attribute
        // (`deny_unknown_fields`, `default`), so a known leniency of one type must not hide a new one
        "abi-dto" => per_type(classify_dto(input, reenc), name),
        "intent-envelope" if name.starts_with("control-intent") && input.len() >= 12 => {
            let inner = reenc.as_ref().map(|r| r.get(12..).unwrap_or(&[]).to_vec()).map_err(Clone::clone);
            per_type(classify_dto(&input[12..], &inner), &format!("abi-dto:{name}"))
        }
        _ => {
            let Ok(re) = reenc else {
                return format!("{name}:accepted-value-the-encoder-refuses");
            };
            if name == "eintlog" && input.len() > re.len() && input.starts_with(re) && input.len() - re.len() < 4 {
                return "eintlog:partial-length-prefix-accepted-as-eof".into();
            }
            let shape = match re.len().cmp(&input.len()) {
                std::cmp::Ordering::Equal => "same-length",
                std::cmp::Ordering::Less => "reencodes-shorter",
                std::cmp::Ordering::Greater => "reencodes-longer",
            };
            format!("{name}:decoder-normalises-instead-of-rejecting:{shape}")
        }
    }
}

// ---------------------------------------------------------------------------------------------
// Structure-aware non-canonical DTO forms
// ---------------------------------------------------------------------------------------------

fn perms(n: usize) -> Vec<Vec<usize>> {
    let mut out = Vec::new();
    fn rec(cur: &mut Vec<usize>, used: &mut Vec<bool>, n: usize, out: &mut Vec<Vec<usize>>) {
        if cur.len() == n {
            out.push(cur.clone());
            return;
        }
        for i in 0..n {
            if !used[i] {
                used[i] = true;
                cur.push(i);
                rec(cur, used, n, out);
                cur.pop();
                used[i] = false;
            }
        }
    }
    rec(&mut Vec::new(), &mut vec![false; n], n, &mut out);
    out
}

fn root_forms(root: &Value) -> Vec<(&'static str, Value)> {
    let mut out = Vec::new();
    let Value::Map(entries) = root else {
        if let Value::Text(s) = root {
            // externally tagged unit variant written as {"Variant": null}
            out.push(("enum-unit-as-map", Value::Map(vec![(Value::Text(s.clone()), Value::Null)])));
        }
        return out;
    };
    let n = entries.len();
    // (i) drop each null-valued entry
    for i in 0..n {
        if matches!(entries[i].1, Value::Null) {
            let mut e = entries.clone();
            e.remove(i);
            out.push(("drop-null-field", Value::Map(e)));
        }
    }
    // (ii) unknown extra entry
    let mut e = entries.clone();
    e.push((Value::Text("zz_unknown".into()), Value::Integer(0.into())));
    out.push(("add-unknown-field", Value::Map(e)));
    // (iii) struct as positional array, every order of the values (declaration order is one of them)
    if (1..=4).contains(&n) {
        for p in perms(n) {
            out.push(("struct-as-array", Value::Array(p.iter().map(|&i| entries[i].1.clone()).collect())));
        }
    }
    // (iv) field key as declaration index: each single key replaced by each index
    if n <= 8 {
        for i in 0..n {
            for idx in 0..n as u64 {
                let mut e = entries.clone();
                e[i].0 = Value::Integer(idx.into());
                out.push(("field-key-as-index", Value::Map(e)));
            }
        }
    }
    // (v) field key as byte string
    for i in 0..n {
        if let Value::Text(s) = &entries[i].0 {
            let mut e = entries.clone();
            e[i].0 = Value::Bytes(s.clone().into_bytes());
            out.push(("field-key-as-bytes", Value::Map(e)));
        }
    }
    // (vi) text value (unit enum variants) as single-entry map
    for i in 0..n {
        if let Value::Text(s) = &entries[i].1 {
            let mut e = entries.clone();
            e[i].1 = Value::Map(vec![(Value::Text(s.clone()), Value::Null)]);
            out.push(("enum-unit-as-map", Value::Map(e)));
        }
    }
    // (vii) integer value as integral float is impossible in canonical CBOR; null for absent sequence
    out
}

/// All structure-aware alternative spellings of one valid DTO encoding, each re-serialised with
/// the real canonical CBOR encoder (so every mutant is canonical *CBOR*; only the DTO shape differs).
/// Applied at the root and at every directly nested map value.
pub fn dto_shape_mutants(encoding: &[u8]) -> Vec<(&'static str, Vec<u8>)> {
    let Ok(root) = echo_wasm_abi::decode_value(encoding) else {
        return Vec::new();
    };
    let mut trees: Vec<(&'static str, Value)> = root_forms(&root);
    if let Value::Map(entries) = &root {
        for i in 0..entries.len() {
            if matches!(entries[i].1, Value::Map(_)) {
                for (k, sub) in root_forms(&entries[i].1) {
                    let mut e = entries.clone();
                    e[i].1 = sub;
                    trees.push((k, Value::Map(e)));
                }
            }
        }
    }
    let mut out = Vec::new();
    for (k, t) in trees {
        if let Ok(b) = echo_wasm_abi::encode_value(&t) {
            if b != encoding {
                out.push((k, b));
            }
        }
    }
    out
}

/// NaN-class float inputs for the ABI CBOR decoder: every f16 NaN (2046 patterns), and for
/// f32/f64 both signs × a mantissa alphabet (each single mantissa bit, all ones, quiet bit + 1),
/// as bare values and wrapped in a one-element array and as a map value.
pub fn nan_inputs() -> Vec<(String, Vec<u8>)> {
    let mut bare: Vec<(String, Vec<u8>)> = Vec::new();
    for bits in 0u32..=0xffff {
        let h = bits as u16;
        if h & 0x7c00 == 0x7c00 && h & 0x03ff != 0 {
            bare.push((format!("f16:{h:04x}"), vec![0xf9, (h >> 8) as u8, h as u8]));
        }
    }
    let mut m32: Vec<u32> = (0..23).map(|i| 1u32 << i).collect();
    m32.extend([0x007f_ffff, 0x0040_0001, 0x0000_0003, 0x0020_0000 | 1]);
    for sign in [0u32, 1] {
        for m in &m32 {
            let bits = (sign << 31) | 0x7f80_0000 | m;
            let mut b = vec![0xfa];
            b.extend_from_slice(&bits.to_be_bytes());
            bare.push((format!("f32:{bits:08x}"), b));
        }
    }
    let mut m64: Vec<u64> = (0..52).map(|i| 1u64 << i).collect();
    m64.extend([0x000f_ffff_ffff_ffff, 0x0008_0000_0000_0001, 3]);
    for sign in [0u64, 1] {
        for m in &m64 {
            let bits = (sign << 63) | 0x7ff0_0000_0000_0000 | m;
            let mut b = vec![0xfb];
            b.extend_from_slice(&bits.to_be_bytes());
            bare.push((format!("f64:{bits:016x}"), b));
        }
    }
    let mut out = Vec::new();
    for (l, b) in bare {
        let mut arr = vec![0x81];
        arr.extend_from_slice(&b);
        let mut map = vec![0xa1, 0x61, b'k'];
        map.extend_from_slice(&b);
        out.push((format!("array:{l}"), arr));
        out.push((format!("mapval:{l}"), map));
        out.push((l, b));
    }
    out
}

fn f16_bits_to_f64(h: u16) -> f64 {
    let sign = if h & 0x8000 != 0 { -1.0 } else { 1.0 };
    let exp = i32::from((h >> 10) & 0x1f);
    let mant = f64::from(h & 0x03ff);
    match exp {
        0 => sign * mant * 2f64.powi(-24),
        31 => {
            if mant == 0.0 {
                sign * f64::INFINITY
            } else {
                f64::NAN
            }
        }
        e => sign * (1.0 + mant / 1024.0) * 2f64.powi(e - 15),
    }
}

/// Every spelling width of boundary numbers: each float atom (one per class per width, ±0, ±inf,
/// subnormals, integral floats) written as f16 / f32 / f64 wherever the conversion is exact, and
/// each boundary integer / length written with every argument width that can carry it (majors 0–5,
/// with an exact payload where that is ≤ 64 Ki elements) — bare, inside a one-element array and as
/// a map value.  Exactly one spelling per value is canonical; every other one must be rejected.
pub fn width_inputs() -> Vec<(String, Vec<u8>)> {
    let mut bare: Vec<(String, Vec<u8>)> = Vec::new();
    let floats: Vec<f64> = vec![
        0.5, -0.5, 1.5, 1023.5, 2f64.powi(-24), -3.0 * 2f64.powi(-24), 2f64.powi(-14), f64::INFINITY, f64::NEG_INFINITY,
        f64::from(0.1f32), -f64::from(0.1f32), f64::from(f32::from_bits(1)), f64::from(f32::MIN_POSITIVE), f64::from(f32::MAX), 65504.25,
        0.1, -0.1, std::f64::consts::PI, f64::from_bits(1), f64::MIN_POSITIVE, f64::MAX, f64::MIN,
        0.0, -0.0, 1.0, -1.0, 24.0, 65504.0, 4294967296.0, 9007199254740992.0, -9223372036854775808.0, 18446744073709551616.0, 1e30,
    ];
    for f in floats {
        // f16: search the exact bit pattern
        for h in 0u32..=0xffff {
            let h = h as u16;
            let v = f16_bits_to_f64(h);
            if v.to_bits() == f.to_bits() {
                bare.push((format!("float:{f:?}:as-f16"), vec![0xf9, (h >> 8) as u8, h as u8]));
            }
        }
        let s = f as f32;
        if f64::from(s).to_bits() == f.to_bits() {
            let mut b = vec![0xfa];
            b.extend_from_slice(&s.to_bits().to_be_bytes());
            bare.push((format!("float:{f:?}:as-f32"), b));
        }
        let mut b = vec![0xfb];
        b.extend_from_slice(&f.to_bits().to_be_bytes());
        bare.push((format!("float:{f:?}:as-f64"), b));
    }
    let ints: Vec<u64> = vec![0, 1, 23, 24, 255, 256, 65535, 65536, (1 << 32) - 1, 1 << 32, (1 << 32) + 1, 1 << 53, (1 << 63) - 1, 1 << 63, u64::MAX];
    for major in 0u8..=5 {
        for &n in &ints {
            let mut heads: Vec<(u8, Vec<u8>)> = Vec::new();
            if n <= 23 {
                heads.push((0, vec![(major << 5) | n as u8]));
            }
            if n <= 0xff {
                heads.push((1, vec![(major << 5) | 24, n as u8]));
            }
            if n <= 0xffff {
                let mut h = vec![(major << 5) | 25];
                h.extend_from_slice(&(n as u16).to_be_bytes());
                heads.push((2, h));
            }
            if n <= 0xffff_ffff {
                let mut h = vec![(major << 5) | 26];
                h.extend_from_slice(&(n as u32).to_be_bytes());
                heads.push((4, h));
            }
            let mut h = vec![(major << 5) | 27];
            h.extend_from_slice(&n.to_be_bytes());
            heads.push((8, h));
            for (w, mut h) in heads {
                match major {
                    0 | 1 => {}
                    2 | 3 if n <= 65536 => h.extend(std::iter::repeat(b'a').take(n as usize)),
                    4 if n <= 65536 => h.extend(std::iter::repeat(0x00).take(n as usize)),
                    5 if n <= 256 => {
                        for k in 0..n {
                            // canonical ascending integer keys
                            if k <= 23 {
                                h.push(k as u8);
                            } else if k <= 0xff {
                                h.extend_from_slice(&[0x18, k as u8]);
                            } else {
                                h.push(0x19);
                                h.extend_from_slice(&(k as u16).to_be_bytes());
                            }
                            h.push(0x00);
                        }
                    }
                    _ => continue,
                }
                bare.push((format!("major{major}:{n}:width{w}"), h));
            }
        }
    }
    let mut out = Vec::new();
    for (l, b) in bare {
        if b.len() <= 64 {
            let mut arr = vec![0x81];
            arr.extend_from_slice(&b);
            let mut map = vec![0xa1, 0x61, b'k'];
            map.extend_from_slice(&b);
            out.push((format!("array:{l}"), arr));
            out.push((format!("mapval:{l}"), map));
        }
        out.push((l, b));
    }
    out
}
