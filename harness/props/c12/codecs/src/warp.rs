//! warp-core retention codecs: ingress envelopes (EINGR002 + legacy EINGR001), replayable
//! provenance / state-delta records, WAL payload records, tick-receipt records.

use crate::{mk, Codec, SampleT};
use bytes::Bytes;
use warp_core::causal_wal::{
    BraidShellRetentionRecord, CheckpointPublicationRecord, CheckpointRecord, EvidenceMaterialPosture, Lsn, MaterializationIntentRecord,
    MaterializationObservationRecord, ReadingRefRecord, RetainedMaterialKind, RetainedMaterialRecord, StrandDropRecord, StrandForkRecord,
    SubmissionAcceptanceRecord, SuffixImportRecord, TickReceiptRecord, TopologyBraidEventRecord, TopologyImportOutcomeKind,
    WalReceiptCorrelationRecord, WalRuntimeStateDeltaRecord, WalSubmissionEnvelopeRecord, WalTickDecision,
};
use warp_core::{
    compute_commit_hash_v2, make_edge_id, make_head_id, make_intent_kind, make_node_id, make_type_id, make_warp_id, AtomPayload, AtomWrite,
    AttachmentKey, AttachmentValue, AuthorityDomainId, AuthorityDomainRef, BraidEvent, BraidMemberRef, BraidStatus, CausalTickReceiptRef,
    ContractEvidenceIdentity, ContractOperationKind, EdgeKey, EdgeRecord, GlobalTick, Hash, HashTriplet, InboxAddress, IngressCausalParent,
    IngressEnvelope, IngressTarget, InstalledContractPackageId, InstalledInvocationEvidence, NodeKey, NodeRecord, OriginId, PortalInit,
    ProvenanceEntry, ProvenanceRef, SlotId, StrandId, TickCommitStatus, TickReceipt, TickReceiptDisposition, TickReceiptEntry,
    TickReceiptRejection, TxId, WarpInstance, WarpOp, WarpTickPatchV1, WorldlineId, WorldlineTick, WorldlineTickHeaderV1,
    WorldlineTickPatchV1, WriterHeadKey,
};

pub fn dg(label: &str) -> Hash {
    blake3::hash(label.as_bytes()).into()
}
/// Hash with a chosen leading byte (ordering of hashes under single-bit mutations matters).
pub fn hb(first: u8, fill: u8) -> Hash {
    let mut h = [fill; 32];
    h[0] = first;
    h
}
fn wl(x: u8) -> WorldlineId {
    WorldlineId::from_bytes(hb(x, 0x40))
}
fn head(x: u8) -> WriterHeadKey {
    WriterHeadKey { worldline_id: wl(x), head_id: make_head_id(&format!("h{x}")) }
}
pub fn receipt_ref(x: u8) -> CausalTickReceiptRef {
    CausalTickReceiptRef {
        worldline_id: wl(x),
        worldline_tick_after: WorldlineTick::from_raw(u64::from(x) + 1),
        commit_global_tick: GlobalTick::from_raw(u64::from(x) + 256),
        commit_hash: hb(x, 1),
        submission_id: hb(x, 2),
        ticket_digest: hb(x, 3),
        receipt_content_digest: hb(x, 4),
    }
}

// ---------------------------------------------------------------------------------------------
// ingress retention
// ---------------------------------------------------------------------------------------------

const MAGIC_V1: &[u8; 8] = b"EINGR001";

fn ingress_targets() -> Vec<(&'static str, IngressTarget)> {
    vec![
        ("default", IngressTarget::DefaultWriter { worldline_id: wl(0x11) }),
        ("inbox-empty", IngressTarget::InboxAddress { worldline_id: wl(0x11), inbox: InboxAddress(String::new()) }),
        ("inbox-ab", IngressTarget::InboxAddress { worldline_id: wl(0x12), inbox: InboxAddress("aé".into()) }),
        ("exact", IngressTarget::ExactHead { key: head(0x13) }),
    ]
}

/// The version magic is part of the codec's identity (DESIGN C12): a decoded envelope is paired
/// with the form it was read from, so the documented EINGR001 migration reader is not a "second
/// encoding of the same value".
#[derive(Debug, Clone, Copy, PartialEq, Eq)]
pub enum IngressForm {
    LegacyV1,
    V2,
}

pub fn ingress_samples(thorough: bool) -> Vec<SampleT<(IngressForm, IngressEnvelope)>> {
    ingress_samples_plain(thorough)
        .into_iter()
        .map(|s| SampleT {
            label: s.label,
            value: (IngressForm::V2, s.value),
            expect: None,
            in_domain: s.in_domain,
            variants: s.variants.into_iter().map(|(l, v)| (l, (IngressForm::V2, v))).collect(),
        })
        .collect()
}

fn ingress_decode(b: &[u8]) -> Result<(IngressForm, IngressEnvelope), warp_core::IngressEnvelopeDecodeError> {
    let e = IngressEnvelope::from_retained_bytes(b)?;
    let form = if b.len() >= 8 && &b[..8] == MAGIC_V1 { IngressForm::LegacyV1 } else { IngressForm::V2 };
    Ok((form, e))
}

pub fn ingress_samples_plain(_thorough: bool) -> Vec<SampleT<IngressEnvelope>> {
    let mut out = Vec::new();
    let kind = make_intent_kind("verif/c12");
    let p = |x: u8| IngressCausalParent::TickReceipt { receipt_ref: receipt_ref(x) };
    let q = |x: u8| IngressCausalParent::ContractInverseTarget { receipt_ref: receipt_ref(x) };
    let parent_sets: Vec<(&str, Vec<IngressCausalParent>)> = vec![
        ("p0", vec![]),
        ("p1", vec![p(0x21)]),
        ("p1i", vec![q(0x21)]),
        ("p2", vec![p(0x21), p(0x32)]),
        ("p2mixed", vec![p(0x21), q(0x21)]),
        ("p3", vec![p(0x21), p(0x32), q(0x05)]),
    ];
    for (tl, t) in ingress_targets() {
        for (pl, ps) in &parent_sets {
            for bytes in [vec![], vec![0u8], vec![1, 2], vec![0xee; 24]] {
                let label = format!("v2:{tl}:{pl}:len{}", bytes.len());
                let mut s = SampleT::new(label, IngressEnvelope::local_intent_with_causal_parents(t.clone(), kind, bytes.clone(), ps.clone()));
                if ps.len() >= 2 {
                    let mut rev = ps.clone();
                    rev.reverse();
                    s = s.variant("parents-reversed", IngressEnvelope::local_intent_with_causal_parents(t.clone(), kind, bytes.clone(), rev));
                    let mut dup = ps.clone();
                    dup.push(ps[0]);
                    s = s.variant("parents-with-duplicate", IngressEnvelope::local_intent_with_causal_parents(t.clone(), kind, bytes.clone(), dup));
                }
                out.push(s);
            }
        }
    }
    out
}

/// Re-encode a decoded envelope in the version the input used: v2 through the real writer; the
/// legacy EINGR001 form through the canonical form its own reader defines (v2 writer bytes with
/// the v1 magic; only parentless envelopes are admitted by that reader).
fn ingress_encode(fv: &(IngressForm, IngressEnvelope), _hint: &[u8]) -> Result<Vec<u8>, String> {
    let (form, v) = fv;
    let mut b = v.to_retained_bytes_v2();
    if *form == IngressForm::LegacyV1 {
        if !v.causal_parents().is_empty() {
            return Err("legacy form cannot carry causal parents".into());
        }
        b[..8].copy_from_slice(MAGIC_V1);
    }
    Ok(b)
}

/// Legacy-form samples: the v1 byte strings themselves (there is no v1 writer), paired with the
/// envelope they must decode to.
pub fn ingress_v1_samples() -> Vec<(String, Vec<u8>, IngressEnvelope)> {
    let kind = make_intent_kind("verif/c12-legacy");
    let mut out = Vec::new();
    for (tl, t) in ingress_targets() {
        for bytes in [vec![], vec![5u8], vec![1, 2, 3]] {
            let e = IngressEnvelope::local_intent(t.clone(), kind, bytes.clone());
            let mut b = e.to_retained_bytes_v2();
            b[..8].copy_from_slice(MAGIC_V1);
            out.push((format!("v1:{tl}:len{}", bytes.len()), b, e));
        }
    }
    out
}

// ---------------------------------------------------------------------------------------------
// provenance / state-delta retention
// ---------------------------------------------------------------------------------------------

fn receipt_with(tx: u64, n: usize) -> TickReceipt {
    let root = NodeKey { warp_id: make_warp_id("root"), local_id: make_node_id("root") };
    let mut entries = Vec::new();
    let mut blocked = Vec::new();
    for i in 0..n {
        let disposition = match i {
            0 => TickReceiptDisposition::Applied,
            1 => TickReceiptDisposition::Rejected(TickReceiptRejection::FootprintConflict),
            _ => TickReceiptDisposition::Rejected(TickReceiptRejection::ExecutableOperationObstruction),
        };
        entries.push(TickReceiptEntry { rule_id: dg(&format!("rule{i}")), scope_hash: dg(&format!("scope{i}")), scope: root, disposition });
        blocked.push(if i == 1 { vec![0u32] } else { Vec::new() });
    }
    TickReceipt::try_from_retained_parts(TxId::from_raw(tx), entries, blocked).expect("parallel receipt parts")
}

fn all_ops() -> Vec<WarpOp> {
    let root_warp = make_warp_id("root");
    let child_warp = make_warp_id("child");
    let other_child = make_warp_id("other-child");
    let root_node = NodeKey { warp_id: root_warp, local_id: make_node_id("root") };
    let sibling = NodeKey { warp_id: root_warp, local_id: make_node_id("sibling") };
    let edge_id = make_edge_id("root-to-sibling");
    let edge_key = EdgeKey { warp_id: root_warp, local_id: edge_id };
    let ra = AttachmentKey::node_alpha(root_node);
    let sa = AttachmentKey::node_alpha(sibling);
    let ea = AttachmentKey::edge_beta(edge_key);
    let nt = make_type_id("fixture/node");
    vec![
        WarpOp::OpenPortal { key: ra, child_warp, child_root: make_node_id("child-root"), init: PortalInit::Empty { root_record: NodeRecord { ty: nt } } },
        WarpOp::OpenPortal { key: sa, child_warp: other_child, child_root: make_node_id("other-child-root"), init: PortalInit::RequireExisting },
        WarpOp::UpsertWarpInstance { instance: WarpInstance { warp_id: child_warp, root_node: make_node_id("child-root"), parent: Some(ra) } },
        WarpOp::DeleteWarpInstance { warp_id: make_warp_id("deleted-child") },
        WarpOp::UpsertNode { node: root_node, record: NodeRecord { ty: nt } },
        WarpOp::DeleteNode { node: sibling },
        WarpOp::UpsertEdge { warp_id: root_warp, record: EdgeRecord { id: edge_id, from: root_node.local_id, to: sibling.local_id, ty: make_type_id("fixture/edge") } },
        WarpOp::DeleteEdge { warp_id: root_warp, from: root_node.local_id, edge_id: make_edge_id("deleted-edge") },
        WarpOp::SetAttachment { key: ra, value: Some(AttachmentValue::Atom(AtomPayload::new(make_type_id("fixture/atom"), Bytes::from_static(b"atom-bytes")))) },
        WarpOp::SetAttachment { key: sa, value: Some(AttachmentValue::Descend(other_child)) },
        WarpOp::SetAttachment { key: ea, value: None },
    ]
}

/// A canonical scheduler local commit (adapted from the repository's own codec fixture).
pub fn provenance_entry(ops: Vec<WarpOp>, n_parents: usize, n_receipt_entries: usize, with_outputs: bool) -> ProvenanceEntry {
    let worldline_id = WorldlineId::from_bytes(dg("worldline"));
    let root_warp = make_warp_id("root");
    let root_node = NodeKey { warp_id: root_warp, local_id: make_node_id("root") };
    let sibling = NodeKey { warp_id: root_warp, local_id: make_node_id("sibling") };
    let edge_key = EdgeKey { warp_id: root_warp, local_id: make_edge_id("root-to-sibling") };
    let ra = AttachmentKey::node_alpha(root_node);
    let (in_slots, out_slots) = if ops.is_empty() {
        (vec![], vec![])
    } else {
        (
            vec![SlotId::Node(root_node), SlotId::Edge(edge_key), SlotId::Attachment(ra), SlotId::Port((root_warp, 41))],
            vec![SlotId::Node(sibling), SlotId::Edge(edge_key), SlotId::Attachment(AttachmentKey::edge_beta(edge_key)), SlotId::Port((root_warp, 42))],
        )
    };
    let patch = WarpTickPatchV1::new(17, dg("rule-pack"), TickCommitStatus::Committed, in_slots, out_slots, ops);
    let mut parents: Vec<ProvenanceRef> = (0..n_parents)
        .map(|i| ProvenanceRef { worldline_id, worldline_tick: WorldlineTick::from_raw(6), commit_hash: dg(&format!("parent-commit{i}")) })
        .collect();
    parents.sort_by_key(|p| p.commit_hash);
    let state_root = dg("state-root");
    let patch_digest = patch.digest();
    let parent_hashes: Vec<Hash> = parents.iter().map(|p| p.commit_hash).collect();
    let commit_hash = compute_commit_hash_v2(&state_root, &parent_hashes, &patch_digest, patch.policy_id());
    let receipt = receipt_with(8, n_receipt_entries);
    let decision_digest = receipt.digest();
    let (outputs, writes) = if with_outputs {
        (
            vec![(make_type_id("fixture/channel"), b"output".to_vec()), (make_type_id("fixture/channel2"), vec![])],
            vec![
                AtomWrite::new(root_node, dg("rule"), 19, Some(b"before".to_vec()), b"after".to_vec()),
                AtomWrite::new(sibling, dg("rule2"), 19, None, vec![]),
            ],
        )
    } else {
        (vec![], vec![])
    };
    ProvenanceEntry::local_commit(
        worldline_id,
        WorldlineTick::from_raw(7),
        GlobalTick::from_raw(19),
        WriterHeadKey { worldline_id, head_id: make_head_id("writer") },
        parents,
        HashTriplet { state_root, patch_digest, commit_hash },
        WorldlineTickPatchV1 {
            header: WorldlineTickHeaderV1 {
                commit_global_tick: GlobalTick::from_raw(19),
                policy_id: patch.policy_id(),
                rule_pack_id: patch.rule_pack_id(),
                plan_digest: dg("plan"),
                decision_digest,
                rewrites_digest: dg("rewrites"),
            },
            warp_id: root_warp,
            ops: patch.ops().to_vec(),
            in_slots: patch.in_slots().to_vec(),
            out_slots: patch.out_slots().to_vec(),
            patch_digest,
        },
        outputs,
        writes,
    )
    .with_tick_receipt(receipt)
}

fn contract() -> ContractEvidenceIdentity {
    ContractEvidenceIdentity {
        package_id: InstalledContractPackageId::from_bytes(dg("package")),
        echo_abi_version: 3,
        package_name: "fixture-package".to_owned(),
        package_version: "1.2.3".to_owned(),
        artifact_hash_hex: "0123456789abcdef".to_owned(),
        codec_id: "fixture-codec".to_owned(),
        registry_version: 5,
        wesley_generator_version: "6.7.8".to_owned(),
        helper_api_version: 9,
        schema_sha256_hex: "abcdef0123456789".to_owned(),
        op_id: 42,
        op_kind: ContractOperationKind::Mutation,
    }
}

pub fn state_delta_samples(thorough: bool) -> Vec<SampleT<WalRuntimeStateDeltaRecord>> {
    let mut out = Vec::new();
    let mut shapes: Vec<(String, ProvenanceEntry, bool)> = vec![
        ("no-ops:0parents".into(), provenance_entry(vec![], 0, 1, false), false),
        ("all-ops:1parent:contract".into(), provenance_entry(all_ops(), 1, 1, true), true),
        ("all-ops:2parents:3receipts".into(), provenance_entry(all_ops(), 2, 3, true), false),
    ];
    if thorough {
        for (i, op) in all_ops().into_iter().enumerate() {
            shapes.push((format!("single-op{i}"), provenance_entry(vec![op], 1, 2, false), i % 2 == 0));
        }
    }
    for (label, entry, with_contract) in shapes {
        let digest = entry.tick_receipt.as_ref().map(|r| r.digest()).unwrap_or([0; 32]);
        let c = with_contract.then(|| InstalledInvocationEvidence::LegacyContract(contract()));
        match WalRuntimeStateDeltaRecord::from_provenance_entry(digest, c, entry) {
            Ok(r) => out.push(SampleT::new(label, r)),
            Err(e) => out.push(SampleT::new(format!("{label}:UNBUILDABLE:{e:?}"), placeholder_state_delta()).outside(None)),
        }
    }
    out
}

fn placeholder_state_delta() -> WalRuntimeStateDeltaRecord {
    let e = provenance_entry(vec![], 0, 1, false);
    let d = e.tick_receipt.as_ref().map(|r| r.digest()).unwrap_or([0; 32]);
    WalRuntimeStateDeltaRecord::from_provenance_entry(d, None, e).expect("minimal fixture entry is retainable")
}

// ---------------------------------------------------------------------------------------------
// WAL payload records
// ---------------------------------------------------------------------------------------------

macro_rules! wal_codec {
    ($t:ident, $min:expr, $samples:expr) => {
        mk(
            concat!("wal-record:", stringify!($t)),
            "wal-record",
            true,
            $min,
            concat!("crates/warp-core/src/causal_wal.rs: ", stringify!($t), "::to_payload_bytes/from_payload_bytes"),
            |b: &[u8]| $t::from_payload_bytes(b),
            |v: &$t, _h: &[u8]| Ok(v.to_payload_bytes()),
            $samples,
        )
    };
}

fn opt_hashes() -> [Option<Hash>; 2] {
    [None, Some(dg("idem"))]
}

pub fn codecs() -> Vec<Codec> {
    let mut t = Vec::new();
    t.push(mk(
        "ingress-retention",
        "ingress-retention",
        true,
        81,
        "crates/warp-core/src/head_inbox.rs: IngressEnvelope::to_retained_bytes_v2/from_retained_bytes (EINGR002, legacy EINGR001)",
        ingress_decode,
        ingress_encode,
        ingress_samples,
    ));
    t.push(mk(
        "state-delta-retention",
        "provenance-retention",
        true,
        300,
        "crates/warp-core/src/causal_wal.rs: WalRuntimeStateDeltaRecord::to/from_payload_bytes → provenance_codec.rs encode/decode_local_commit_v1",
        |b: &[u8]| WalRuntimeStateDeltaRecord::from_payload_bytes(b),
        |v: &WalRuntimeStateDeltaRecord, _h: &[u8]| v.to_payload_bytes().map_err(|e| format!("{e:?}")),
        state_delta_samples,
    ));
    t.push(wal_codec!(SubmissionAcceptanceRecord, 97, |_| {
        opt_hashes()
            .into_iter()
            .enumerate()
            .map(|(i, o)| {
                SampleT::new(
                    format!("idem{i}"),
                    SubmissionAcceptanceRecord { submission_id: dg("s"), canonical_envelope_digest: dg("e"), idempotency_key_digest: o, acceptance_evidence_digest: dg("a") },
                )
            })
            .collect()
    }));
    t.push(wal_codec!(WalSubmissionEnvelopeRecord, 144, |_| {
        [vec![], vec![1u8], vec![2; 24]]
            .into_iter()
            .map(|b| {
                SampleT::new(
                    format!("len{}", b.len()),
                    WalSubmissionEnvelopeRecord { submission_id: dg("s"), canonical_envelope_digest: dg("e"), submission_generation: 1 << 40, head_key: head(9), retained_envelope_bytes: b },
                )
            })
            .collect()
    }));
    t.push(mk(
        "tick-receipt-record",
        "tick-receipt",
        true,
        185,
        "crates/warp-core/src/causal_wal.rs: TickReceiptRecord::to_payload_bytes/from_payload_bytes",
        |b: &[u8]| TickReceiptRecord::from_payload_bytes(b),
        |v: &TickReceiptRecord, _h: &[u8]| Ok(v.to_payload_bytes()),
        |_| {
            [WalTickDecision::Applied, WalTickDecision::RejectedFootprintConflict, WalTickDecision::Obstructed]
                .into_iter()
                .enumerate()
                .map(|(i, d)| SampleT::new(format!("decision{i}"), TickReceiptRecord { receipt_ref: receipt_ref(i as u8 + 1), decision: d }))
                .collect()
        },
    ));
    t.push(mk(
        "causal-tick-receipt-ref",
        "tick-receipt",
        true,
        176,
        "crates/warp-core/src/causal_receipt.rs: CausalTickReceiptRef::to_canonical_bytes/from_canonical_bytes",
        |b: &[u8]| <[u8; warp_core::CAUSAL_TICK_RECEIPT_REF_LEN]>::try_from(b).map(CausalTickReceiptRef::from_canonical_bytes).map_err(|_| "WrongLength"),
        |v: &CausalTickReceiptRef, _h: &[u8]| Ok(v.to_canonical_bytes().to_vec()),
        |_| vec![SampleT::new("r1", receipt_ref(1)), SampleT::new("rff", receipt_ref(0xff))],
    ));
    t.push(wal_codec!(WalReceiptCorrelationRecord, 184, |_| {
        let a = receipt_ref(0x21);
        let b = receipt_ref(0x32);
        let c = receipt_ref(0x05);
        vec![
            SampleT::new("no-parents", WalReceiptCorrelationRecord { receipt_ref: receipt_ref(1), causal_parent_receipts: vec![] }),
            SampleT::new("one-parent", WalReceiptCorrelationRecord { receipt_ref: receipt_ref(1), causal_parent_receipts: vec![a] }),
            SampleT::new("two-parents", WalReceiptCorrelationRecord { receipt_ref: receipt_ref(1), causal_parent_receipts: vec![a, b] })
                .variant("reversed", WalReceiptCorrelationRecord { receipt_ref: receipt_ref(1), causal_parent_receipts: vec![b, a] })
                .variant("with-duplicate", WalReceiptCorrelationRecord { receipt_ref: receipt_ref(1), causal_parent_receipts: vec![a, b, a] }),
            SampleT::new("three-parents", WalReceiptCorrelationRecord { receipt_ref: receipt_ref(1), causal_parent_receipts: vec![c, a, b] })
                .variant("other-order", WalReceiptCorrelationRecord { receipt_ref: receipt_ref(1), causal_parent_receipts: vec![b, c, a] }),
        ]
    }));
    t.push(wal_codec!(RetainedMaterialRecord, 66, |_| {
        let kinds = [
            RetainedMaterialKind::SubmissionPayload,
            RetainedMaterialKind::TickReceipt,
            RetainedMaterialKind::RuntimeStateDelta,
            RetainedMaterialKind::RuntimeControl,
            RetainedMaterialKind::ReadingPayload,
            RetainedMaterialKind::ReadingEnvelope,
            RetainedMaterialKind::Diagnostic,
        ];
        let postures = [
            EvidenceMaterialPosture::Present,
            EvidenceMaterialPosture::RedactedByPolicy,
            EvidenceMaterialPosture::EncryptedKeyUnavailable,
            EvidenceMaterialPosture::Missing,
            EvidenceMaterialPosture::Corrupt,
            EvidenceMaterialPosture::Obstructed,
        ];
        let mut v = Vec::new();
        for (i, k) in kinds.iter().enumerate() {
            for (j, p) in postures.iter().enumerate() {
                v.push(SampleT::new(format!("k{i}p{j}"), RetainedMaterialRecord { material_digest: dg("m"), semantic_coordinate_digest: dg("c"), kind: *k, posture: *p }));
            }
        }
        v
    }));
    t.push(wal_codec!(ReadingRefRecord, 129, |_| {
        vec![SampleT::new(
            "r",
            ReadingRefRecord { reading_id: dg("r"), semantic_coordinate_digest: dg("c"), payload_digest: dg("p"), envelope_digest: dg("e"), posture: EvidenceMaterialPosture::Present },
        )]
    }));
    t.push(wal_codec!(CheckpointRecord, 234, |_| {
        [0u64, 255, u64::MAX]
            .into_iter()
            .map(|l| {
                SampleT::new(
                    format!("lsn{l}"),
                    CheckpointRecord {
                        checkpoint_id: dg("id"),
                        last_included_lsn: Lsn::from_raw(l),
                        last_included_commit_digest: dg("c"),
                        state_root: dg("s"),
                        index_root: dg("i"),
                        retained_material_root: dg("m"),
                        schema_version: (l & 0xffff) as u16,
                        created_from_wal_digest: dg("w"),
                    },
                )
            })
            .collect()
    }));
    t.push(wal_codec!(CheckpointPublicationRecord, 64, |_| {
        vec![SampleT::new("p", CheckpointPublicationRecord { checkpoint_id: dg("id"), checkpoint_digest: dg("d") })]
    }));
    t.push(wal_codec!(MaterializationIntentRecord, 160, |_| {
        vec![SampleT::new(
            "i",
            MaterializationIntentRecord {
                effect_id: dg("e"),
                expected_artifact_digest: dg("a"),
                materialization_intent_digest: dg("m"),
                idempotency_token: dg("t"),
                target_metadata_digest: dg("d"),
            },
        )]
    }));
    t.push(wal_codec!(MaterializationObservationRecord, 96, |_| {
        vec![SampleT::new("o", MaterializationObservationRecord { effect_id: dg("e"), observed_artifact_digest: dg("a"), observed_metadata_digest: dg("m") })]
    }));
    t.push(wal_codec!(StrandForkRecord, 273, |_| {
        let base = |heads: Vec<WriterHeadKey>, idem: Option<Hash>| StrandForkRecord {
            topology_intent_id: dg("t"),
            strand_id: StrandId::from_bytes(dg("strand")),
            source_worldline_id: wl(1),
            fork_tick: WorldlineTick::from_raw(24),
            source_commit_hash: dg("c"),
            source_boundary_hash: dg("b"),
            child_worldline_id: wl(2),
            writer_heads: heads,
            retention_posture_digest: dg("r"),
            issuer_evidence_digest: dg("i"),
            idempotency_key_digest: idem,
        };
        // heads chosen so that a single bit flip in the first byte of the first head reorders them
        let h1 = WriterHeadKey { worldline_id: WorldlineId::from_bytes(hb(0x11, 0x50)), head_id: make_head_id("a") };
        let h2 = WriterHeadKey { worldline_id: WorldlineId::from_bytes(hb(0x22, 0x50)), head_id: make_head_id("b") };
        vec![
            SampleT::new("no-heads", base(vec![], None)),
            SampleT::new("one-head", base(vec![h1], Some(dg("k")))),
            SampleT::new("two-heads", base(vec![h1, h2], None)).variant("heads-reversed", base(vec![h2, h1], None)),
        ]
    }));
    t.push(wal_codec!(StrandDropRecord, 201, |_| {
        opt_hashes()
            .into_iter()
            .enumerate()
            .map(|(i, o)| {
                SampleT::new(
                    format!("idem{i}"),
                    StrandDropRecord {
                        topology_intent_id: dg("t"),
                        strand_id: StrandId::from_bytes(dg("strand")),
                        child_worldline_id: wl(2),
                        final_tick: WorldlineTick::from_raw(u64::MAX),
                        drop_receipt_digest: dg("d"),
                        issuer_evidence_digest: dg("i"),
                        idempotency_key_digest: o,
                    },
                )
            })
            .collect()
    }));
    t.push(wal_codec!(TopologyBraidEventRecord, 171, |_| {
        let auth = AuthorityDomainRef::new(OriginId::from_bytes(dg("o")), AuthorityDomainId::from_bytes(dg("d")));
        let events = vec![
            (BraidEvent::BraidCreated { braid_id: dg("braid"), creator_domain: auth }, BraidStatus::Active),
            (BraidEvent::MemberWoven { member_ref: BraidMemberRef::Revealed(StrandId::from_bytes(dg("s"))), sequence_num: 1 }, BraidStatus::Active),
            (BraidEvent::MemberWoven { member_ref: BraidMemberRef::Sealed { blinded_commitment: dg("bc"), authority: auth }, sequence_num: u64::MAX }, BraidStatus::Active),
            (BraidEvent::SettlementFinalized { settlement_digest: dg("sd") }, BraidStatus::Finalized),
            (BraidEvent::BraidCollapsed { collapse_witness: dg("w"), outcome_digest: dg("od") }, BraidStatus::Collapsed),
        ];
        events
            .into_iter()
            .enumerate()
            .map(|(i, (e, st))| {
                SampleT::new(
                    format!("event{i}"),
                    TopologyBraidEventRecord {
                        topology_intent_id: dg("t"),
                        braid_id: dg("braid"),
                        event_index: i as u64,
                        event: e,
                        status_after: st,
                        event_digest: dg("e"),
                        issuer_evidence_digest: dg("i"),
                        idempotency_key_digest: if i % 2 == 0 { None } else { Some(dg("k")) },
                    },
                )
            })
            .collect()
    }));
    let outcomes = [TopologyImportOutcomeKind::Derived, TopologyImportOutcomeKind::Plural, TopologyImportOutcomeKind::Conflict, TopologyImportOutcomeKind::Obstruction];
    t.push(wal_codec!(BraidShellRetentionRecord, 226, move |_| {
        outcomes
            .iter()
            .enumerate()
            .map(|(i, o)| {
                SampleT::new(
                    format!("outcome{i}"),
                    BraidShellRetentionRecord {
                        topology_intent_id: dg("t"),
                        braid_id: dg("b"),
                        shell_digest: dg("s"),
                        material_digest: dg("m"),
                        basis_digest: dg("ba"),
                        outcome_kind: *o,
                        retention_posture_digest: dg("r"),
                        witness_digest: dg("w"),
                        idempotency_key_digest: if i == 0 { None } else { Some(dg("k")) },
                    },
                )
            })
            .collect()
    }));
    t.push(wal_codec!(SuffixImportRecord, 321, move |_| {
        outcomes
            .iter()
            .enumerate()
            .map(|(i, o)| {
                SampleT::new(
                    format!("outcome{i}"),
                    SuffixImportRecord {
                        import_id: dg("i"),
                        remote_suffix_family_digest: dg("f"),
                        authorship_evidence_digest: dg("a"),
                        basis_anchor_digest: dg("b"),
                        bundle_digest: dg("bu"),
                        source_shell_digest: dg("s"),
                        target_basis_digest: dg("t"),
                        outcome_kind: *o,
                        import_shell_digest: dg("is"),
                        retention_posture_digest: dg("r"),
                        idempotency_key_digest: dg("k"),
                    },
                )
            })
            .collect()
    }));
    t
}
