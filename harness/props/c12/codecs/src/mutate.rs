//! Exhaustive single-position mutation operators over a byte string.

/// Positions mutated for an encoding of length `len`: every position when `len ≤ window`,
/// otherwise the first `window - 8` and the last 8 positions (long text/byte-string payloads are
/// opaque to every decoder here; their interior is covered by the shorter samples).
pub fn positions(len: usize, window: usize) -> Vec<usize> {
    if len <= window {
        (0..len).collect()
    } else {
        let head = window.saturating_sub(8);
        (0..head).chain(len - 8..len).collect()
    }
}

/// Call `f(kind, position, mutated)` for every single-position mutant of `b` at the selected
/// positions: each of the 8 bit flips, +1, −1 (wrapping), overwrite 00, overwrite FF, delete the
/// byte, duplicate the byte.  Mutants equal to the original (e.g. 00-overwrite of a 00) are
/// skipped.  Returns the number of mutants produced.
pub fn for_each_mutant(b: &[u8], window: usize, mut f: impl FnMut(&'static str, usize, &[u8])) -> u64 {
    let mut n = 0u64;
    let mut buf: Vec<u8> = Vec::with_capacity(b.len() + 1);
    for p in positions(b.len(), window) {
        let orig = b[p];
        let mut reps: Vec<(&'static str, u8)> = Vec::with_capacity(12);
        for bit in 0..8 {
            reps.push(("bitflip", orig ^ (1 << bit)));
        }
        reps.push(("plus1", orig.wrapping_add(1)));
        reps.push(("minus1", orig.wrapping_sub(1)));
        reps.push(("set00", 0x00));
        reps.push(("setff", 0xff));
        let mut seen: Vec<u8> = Vec::with_capacity(12);
        for (kind, v) in reps {
            if v == orig || seen.contains(&v) {
                continue;
            }
            seen.push(v);
            buf.clear();
            buf.extend_from_slice(b);
            buf[p] = v;
            f(kind, p, &buf);
            n += 1;
        }
        // delete
        buf.clear();
        buf.extend_from_slice(&b[..p]);
        buf.extend_from_slice(&b[p + 1..]);
        f("delete", p, &buf);
        n += 1;
        // duplicate
        buf.clear();
        buf.extend_from_slice(&b[..=p]);
        buf.extend_from_slice(&b[p..]);
        f("dup", p, &buf);
        n += 1;
    }
    n
}

/// Every proper prefix of `b` (truncation at every length, including the empty string).
pub fn for_each_truncation(b: &[u8], mut f: impl FnMut(usize, &[u8])) -> u64 {
    for l in 0..b.len() {
        f(l, &b[..l]);
    }
    b.len() as u64
}
