//! echo-wasm-abi codecs: canonical CBOR values, serde DTOs over it, EINT v1 envelopes, ELOG
//! intent logs and the little-endian `codec.rs` reader/writer.

use crate::{mk, Codec, SampleT};
use ciborium::value::{Integer, Value};
use echo_wasm_abi as abi;
use echo_wasm_abi::codec::{self as le, Decode, Encode, Reader, Writer};
use echo_wasm_abi::kernel_port as kp;
use serde::{de::DeserializeOwned, Serialize};
use std::collections::BTreeMap;
use std::fmt::Debug;

// ---------------------------------------------------------------------------------------------
// ABI canonical CBOR value generator
// ---------------------------------------------------------------------------------------------

fn int(i: i128) -> Value {
    Value::Integer(Integer::try_from(i).expect("i128 in ciborium Integer range"))
}
fn txt(s: &str) -> Value {
    Value::Text(s.to_string())
}
fn byt(b: &[u8]) -> Value {
    Value::Bytes(b.to_vec())
}

/// Boundary integers of the property text (positive, and their negatives / CBOR major-1 images).
pub fn boundary_ints() -> Vec<i128> {
    let pos: Vec<i128> = vec![
        0,
        1,
        23,
        24,
        255,
        256,
        65535,
        65536,
        (1i128 << 32) - 1,
        1i128 << 32,
        (1i128 << 32) + 1,
        1i128 << 53,
        (1i128 << 63) - 1,
        1i128 << 63,
        (1i128 << 63) + 1,
        (1i128 << 64) - 1,
    ];
    let mut v = pos.clone();
    for p in &pos {
        // -1-n is the CBOR major-1 image of n; also plain negation
        v.push(-1 - *p);
        if *p != 0 {
            v.push(-*p);
        }
    }
    v.sort();
    v.dedup();
    v
}

fn in_abi_int_domain(i: i128) -> bool {
    i >= i128::from(i64::MIN) && i <= i128::from(u64::MAX)
}

/// One float per class per width (+ integral floats, which the ABI maps to ints).
fn float_atoms() -> Vec<(String, f64)> {
    let f16_min_sub = 2f64.powi(-24);
    let f16_min_norm = 2f64.powi(-14);
    let f32_min_sub = f64::from(f32::from_bits(1));
    let f32_frac = f64::from(0.1f32);
    vec![
        ("f16:0.5".into(), 0.5),
        ("f16:-0.5".into(), -0.5),
        ("f16:1.5".into(), 1.5),
        ("f16:max-frac".into(), 1023.5),
        ("f16:subnormal-min".into(), f16_min_sub),
        ("f16:subnormal-neg".into(), -f16_min_sub * 3.0),
        ("f16:min-normal".into(), f16_min_norm),
        ("f16:+inf".into(), f64::INFINITY),
        ("f16:-inf".into(), f64::NEG_INFINITY),
        ("f16:nan".into(), f64::NAN),
        ("f32:0.1f".into(), f32_frac),
        ("f32:-0.1f".into(), -f32_frac),
        ("f32:subnormal-min".into(), f32_min_sub),
        ("f32:min-normal".into(), f64::from(f32::MIN_POSITIVE)),
        ("f32:max".into(), f64::from(f32::MAX)),
        ("f32:just-above-f16".into(), 65504.0 + 0.25),
        ("f64:0.1".into(), 0.1),
        ("f64:-0.1".into(), -0.1),
        ("f64:pi".into(), std::f64::consts::PI),
        ("f64:subnormal-min".into(), f64::from_bits(1)),
        ("f64:min-normal".into(), f64::MIN_POSITIVE),
        ("f64:max".into(), f64::MAX),
        ("f64:-max".into(), f64::MIN),
        ("f64:2^53+frac-neighbour".into(), 4503599627370495.5),
    ]
}

/// Integral floats: documented to encode as integers (i64 ∪ u64); beyond that range they are
/// outside the ABI value domain altogether.
fn integral_float_atoms() -> Vec<(String, f64)> {
    vec![
        ("intf:+0.0".into(), 0.0),
        ("intf:-0.0".into(), -0.0),
        ("intf:1.0".into(), 1.0),
        ("intf:-1.0".into(), -1.0),
        ("intf:24.0".into(), 24.0),
        ("intf:65504.0".into(), 65504.0),
        ("intf:2^32".into(), 4294967296.0),
        ("intf:2^53".into(), 9007199254740992.0),
        ("intf:-2^63".into(), -9223372036854775808.0),
        ("intf:2^63".into(), 9223372036854775808.0),
        ("intf:2^64-2048".into(), 18446744073709549568.0),
        ("intf:2^64".into(), 18446744073709551616.0),
        ("intf:-2^63-2048".into(), -9223372036854777856.0),
        ("intf:2^100".into(), 2f64.powi(100)),
        ("intf:1e30".into(), 1e30),
    ]
}

fn strings(thorough: bool) -> Vec<String> {
    let mut v = vec![
        String::new(),
        "a".into(),
        "ab".into(),
        "é".into(),
        "€x".into(),
        "a".repeat(23),
        "b".repeat(24),
        "c".repeat(255),
        "d".repeat(256),
    ];
    if thorough {
        v.push("e".repeat(65535));
        v.push("f".repeat(65536));
    }
    v
}

struct Atom {
    label: String,
    v: Value,
    in_domain: bool,
    expect: Option<String>,
}

fn abi_atoms(thorough: bool) -> Vec<Atom> {
    let mut a = Vec::new();
    a.push(Atom { label: "null".into(), v: Value::Null, in_domain: true, expect: None });
    a.push(Atom { label: "false".into(), v: Value::Bool(false), in_domain: true, expect: None });
    a.push(Atom { label: "true".into(), v: Value::Bool(true), in_domain: true, expect: None });
    for i in boundary_ints() {
        a.push(Atom { label: format!("int:{i}"), v: int(i), in_domain: in_abi_int_domain(i), expect: None });
    }
    for (l, f) in float_atoms() {
        a.push(Atom { label: l, v: Value::Float(f), in_domain: true, expect: None });
    }
    for (l, f) in integral_float_atoms() {
        let as_int = f as i128;
        let expect = if (as_int as f64) == f && in_abi_int_domain(as_int) {
            Some(format!("{:?}", int(as_int)))
        } else {
            None
        };
        a.push(Atom { label: l, v: Value::Float(f), in_domain: false, expect });
    }
    for s in strings(thorough) {
        a.push(Atom { label: format!("text:len{}", s.len()), v: Value::Text(s.clone()), in_domain: true, expect: None });
        a.push(Atom { label: format!("bytes:len{}", s.len()), v: Value::Bytes(s.into_bytes()), in_domain: true, expect: None });
    }
    a.push(Atom { label: "bytes:00ff".into(), v: byt(&[0x00, 0xff]), in_domain: true, expect: None });
    a
}

fn sort_map_entries(mut e: Vec<(Value, Value)>) -> Vec<(Value, Value)> {
    e.sort_by_key(|(k, _)| abi::encode_value(k).unwrap_or_default());
    e
}

fn map_sample(label: String, entries: Vec<(Value, Value)>) -> SampleT<Value> {
    // main value = entries in canonical (encoded-key-byte) order; variants = every other order
    let canon = sort_map_entries(entries.clone());
    let mut s = SampleT::new(label, Value::Map(canon.clone()));
    let n = entries.len();
    if n >= 2 && n <= 3 {
        let mut perms: Vec<Vec<usize>> = Vec::new();
        permute(n, &mut perms);
        for p in perms {
            let e: Vec<(Value, Value)> = p.iter().map(|&i| canon[i].clone()).collect();
            if e != canon {
                s = s.variant(format!("order{p:?}"), Value::Map(e));
            }
        }
    }
    s
}

fn permute(n: usize, out: &mut Vec<Vec<usize>>) {
    fn rec(cur: &mut Vec<usize>, used: &mut Vec<bool>, n: usize, out: &mut Vec<Vec<usize>>) {
        if cur.len() == n {
            out.push(cur.clone());
            return;
        }
        for i in 0..n {
            if !used[i] {
                used[i] = true;
                cur.push(i);
                rec(cur, used, n, out);
                cur.pop();
                used[i] = false;
            }
        }
    }
    rec(&mut Vec::new(), &mut vec![false; n], n, out);
}

/// Bounded-exhaustive ABI value set: every atom; every 1-element array over the atoms; every
/// 2-element array / 1- and 2-entry map over the composition subset; 3-entry maps over a 5-key
/// subset in all insertion orders; nesting to depth 3; 23/24/25-element collections.
pub fn abi_values(thorough: bool) -> Vec<SampleT<Value>> {
    let atoms = abi_atoms(thorough);
    let mut out: Vec<SampleT<Value>> = Vec::new();
    for a in &atoms {
        let mut s = SampleT::new(a.label.clone(), a.v.clone());
        if !a.in_domain {
            s = s.outside(a.expect.clone());
        }
        out.push(s);
    }
    let short = |a: &&Atom| a.in_domain && !(a.label.contains("len255") || a.label.contains("len256") || a.label.contains("len65"));
    let dom: Vec<&Atom> = atoms.iter().filter(short).collect();
    // composition subset
    let sub: Vec<Value> = vec![
        int(0),
        int(24),
        int(-1),
        int(1 << 32),
        Value::Float(1.5),
        Value::Float(0.1),
        txt(""),
        txt("a"),
        txt("ab"),
        byt(&[]),
        byt(&[1]),
        Value::Bool(true),
        Value::Null,
        Value::Array(vec![]),
        Value::Map(vec![]),
    ];
    // arrays
    out.push(SampleT::new("array:[]", Value::Array(vec![])));
    for a in &dom {
        out.push(SampleT::new(format!("array:[{}]", a.label), Value::Array(vec![a.v.clone()])));
    }
    let pair_set: Vec<Value> = if thorough { dom.iter().map(|a| a.v.clone()).collect() } else { sub.clone() };
    for (i, x) in pair_set.iter().enumerate() {
        for (j, y) in pair_set.iter().enumerate() {
            out.push(SampleT::new(format!("array:[#{i},#{j}]"), Value::Array(vec![x.clone(), y.clone()])));
        }
    }
    for n in [23usize, 24, 25, 255, 256] {
        out.push(SampleT::new(format!("array:{n}x0"), Value::Array(vec![int(0); n])));
    }
    // nesting depth 2 and 3
    for (i, x) in sub.iter().enumerate() {
        out.push(SampleT::new(format!("array:[[#{i}]]"), Value::Array(vec![Value::Array(vec![x.clone()])])));
        out.push(SampleT::new(
            format!("array:[[[#{i}]]]"),
            Value::Array(vec![Value::Array(vec![Value::Array(vec![x.clone()])])]),
        ));
        out.push(SampleT::new(
            format!("array:[[#{i}],[0,1]]"),
            Value::Array(vec![Value::Array(vec![x.clone()]), Value::Array(vec![int(0), int(1)])]),
        ));
    }
    // maps
    out.push(SampleT::new("map:{}", Value::Map(vec![])));
    let keys: Vec<Value> = vec![
        int(0),
        int(23),
        int(24),
        int(256),
        int(-1),
        int(-25),
        txt(""),
        txt("a"),
        txt("b"),
        txt("aa"),
        txt("ab"),
        byt(&[]),
        byt(&[0]),
        Value::Bool(false),
        Value::Null,
        Value::Float(1.5),
        Value::Array(vec![int(0)]),
    ];
    for (i, k) in keys.iter().enumerate() {
        for (j, v) in sub.iter().enumerate() {
            out.push(map_sample(format!("map:{{k{i}:#{j}}}"), vec![(k.clone(), v.clone())]));
        }
    }
    for i in 0..keys.len() {
        for j in (i + 1)..keys.len() {
            out.push(map_sample(
                format!("map:{{k{i},k{j}}}"),
                vec![(keys[i].clone(), int(1)), (keys[j].clone(), txt("v"))],
            ));
        }
    }
    let k5: Vec<Value> = vec![int(24), txt("b"), txt("aa"), byt(&[0]), int(-1)];
    for i in 0..k5.len() {
        for j in (i + 1)..k5.len() {
            for l in (j + 1)..k5.len() {
                out.push(map_sample(
                    format!("map:3:{{{i},{j},{l}}}"),
                    vec![(k5[i].clone(), int(0)), (k5[j].clone(), int(1)), (k5[l].clone(), int(2))],
                ));
            }
        }
    }
    // 24-entry map (length header boundary)
    out.push(map_sample("map:24-entries".into(), (0..24).map(|i| (int(i), int(i))).collect()));
    // nested maps to depth 3, and mixed
    let m1 = Value::Map(vec![(txt("c"), int(0))]);
    let m2 = Value::Map(vec![(txt("b"), m1.clone())]);
    let m3 = Value::Map(vec![(txt("a"), m2.clone())]);
    out.push(SampleT::new("map:depth2", m2.clone()));
    out.push(SampleT::new("map:depth3", m3));
    out.push(SampleT::new("mixed:[{a:[0]}]", Value::Array(vec![Value::Map(vec![(txt("a"), Value::Array(vec![int(0)]))])])));
    out.push(map_sample(
        "mixed:{a:[{}],b:{c:[]}}".into(),
        vec![
            (txt("a"), Value::Array(vec![Value::Map(vec![])])),
            (txt("b"), Value::Map(vec![(txt("c"), Value::Array(vec![]))])),
        ],
    ));
    // duplicate keys: encoder must refuse (counted as encoder_rejects)
    out.push(
        SampleT::new("map:dup-key", Value::Map(vec![(txt("a"), int(0)), (txt("a"), int(1))])).outside(None),
    );
    // tags are outside the subset: encoder must refuse
    out.push(SampleT::new("tag:0(0)", Value::Tag(0, Box::new(int(0)))).outside(None));
    out
}

// ---------------------------------------------------------------------------------------------
// DTO layer
// ---------------------------------------------------------------------------------------------

fn dto<T>(name: &str, min_len: usize, samples: fn(bool) -> Vec<SampleT<T>>) -> Codec
where
    T: Serialize + DeserializeOwned + Debug + 'static,
{
    mk(
        &format!("abi-dto:{name}"),
        "abi-dto",
        true,
        min_len,
        "crates/echo-wasm-abi/src/lib.rs: encode_cbor/decode_cbor<T> (kernel_port.rs DTOs)",
        |b: &[u8]| abi::decode_cbor::<T>(b),
        |v: &T, _hint: &[u8]| abi::encode_cbor(v).map_err(|e| format!("{e:?}")),
        samples,
    )
    .with_prefilter(crate::cbor_count_exceeds_input)
}

fn h32(x: u8) -> [u8; 32] {
    let mut a = [x; 32];
    a[31] = x.wrapping_add(1);
    a
}

fn s_abi_error(_: bool) -> Vec<SampleT<kp::AbiError>> {
    vec![
        SampleT::new("code0-empty", kp::AbiError { code: 0, message: String::new() }),
        SampleT::new("code7", kp::AbiError { code: 7, message: "bad".into() }),
        SampleT::new("codemax", kp::AbiError { code: u32::MAX, message: "é".repeat(12) }),
    ]
}
fn s_head_info(_: bool) -> Vec<SampleT<kp::HeadInfo>> {
    vec![
        SampleT::new(
            "tick0",
            kp::HeadInfo { worldline_tick: kp::WorldlineTick(0), commit_global_tick: None, state_root: vec![], commit_id: vec![] },
        ),
        SampleT::new(
            "tickmax",
            kp::HeadInfo {
                worldline_tick: kp::WorldlineTick(u64::MAX),
                commit_global_tick: Some(kp::GlobalTick(1 << 32)),
                state_root: vec![0, 23, 24, 255],
                commit_id: vec![1; 32],
            },
        ),
    ]
}
fn sched_status(i: u8) -> kp::SchedulerStatus {
    match i {
        0 => kp::SchedulerStatus {
            state: kp::SchedulerState::Inactive,
            active_mode: None,
            work_state: kp::WorkState::Quiescent,
            run_id: None,
            latest_cycle_global_tick: None,
            latest_commit_global_tick: None,
            last_quiescent_global_tick: None,
            last_run_completion: None,
        },
        _ => kp::SchedulerStatus {
            state: kp::SchedulerState::Running,
            active_mode: Some(kp::SchedulerMode::UntilIdle { cycle_limit: Some(24) }),
            work_state: kp::WorkState::RunnablePending,
            run_id: Some(kp::RunId(255)),
            latest_cycle_global_tick: Some(kp::GlobalTick(256)),
            latest_commit_global_tick: Some(kp::GlobalTick(65535)),
            last_quiescent_global_tick: Some(kp::GlobalTick(65536)),
            last_run_completion: Some(kp::RunCompletion::CycleLimitReached),
        },
    }
}
fn s_sched(_: bool) -> Vec<SampleT<kp::SchedulerStatus>> {
    vec![SampleT::new("inactive", sched_status(0)), SampleT::new("running", sched_status(1))]
}
fn s_dispatch(_: bool) -> Vec<SampleT<kp::DispatchResponse>> {
    vec![
        SampleT::new(
            "rejected",
            kp::DispatchResponse { accepted: false, intent_id: vec![], submission_id: None, submission_generation: None, scheduler_status: sched_status(0) },
        ),
        SampleT::new(
            "accepted",
            kp::DispatchResponse {
                accepted: true,
                intent_id: vec![9; 32],
                submission_id: Some(vec![1, 2]),
                submission_generation: Some(u64::MAX),
                scheduler_status: sched_status(1),
            },
        ),
    ]
}
fn abi_head(x: u8) -> kp::WriterHeadKey {
    kp::WriterHeadKey { worldline_id: kp::WorldlineId::from_bytes(h32(x)), head_id: kp::HeadId::from_bytes(h32(x.wrapping_add(7))) }
}
fn s_control(_: bool) -> Vec<SampleT<kp::ControlIntentV1>> {
    vec![
        SampleT::new("stop", kp::ControlIntentV1::Stop),
        SampleT::new("start-none", kp::ControlIntentV1::Start { mode: kp::SchedulerMode::UntilIdle { cycle_limit: None } }),
        SampleT::new("start-limit", kp::ControlIntentV1::Start { mode: kp::SchedulerMode::UntilIdle { cycle_limit: Some(u32::MAX) } }),
        SampleT::new(
            "eligibility",
            kp::ControlIntentV1::SetHeadEligibility { head: abi_head(1), eligibility: kp::HeadEligibility::Admitted },
        ),
    ]
}
fn s_head_key(_: bool) -> Vec<SampleT<kp::WriterHeadKey>> {
    vec![SampleT::new("k1", abi_head(1)), SampleT::new("k2", abi_head(0xfe))]
}
fn obs_coord(at: kp::ObservationAt) -> kp::ObservationCoordinate {
    kp::ObservationCoordinate { worldline_id: kp::WorldlineId::from_bytes(h32(3)), at }
}
fn s_obs_request(_: bool) -> Vec<SampleT<kp::ObservationRequest>> {
    let mut v = Vec::new();
    let combos: Vec<(kp::ObservationFrame, kp::ObservationProjection)> = vec![
        (kp::ObservationFrame::CommitBoundary, kp::ObservationProjection::Head),
        (kp::ObservationFrame::CommitBoundary, kp::ObservationProjection::Snapshot),
        (kp::ObservationFrame::RecordedTruth, kp::ObservationProjection::TruthChannels { channels: None }),
        (kp::ObservationFrame::RecordedTruth, kp::ObservationProjection::TruthChannels { channels: Some(vec![vec![], vec![1, 2]]) }),
        (kp::ObservationFrame::QueryView, kp::ObservationProjection::Query { query_id: 24, vars_bytes: vec![0xa0] }),
    ];
    for (i, (f, p)) in combos.into_iter().enumerate() {
        let at = if i % 2 == 0 { kp::ObservationAt::Frontier } else { kp::ObservationAt::Tick { worldline_tick: kp::WorldlineTick(255) } };
        if let Ok(r) = kp::ObservationRequest::builtin_one_shot(obs_coord(at), f, p) {
            v.push(SampleT::new(format!("one-shot{i}"), r));
        }
    }
    if let Ok(mut r) = kp::ObservationRequest::builtin_one_shot(
        obs_coord(kp::ObservationAt::Frontier),
        kp::ObservationFrame::CommitBoundary,
        kp::ObservationProjection::Head,
    ) {
        r.observer_plan = kp::ReadingObserverPlan::Authored {
            plan: Box::new(kp::AuthoredObserverPlan {
                plan_id: kp::ObserverPlanId::from_bytes(h32(5)),
                artifact_hash: vec![1],
                schema_hash: vec![2],
                state_schema_hash: vec![],
                update_law_hash: vec![3, 4],
                emission_law_hash: vec![5],
            }),
        };
        r.observer_instance = Some(kp::ObserverInstanceRef {
            instance_id: kp::ObserverInstanceId::from_bytes(h32(6)),
            plan_id: kp::ObserverPlanId::from_bytes(h32(5)),
            state_hash: vec![7],
        });
        r.budget = kp::ObservationReadBudget::Bounded { max_payload_bytes: 65536, max_witness_refs: 23 };
        r.rights = kp::ObservationRights::CapabilityScoped { capability: kp::OpticCapabilityId::from_bytes(h32(8)) };
        v.push(SampleT::new("authored-bounded-scoped", r));
    }
    v
}
fn s_settlement(_: bool) -> Vec<SampleT<kp::SettlementRequest>> {
    vec![SampleT::new("s", kp::SettlementRequest { strand_id: kp::StrandId::from_bytes(h32(9)) })]
}
fn s_registry(_: bool) -> Vec<SampleT<kp::RegistryInfo>> {
    vec![
        SampleT::new("none", kp::RegistryInfo { codec_id: None, registry_version: None, schema_sha256_hex: None, abi_version: kp::ABI_VERSION }),
        SampleT::new(
            "some",
            kp::RegistryInfo { codec_id: Some("c".into()), registry_version: Some("1".into()), schema_sha256_hex: Some("ab".into()), abi_version: 0 },
        ),
    ]
}
fn s_err_env(_: bool) -> Vec<SampleT<kp::ErrEnvelope>> {
    vec![SampleT::new("e", kp::ErrEnvelope::new(6, "codec".into()))]
}
fn s_ok_env(_: bool) -> Vec<SampleT<kp::OkEnvelope<kp::AbiError>>> {
    vec![SampleT::new("ok-flatten", kp::OkEnvelope::new(kp::AbiError { code: 1, message: "m".into() }))]
}
fn s_read_budget(_: bool) -> Vec<SampleT<kp::OpticReadBudget>> {
    vec![
        SampleT::new("default", kp::OpticReadBudget::default()),
        SampleT::new(
            "all",
            kp::OpticReadBudget { max_bytes: Some(0), max_nodes: Some(23), max_ticks: Some(1 << 53), max_attachments: Some(u64::MAX) },
        ),
    ]
}
fn s_coordinate(_: bool) -> Vec<SampleT<kp::EchoCoordinate>> {
    let pr = kp::ProvenanceRef { worldline_id: kp::WorldlineId::from_bytes(h32(1)), worldline_tick: kp::WorldlineTick(24), commit_hash: vec![4; 32] };
    vec![
        SampleT::new(
            "worldline-frontier",
            kp::EchoCoordinate::Worldline { worldline_id: kp::WorldlineId::from_bytes(h32(1)), at: kp::CoordinateAt::Frontier },
        ),
        SampleT::new(
            "strand-tick",
            kp::EchoCoordinate::Strand {
                strand_id: kp::StrandId::from_bytes(h32(2)),
                at: kp::CoordinateAt::Tick { worldline_tick: kp::WorldlineTick(256) },
                parent_basis: None,
            },
        ),
        SampleT::new(
            "strand-prov",
            kp::EchoCoordinate::Strand {
                strand_id: kp::StrandId::from_bytes(h32(2)),
                at: kp::CoordinateAt::Provenance { reference: pr.clone() },
                parent_basis: Some(pr),
            },
        ),
        SampleT::new(
            "braid",
            kp::EchoCoordinate::Braid { braid_id: kp::BraidId::from_bytes(h32(3)), projection_digest: vec![], member_count: 2 },
        ),
        SampleT::new("retained", kp::EchoCoordinate::RetainedReading { key: kp::RetainedReadingKey::from_bytes(h32(4)) }),
    ]
}
// legacy DTOs of lib.rs
fn s_legacy_value(_: bool) -> Vec<SampleT<abi::Value>> {
    vec![
        SampleT::new("null", abi::Value::Null),
        SampleT::new("bool", abi::Value::Bool(true)),
        SampleT::new("num-min", abi::Value::Num(i64::MIN)),
        SampleT::new("num-24", abi::Value::Num(24)),
        SampleT::new("str", abi::Value::Str("x".into())),
    ]
}
fn s_legacy_edge(_: bool) -> Vec<SampleT<abi::Edge>> {
    vec![SampleT::new("ab", abi::Edge { from: "a".into(), to: "b".into() }), SampleT::new("empty", abi::Edge { from: String::new(), to: String::new() })]
}
fn legacy_node(id: &str, fields: &[(&str, abi::Value)]) -> abi::Node {
    let mut m = BTreeMap::new();
    for (k, v) in fields {
        m.insert((*k).to_string(), v.clone());
    }
    abi::Node { id: id.into(), fields: m }
}
fn s_legacy_graph(_: bool) -> Vec<SampleT<abi::WarpGraph>> {
    let mut g = abi::WarpGraph::default();
    let empty = SampleT::new("empty", abi::WarpGraph::default());
    g.nodes.insert("n1".into(), legacy_node("n1", &[("b", abi::Value::Num(1)), ("aa", abi::Value::Null)]));
    g.nodes.insert("n0".into(), legacy_node("n0", &[]));
    g.edges.push(abi::Edge { from: "n0".into(), to: "n1".into() });
    // same graph, nodes inserted in the other order
    let mut g2 = abi::WarpGraph::default();
    g2.nodes.insert("n0".into(), legacy_node("n0", &[]));
    g2.nodes.insert("n1".into(), legacy_node("n1", &[("aa", abi::Value::Null), ("b", abi::Value::Num(1))]));
    g2.edges.push(abi::Edge { from: "n0".into(), to: "n1".into() });
    vec![empty, SampleT::new("two-nodes", g).variant("other-insertion-order", g2)]
}
fn s_legacy_rewrite(_: bool) -> Vec<SampleT<abi::Rewrite>> {
    vec![
        SampleT::new(
            "set",
            abi::Rewrite {
                id: 1,
                op: abi::SemanticOp::Set,
                target: "n".into(),
                subject: Some("f".into()),
                old_value: None,
                new_value: Some(abi::Value::Num(-1)),
            },
        ),
        SampleT::new(
            "delete",
            abi::Rewrite { id: u64::MAX, op: abi::SemanticOp::DeleteNode, target: String::new(), subject: None, old_value: None, new_value: None },
        ),
    ]
}

// ---------------------------------------------------------------------------------------------
// Envelopes, intent log, LE codec
// ---------------------------------------------------------------------------------------------

fn envelope_ref_pack(op: u32, vars: &[u8]) -> Vec<u8> {
    let mut out = b"EINT".to_vec();
    out.extend_from_slice(&op.to_le_bytes());
    out.extend_from_slice(&(vars.len() as u32).to_le_bytes());
    out.extend_from_slice(vars);
    out
}

fn s_envelope(thorough: bool) -> Vec<SampleT<(u32, Vec<u8>)>> {
    let mut v = Vec::new();
    let ops: Vec<u32> = vec![0, 1, 255, 256, 65535, 65536, u32::MAX - 2, abi::CONTROL_INTENT_V1_OP_ID, abi::IMPORT_SUFFIX_INTENT_V1_OP_ID, u32::MAX];
    let mut payloads: Vec<Vec<u8>> = vec![vec![], vec![0], vec![0xa0], vec![1, 2], vec![7; 23], vec![7; 24], vec![8; 255], vec![9; 256]];
    if thorough {
        payloads.push(vec![1; 65535]);
        payloads.push(vec![2; 65536]);
    }
    for op in &ops {
        for p in &payloads {
            let s = SampleT::new(format!("op{op}:len{}", p.len()), (*op, p.clone()));
            v.push(s);
        }
    }
    v
}

#[derive(Debug, Clone, PartialEq)]
struct LeRec {
    a: u8,
    b: u16,
    c: u32,
    d: i32,
    e: i64,
    g: bool,
    s: String,
    bytes: Vec<u8>,
    opt: Option<u32>,
    list: Vec<u16>,
    flags: Vec<bool>,
    arr: [u8; 4],
}

impl Encode for LeRec {
    fn encode(&self, w: &mut Writer) -> Result<(), le::CodecError> {
        w.write_u8(self.a);
        w.write_u16_le(self.b);
        w.write_u32_le(self.c);
        w.write_i32_le(self.d);
        w.write_i64_le(self.e);
        w.write_bool(self.g);
        w.write_string(&self.s, 300)?;
        w.write_len_prefixed_bytes(&self.bytes)?;
        w.write_option(self.opt, |w, v| {
            w.write_u32_le(v);
            Ok(())
        })?;
        w.write_list(&self.list, |w, v| {
            w.write_u16_le(*v);
            Ok(())
        })?;
        w.write_list(&self.flags, |w, v| {
            w.write_bool(*v);
            Ok(())
        })?;
        w.write_bytes(&self.arr);
        Ok(())
    }
}
impl Decode for LeRec {
    fn decode(r: &mut Reader<'_>) -> Result<Self, le::CodecError> {
        Ok(LeRec {
            a: r.read_u8()?,
            b: r.read_u16_le()?,
            c: r.read_u32_le()?,
            d: r.read_i32_le()?,
            e: r.read_i64_le()?,
            g: r.read_bool()?,
            s: r.read_string(300)?,
            bytes: r.read_len_prefixed_bytes(300)?.to_vec(),
            opt: r.read_option(|r| r.read_u32_le())?,
            list: r.read_list(|r| r.read_u16_le())?,
            flags: r.read_list(|r| r.read_bool())?,
            arr: r.read_byte_array::<4>()?,
        })
    }
}

macro_rules! le_wrap {
    ($name:ident, $t:ty, $enc:expr, $dec:expr) => {
        #[derive(Debug, Clone, PartialEq)]
        struct $name($t);
        impl Encode for $name {
            fn encode(&self, w: &mut Writer) -> Result<(), le::CodecError> {
                let f: fn(&mut Writer, &$t) -> Result<(), le::CodecError> = $enc;
                f(w, &self.0)
            }
        }
        impl Decode for $name {
            fn decode(r: &mut Reader<'_>) -> Result<Self, le::CodecError> {
                let f: fn(&mut Reader<'_>) -> Result<$t, le::CodecError> = $dec;
                f(r).map($name)
            }
        }
    };
}

le_wrap!(LeU8, u8, |w, v| { w.write_u8(*v); Ok(()) }, |r| r.read_u8());
le_wrap!(LeU16, u16, |w, v| { w.write_u16_le(*v); Ok(()) }, |r| r.read_u16_le());
le_wrap!(LeBool, bool, |w, v| { w.write_bool(*v); Ok(()) }, |r| r.read_bool());
le_wrap!(LeOptU8, Option<u8>, |w, v| w.write_option(*v, |w, x| { w.write_u8(x); Ok(()) }), |r| r.read_option(|r| r.read_u8()));
le_wrap!(LeF32, f32, |w, v| { w.write_f32_le(*v); Ok(()) }, |r| r.read_f32_le());
le_wrap!(LeString, String, |w, v| w.write_string(v, 64), |r| r.read_string(64));
le_wrap!(LeListU8, Vec<u8>, |w, v| w.write_list(v, |w, x| { w.write_u8(*x); Ok(()) }), |r| r.read_list(|r| r.read_u8()));
le_wrap!(LeListBool, Vec<bool>, |w, v| w.write_list(v, |w, x| { w.write_bool(*x); Ok(()) }), |r| r.read_list(|r| r.read_bool()));
le_wrap!(LeI64, i64, |w, v| { w.write_i64_le(*v); Ok(()) }, |r| r.read_i64_le());

fn le_codec<T>(name: &str, canonical: bool, min_len: usize, samples: fn(bool) -> Vec<SampleT<T>>) -> Codec
where
    T: Encode + Decode + Debug + 'static,
{
    mk(
        &format!("le-codec:{name}"),
        "le-codec",
        canonical,
        min_len,
        "crates/echo-wasm-abi/src/codec.rs: Reader/Writer, encode_to_vec/decode_from_bytes",
        |b: &[u8]| le::decode_from_bytes::<T>(b),
        |v: &T, _h: &[u8]| le::encode_to_vec(v).map_err(|e| format!("{e:?}")),
        samples,
    )
}

fn s_le_f32(_: bool) -> Vec<SampleT<LeF32>> {
    let canon_nan = f32::from_bits(0x7fc0_0000);
    vec![
        SampleT::new("1.5", LeF32(1.5)),
        SampleT::new("-1.5", LeF32(-1.5)),
        SampleT::new("+0", LeF32(0.0)),
        SampleT::new("+inf", LeF32(f32::INFINITY)),
        SampleT::new("-inf", LeF32(f32::NEG_INFINITY)),
        SampleT::new("min-normal", LeF32(f32::MIN_POSITIVE)),
        SampleT::new("max", LeF32(f32::MAX)),
        SampleT::new("nan-canonical", LeF32(canon_nan)),
        // documented writer-side normalisation (not violations): −0 → +0, subnormal → +0, NaN payloads → 0x7fc00000
        SampleT::new("-0", LeF32(-0.0)).outside(Some(format!("{:?}", LeF32(0.0)))),
        SampleT::new("subnormal", LeF32(f32::from_bits(1))).outside(Some(format!("{:?}", LeF32(0.0)))),
        SampleT::new("nan-payload", LeF32(f32::from_bits(0x7f80_0001))).outside(Some(format!("{:?}", LeF32(canon_nan)))),
        SampleT::new("nan-neg", LeF32(f32::from_bits(0xffc0_0000))).outside(Some(format!("{:?}", LeF32(canon_nan)))),
    ]
}

fn s_le_rec(_: bool) -> Vec<SampleT<LeRec>> {
    vec![
        SampleT::new(
            "zero",
            LeRec { a: 0, b: 0, c: 0, d: 0, e: 0, g: false, s: String::new(), bytes: vec![], opt: None, list: vec![], flags: vec![], arr: [0; 4] },
        ),
        SampleT::new(
            "mixed",
            LeRec {
                a: 255,
                b: 65535,
                c: u32::MAX,
                d: i32::MIN,
                e: i64::MIN,
                g: true,
                s: "é€".into(),
                bytes: vec![1, 2, 3],
                opt: Some(256),
                list: vec![0, 1, 65535],
                flags: vec![true, false],
                arr: [1, 2, 3, 4],
            },
        ),
    ]
}

fn elog_decode(b: &[u8]) -> Result<(abi::ElogHeader, Vec<Vec<u8>>), String> {
    let mut c = std::io::Cursor::new(b);
    let h = abi::read_elog_header(&mut c).map_err(|e| format!("{:?}", e.kind()))?;
    let mut frames = Vec::new();
    loop {
        match abi::read_elog_frame(&mut c) {
            Ok(Some(f)) => frames.push(f),
            Ok(None) => break,
            Err(e) => return Err(format!("{:?}", e.kind())),
        }
    }
    Ok((h, frames))
}
fn elog_encode(v: &(abi::ElogHeader, Vec<Vec<u8>>)) -> Result<Vec<u8>, String> {
    let mut out = Vec::new();
    abi::write_elog_header(&mut out, &v.0).map_err(|e| format!("{:?}", e.kind()))?;
    for f in &v.1 {
        abi::write_elog_frame(&mut out, f).map_err(|e| format!("{:?}", e.kind()))?;
    }
    Ok(out)
}
fn s_elog(_: bool) -> Vec<SampleT<(abi::ElogHeader, Vec<Vec<u8>>)>> {
    let h = abi::ElogHeader { schema_hash: h32(0xaa), flags: 0 };
    let f1 = envelope_ref_pack(1, &[0xa0]);
    let f2 = envelope_ref_pack(2, &[]);
    vec![
        SampleT::new("no-frames", (h.clone(), vec![])),
        SampleT::new("one-frame", (h.clone(), vec![f1.clone()])),
        SampleT::new("two-frames", (h.clone(), vec![f1, f2])),
        SampleT::new("empty-frame", (h.clone(), vec![vec![]])),
        // writer does not refuse non-zero flags although the reader does: outside the domain
        SampleT::new("flags-nonzero", (abi::ElogHeader { schema_hash: h32(1), flags: 1 }, vec![])).outside(None),
    ]
}

pub fn codecs() -> Vec<Codec> {
    let mut t = Vec::new();
    t.push(mk(
        "abi-cbor",
        "abi-cbor",
        true,
        1,
        "crates/echo-wasm-abi/src/canonical.rs: encode_value/decode_value",
        |b: &[u8]| abi::decode_value(b),
        |v: &Value, _h: &[u8]| abi::encode_value(v).map_err(|e| format!("{e:?}")),
        abi_values,
    ).with_prefilter(crate::cbor_count_exceeds_input));
    t.push(dto::<kp::AbiError>("AbiError", 8, s_abi_error));
    t.push(dto::<kp::HeadInfo>("HeadInfo", 16, s_head_info));
    t.push(dto::<kp::SchedulerStatus>("SchedulerStatus", 32, s_sched));
    t.push(dto::<kp::DispatchResponse>("DispatchResponse", 32, s_dispatch));
    t.push(dto::<kp::ControlIntentV1>("ControlIntentV1", 11, s_control));
    t.push(dto::<kp::WriterHeadKey>("WriterHeadKey", 70, s_head_key));
    t.push(dto::<kp::ObservationRequest>("ObservationRequest", 100, s_obs_request));
    t.push(dto::<kp::SettlementRequest>("SettlementRequest", 40, s_settlement));
    t.push(dto::<kp::RegistryInfo>("RegistryInfo", 16, s_registry));
    t.push(dto::<kp::ErrEnvelope>("ErrEnvelope", 16, s_err_env));
    t.push(dto::<kp::OkEnvelope<kp::AbiError>>("OkEnvelope<AbiError>", 16, s_ok_env));
    t.push(dto::<kp::OpticReadBudget>("OpticReadBudget", 1, s_read_budget));
    t.push(dto::<kp::EchoCoordinate>("EchoCoordinate", 40, s_coordinate));
    t.push(dto::<abi::Value>("legacy.Value", 12, s_legacy_value));
    t.push(dto::<abi::Edge>("legacy.Edge", 12, s_legacy_edge));
    t.push(dto::<abi::WarpGraph>("legacy.WarpGraph", 14, s_legacy_graph));
    t.push(dto::<abi::Rewrite>("legacy.Rewrite", 40, s_legacy_rewrite));

    t.push(mk(
        "intent-envelope-v1",
        "intent-envelope",
        true,
        12,
        "crates/echo-wasm-abi/src/lib.rs: pack_intent_v1/unpack_intent_v1",
        |b: &[u8]| abi::unpack_intent_v1(b).map(|(op, vars)| (op, vars.to_vec())),
        |v: &(u32, Vec<u8>), _h: &[u8]| match abi::pack_intent_v1(v.0, &v.1) {
            Ok(b) => Ok(b),
            // reserved op ids have no public raw packer (pack_control/import take typed payloads):
            // the layout documented on pack_intent_v1 is used as the canonical form for them
            Err(abi::EnvelopeError::ReservedOpId) => Ok(envelope_ref_pack(v.0, &v.1)),
            Err(e) => Err(format!("{e:?}")),
        },
        s_envelope,
    ));
    t.push(mk(
        "control-intent-envelope-v1",
        "intent-envelope",
        true,
        23,
        "crates/echo-wasm-abi/src/lib.rs: pack_control_intent_v1/unpack_control_intent_v1",
        |b: &[u8]| abi::unpack_control_intent_v1(b),
        |v: &kp::ControlIntentV1, _h: &[u8]| abi::pack_control_intent_v1(v).map_err(|e| format!("{e:?}")),
        s_control,
    ).with_prefilter(crate::eint_cbor_count_exceeds_input));
    t.push(mk(
        "eintlog",
        "eintlog",
        true,
        48,
        "crates/echo-wasm-abi/src/eintlog.rs: write/read_elog_header + write/read_elog_frame",
        elog_decode,
        |v: &(abi::ElogHeader, Vec<Vec<u8>>), _h: &[u8]| elog_encode(v),
        s_elog,
    ));

    t.push(le_codec::<LeU8>("u8", true, 1, |_| vec![SampleT::new("0", LeU8(0)), SampleT::new("255", LeU8(255))]));
    t.push(le_codec::<LeU16>("u16", true, 2, |_| vec![SampleT::new("0", LeU16(0)), SampleT::new("256", LeU16(256)), SampleT::new("max", LeU16(65535))]));
    t.push(le_codec::<LeI64>("i64", true, 8, |_| vec![SampleT::new("0", LeI64(0)), SampleT::new("min", LeI64(i64::MIN)), SampleT::new("-1", LeI64(-1))]));
    t.push(le_codec::<LeBool>("bool", true, 1, |_| vec![SampleT::new("f", LeBool(false)), SampleT::new("t", LeBool(true))]));
    t.push(le_codec::<LeOptU8>("option-u8", true, 1, |_| vec![SampleT::new("none", LeOptU8(None)), SampleT::new("some0", LeOptU8(Some(0))), SampleT::new("some255", LeOptU8(Some(255)))]));
    // the f32 reader documents that it canonicalises on decode (NaN payloads, −0, subnormals):
    // round-trip + writer determinism only; accepted-non-canonical inputs are counted, not flagged
    t.push(le_codec::<LeF32>("f32", false, 4, s_le_f32));
    t.push(le_codec::<LeString>("string", true, 4, |_| {
        vec![SampleT::new("empty", LeString(String::new())), SampleT::new("a", LeString("a".into())), SampleT::new("utf8", LeString("é€".into())), SampleT::new("max", LeString("x".repeat(64)))]
    }));
    t.push(le_codec::<LeListU8>("list-u8", true, 4, |_| {
        vec![SampleT::new("empty", LeListU8(vec![])), SampleT::new("one", LeListU8(vec![7])), SampleT::new("two", LeListU8(vec![0, 255])), SampleT::new("256", LeListU8(vec![1; 256]))]
    }));
    t.push(le_codec::<LeListBool>("list-bool", true, 4, |_| vec![SampleT::new("empty", LeListBool(vec![])), SampleT::new("tf", LeListBool(vec![true, false]))]));
    t.push(le_codec::<LeRec>("record", true, 41, s_le_rec));
    t
}
