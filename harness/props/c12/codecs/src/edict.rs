//! `edict.canonical-cbor/v1` (crates/echo-edict-canonical).

use crate::abi::boundary_ints;
use crate::{mk, Codec, SampleT};
use echo_edict_canonical::{decode_canonical_cbor_v1, encode_canonical_cbor_v1, CanonicalValueV1 as V};

fn txt(s: &str) -> V {
    V::Text(s.to_string())
}

fn sort_entries(mut e: Vec<(V, V)>) -> Vec<(V, V)> {
    e.sort_by_key(|(k, _)| encode_canonical_cbor_v1(k).unwrap_or_default());
    e
}

fn map_sample(label: String, entries: Vec<(V, V)>) -> SampleT<V> {
    let canon = sort_entries(entries);
    let mut s = SampleT::new(label, V::Map(canon.clone()));
    if canon.len() == 2 {
        s = s.variant("swapped", V::Map(vec![canon[1].clone(), canon[0].clone()]));
    }
    if canon.len() == 3 {
        for p in [[0usize, 2, 1], [1, 0, 2], [1, 2, 0], [2, 0, 1], [2, 1, 0]] {
            s = s.variant(format!("order{p:?}"), V::Map(p.iter().map(|&i| canon[i].clone()).collect()));
        }
    }
    s
}

fn nest(depth: usize, leaf: V, map: bool) -> V {
    let mut v = leaf;
    for _ in 0..depth {
        v = if map { V::Map(vec![(txt("k"), v)]) } else { V::Array(vec![v]) };
    }
    v
}

pub fn edict_values(thorough: bool) -> Vec<SampleT<V>> {
    let mut out = Vec::new();
    out.push(SampleT::new("null", V::Null));
    out.push(SampleT::new("false", V::Bool(false)));
    out.push(SampleT::new("true", V::Bool(true)));
    let mut atoms: Vec<V> = vec![V::Null, V::Bool(true)];
    for i in boundary_ints() {
        // Edict's integer domain is the full CBOR major-0/1 range: −2^64 … 2^64−1
        out.push(SampleT::new(format!("int:{i}"), V::Integer(i)));
        atoms.push(V::Integer(i));
    }
    // outside the range: the encoder must refuse
    out.push(SampleT::new("int:2^64", V::Integer(1i128 << 64)).outside(None));
    out.push(SampleT::new("int:-2^64-1", V::Integer(-(1i128 << 64) - 1)).outside(None));
    let mut lens = vec![0usize, 1, 2, 23, 24, 255, 256];
    if thorough {
        lens.push(65535);
        lens.push(65536);
    }
    for l in lens {
        let s = "s".repeat(l);
        out.push(SampleT::new(format!("text:len{l}"), V::Text(s.clone())));
        out.push(SampleT::new(format!("bytes:len{l}"), V::Bytes(s.into_bytes())));
        if l <= 24 {
            atoms.push(V::Text("s".repeat(l)));
            atoms.push(V::Bytes(vec![0xfe; l]));
        }
    }
    out.push(SampleT::new("text:utf8", txt("é€")));
    let sub: Vec<V> = vec![V::Integer(0), V::Integer(24), V::Integer(-1), txt(""), txt("a"), V::Bytes(vec![]), V::Bytes(vec![1]), V::Bool(false), V::Null, V::Array(vec![]), V::Map(vec![])];
    out.push(SampleT::new("array:[]", V::Array(vec![])));
    for (i, a) in atoms.iter().enumerate() {
        out.push(SampleT::new(format!("array:[a{i}]"), V::Array(vec![a.clone()])));
    }
    for (i, x) in sub.iter().enumerate() {
        for (j, y) in sub.iter().enumerate() {
            out.push(SampleT::new(format!("array:[#{i},#{j}]"), V::Array(vec![x.clone(), y.clone()])));
        }
        out.push(SampleT::new(format!("array:depth2:#{i}"), nest(2, x.clone(), false)));
        out.push(SampleT::new(format!("array:depth3:#{i}"), nest(3, x.clone(), false)));
        out.push(SampleT::new(format!("map:depth3:#{i}"), nest(3, x.clone(), true)));
    }
    for n in [23usize, 24, 25, 256] {
        out.push(SampleT::new(format!("array:{n}x0"), V::Array(vec![V::Integer(0); n])));
    }
    let keys: Vec<V> = vec![V::Integer(0), V::Integer(23), V::Integer(24), V::Integer(-1), txt(""), txt("a"), txt("b"), txt("aa"), V::Bytes(vec![]), V::Bytes(vec![0]), V::Bool(true), V::Null, V::Array(vec![V::Integer(0)])];
    out.push(SampleT::new("map:{}", V::Map(vec![])));
    for (i, k) in keys.iter().enumerate() {
        for (j, v) in sub.iter().enumerate() {
            out.push(map_sample(format!("map:{{k{i}:#{j}}}"), vec![(k.clone(), v.clone())]));
        }
        for j in (i + 1)..keys.len() {
            out.push(map_sample(format!("map:{{k{i},k{j}}}"), vec![(k.clone(), V::Integer(1)), (keys[j].clone(), txt("v"))]));
        }
    }
    let k5 = [V::Integer(24), txt("b"), txt("aa"), V::Bytes(vec![0]), V::Integer(-1)];
    for i in 0..5 {
        for j in (i + 1)..5 {
            for l in (j + 1)..5 {
                out.push(map_sample(format!("map:3:{i}{j}{l}"), vec![(k5[i].clone(), V::Integer(0)), (k5[j].clone(), V::Integer(1)), (k5[l].clone(), V::Integer(2))]));
            }
        }
    }
    out.push(map_sample("map:24".into(), (0..24).map(|i| (V::Integer(i), V::Integer(i))).collect()));
    // published nesting bound: a scalar in exactly 128 containers is accepted, 129 refused
    out.push(SampleT::new("array:depth128", nest(128, V::Integer(0), false)));
    out.push(SampleT::new("map:depth128", nest(128, V::Integer(0), true)));
    out.push(SampleT::new("array:depth129", nest(129, V::Integer(0), false)).outside(None));
    out.push(SampleT::new("map:dup-key", V::Map(vec![(txt("a"), V::Null), (txt("a"), V::Null)])).outside(None));
    out
}

pub fn codecs() -> Vec<Codec> {
    vec![mk(
        "edict-cbor",
        "edict-cbor",
        true,
        1,
        "crates/echo-edict-canonical/src/lib.rs: encode_canonical_cbor_v1/decode_canonical_cbor_v1",
        |b: &[u8]| decode_canonical_cbor_v1(b).map_err(|e| format!("{:?}", e.kind())),
        |v: &V, _h: &[u8]| encode_canonical_cbor_v1(v).map_err(|e| format!("{:?}", e.kind())),
        edict_values,
    )]
}
