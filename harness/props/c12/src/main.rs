//! Property check C12 — canonical encodings are bijective (see /verif/DESIGN.md §4 "C12").
//!
//! Exploration over the shared codec table (`codecs` crate):
//!  (a) round trip + writer determinism over bounded-exhaustive value generators;
//!  (b) accepted ⇒ canonical over EVERY byte string of length ≤ 2 (quick) / ≤ 3 (thorough);
//!  (c) every single-position mutation of every encoding from (a), same oracle;
//!  (d) every NaN-class float header (all f16 NaNs; f32/f64 sign × mantissa alphabet) and every
//!      boundary float / integer / length at every argument width;
//!  (e) structure-aware alternative spellings of every DTO encoding.

use codecs::classify::{classify, dto_shape_mutants, nan_inputs, width_inputs};
use codecs::mutate::for_each_mutant;
use codecs::{Codec, Decoded};
use mc::{hex, json, unhex, Level, Report};
use rayon::prelude::*;
use std::collections::BTreeMap;

const MUTATION_WINDOW: usize = 8192;

struct Enc {
    ci: usize,
    label: String,
    bytes: Vec<u8>,
    repr: String,
}

#[derive(Default)]
struct Local {
    accepted: BTreeMap<usize, u64>,
    rejected: BTreeMap<usize, u64>,
    err_kinds: BTreeMap<(usize, String), u64>,
    skipped_unsafe: BTreeMap<usize, u64>,
    panicked: BTreeMap<(usize, String), u64>,
    violations: Vec<(String, serde_json::Value)>,
    noncanon_documented: BTreeMap<String, u64>,
    census: BTreeMap<(String, String), (u64, Vec<u8>, Vec<u8>)>,
    keys: Vec<u128>,
    evals: u64,
    samples: Vec<serde_json::Value>,
}

impl Local {
    fn merge(&mut self, o: Local) {
        for (k, v) in o.accepted {
            *self.accepted.entry(k).or_default() += v;
        }
        for (k, v) in o.rejected {
            *self.rejected.entry(k).or_default() += v;
        }
        for (k, v) in o.err_kinds {
            *self.err_kinds.entry(k).or_default() += v;
        }
        for (k, v) in o.skipped_unsafe {
            *self.skipped_unsafe.entry(k).or_default() += v;
        }
        for (k, v) in o.panicked {
            *self.panicked.entry(k).or_default() += v;
        }
        for (k, v) in o.noncanon_documented {
            *self.noncanon_documented.entry(k).or_default() += v;
        }
        for (k, (n, lo, hi)) in o.census {
            let e = self.census.entry(k).or_insert((0, lo.clone(), hi.clone()));
            e.0 += n;
            if lo < e.1 {
                e.1 = lo;
            }
            if hi > e.2 {
                e.2 = hi;
            }
        }
        self.violations.extend(o.violations);
        self.keys.extend(o.keys);
        self.evals += o.evals;
        for s in o.samples {
            if self.samples.len() < 4 {
                self.samples.push(s);
            }
        }
    }
}

/// The accepted ⇒ canonical oracle on one (codec, input) pair.  `orig` = (bytes, repr) of the valid
/// encoding the input was mutated from, if any.
fn judge(table: &[Codec], ci: usize, input: &[u8], phase: &str, orig: Option<(&[u8], &str)>, l: &mut Local) {
    let c = &table[ci];
    l.evals += 1;
    if let Some(f) = c.unsafe_in_process {
        if f(input) {
            // declared collection count > remaining input: never a valid encoding; the real decoder
            // would pre-allocate from it (defect D4, decided by C13 in a child process)
            *l.skipped_unsafe.entry(ci).or_default() += 1;
            return;
        }
    }
    let res = match mc::catch(|| (c.decode)(input)) {
        Ok(x) => x,
        Err(msg) => {
            // a panicking decoder did not accept the input; totality is C13's property
            *l.panicked.entry((ci, msg.chars().take(60).collect())).or_default() += 1;
            return;
        }
    };
    match res {
        Err(kind) => {
            *l.rejected.entry(ci).or_default() += 1;
            *l.err_kinds.entry((ci, kind)).or_default() += 1;
        }
        Ok(Decoded { repr, reencoded }) => {
            *l.accepted.entry(ci).or_default() += 1;
            let mut key = c.name.as_bytes().to_vec();
            key.push(0);
            key.extend_from_slice(input);
            l.keys.push(Report::key(&key));
            let canonical_ok = reencoded.as_deref().ok() == Some(input);
            if l.samples.len() < 2 {
                l.samples.push(json!({"phase": phase, "codec": c.name, "input_hex": hex(&input[..input.len().min(48)]), "accepted_as": repr.chars().take(80).collect::<String>(), "reencodes_identically": canonical_ok}));
            }
            if !canonical_ok {
                let sig = classify(c.group, &c.name, input, &reencoded);
                if c.canonical {
                    let e = l.census.entry((sig.clone(), c.name.clone())).or_insert((0, input.to_vec(), input.to_vec()));
                    e.0 += 1;
                    if input < e.1.as_slice() {
                        e.1 = input.to_vec();
                    }
                    if input > e.2.as_slice() {
                        e.2 = input.to_vec();
                    }
                    if l.violations.len() < 64 {
                        l.violations.push((
                            sig,
                            json!({"case": {"codec": c.name, "input_hex": hex(input)}, "phase": phase,
                                   "decoded": repr.chars().take(200).collect::<String>(),
                                   "reencoded_hex": reencoded.as_ref().map(|b| hex(b)).unwrap_or_else(|e| format!("ENCODER-ERROR {e}")),
                                   "anchor": c.anchor}),
                        ));
                    } else {
                        l.violations.push((sig, json!({"case": {"codec": c.name, "input_hex": hex(input)}, "phase": phase})));
                    }
                } else {
                    *l.noncanon_documented.entry(sig).or_default() += 1;
                }
            } else if let Some((ob, orepr)) = orig {
                // canonical per re-encode, different bytes than the original: values must differ
                if c.canonical && ob != input && repr == orepr {
                    l.violations.push((
                        format!("{}:two-encodings-one-value", c.group),
                        json!({"case": {"codec": c.name, "input_hex": hex(input)}, "phase": phase, "original_hex": hex(ob), "value": repr.chars().take(200).collect::<String>()}),
                    ));
                }
            }
        }
    }
}

fn flush(r: &Report, table: &[Codec], l: Local, phase: &str) -> (BTreeMap<usize, u64>, BTreeMap<usize, u64>) {
    r.eval(l.evals);
    r.counter(&format!("{phase}:inputs_evaluated"), l.evals);
    r.nontrivial_many(l.keys.iter().copied());
    for s in &l.samples {
        r.sample(s.clone());
    }
    let mut kinds: BTreeMap<String, Vec<String>> = BTreeMap::new();
    for ((ci, k), n) in &l.err_kinds {
        r.outcome_n(&format!("rejected:{}:{}", table[*ci].group, k), *n);
        kinds.entry(table[*ci].name.clone()).or_default().push(format!("{k}×{n}"));
    }
    r.note(&format!("{phase}:typed_errors_per_codec"), json!(kinds));
    for (ci, n) in &l.skipped_unsafe {
        r.counter(&format!("{phase}:skipped_count_exceeds_input(C13-D4):{}", table[*ci].name), *n);
    }
    for ((ci, msg), n) in &l.panicked {
        r.counter(&format!("{phase}:decoder_panicked(C13):{}:{}", table[*ci].name, msg), *n);
    }
    let mut acc = serde_json::Map::new();
    for (ci, c) in table.iter().enumerate() {
        let a = l.accepted.get(&ci).copied().unwrap_or(0);
        let rj = l.rejected.get(&ci).copied().unwrap_or(0);
        acc.insert(c.name.clone(), json!({"accepted": a, "rejected": rj}));
    }
    r.note(&format!("{phase}:accepted_rejected_per_codec"), serde_json::Value::Object(acc));
    r.outcome_n(&format!("{phase}:accepted"), l.accepted.values().sum());
    r.outcome_n(&format!("{phase}:rejected"), l.rejected.values().sum());
    for (k, n) in &l.noncanon_documented {
        r.counter(&format!("{phase}:round-trip-only-codec-accepts-other-spelling(allowed):{k}"), *n);
    }
    let census: Vec<serde_json::Value> = l
        .census
        .iter()
        .map(|((sig, codec), (n, lo, hi))| json!({"signature": sig, "codec": codec, "accepted_noncanonical_inputs": n, "smallest_hex": hex(&lo[..lo.len().min(64)]), "largest_hex": hex(&hi[..hi.len().min(64)])}))
        .collect();
    r.note(&format!("{phase}:accepted_noncanonical_census"), json!(census));
    for (sig, d) in l.violations {
        r.violation(&sig, d);
    }
    (l.accepted, l.rejected)
}

fn phase_a(r: &Report, table: &[Codec]) -> Vec<Enc> {
    let thorough = r.thorough();
    let mut encs = Vec::new();
    let mut per_codec = serde_json::Map::new();
    for (ci, c) in table.iter().enumerate() {
        let samples = (c.samples)(thorough);
        let mut n_ok = 0u64;
        let mut n_variants = 0u64;
        for s in &samples {
            r.eval(1);
            let case = |extra: serde_json::Value| json!({"case": {"codec": c.name, "sample": s.label}, "value": s.repr.chars().take(200).collect::<String>(), "detail": extra, "anchor": c.anchor});
            let b = match &s.bytes {
                Err(e) => {
                    if s.in_domain {
                        r.violation(&format!("{}:encoder-refuses-in-domain-value", c.group), case(json!({"encoder_error": e})));
                    } else {
                        r.outcome("a:encoder_rejects_outside_domain");
                    }
                    continue;
                }
                Ok(b) => b,
            };
            if s.bytes_again.as_ref().ok() != Some(b) {
                r.violation(&format!("{}:encoder-nondeterministic", c.group), case(json!({"first": hex(b), "second": format!("{:?}", s.bytes_again.as_ref().map(|x| hex(x)))})));
            }
            for (vl, vb) in &s.variants {
                n_variants += 1;
                r.eval(1);
                if vb.as_ref().ok() != Some(b) {
                    r.violation(
                        &format!("{}:construction-order-changes-encoding", c.group),
                        case(json!({"variant": vl, "canonical_hex": hex(b), "variant_hex": format!("{:?}", vb.as_ref().map(|x| hex(x)))})),
                    );
                } else {
                    r.outcome("a:construction_order_variant_encodes_identically");
                }
            }
            match (c.decode)(b) {
                Err(kind) => {
                    if s.in_domain {
                        r.violation(&format!("{}:decoder-rejects-own-encoding", c.group), case(json!({"bytes_hex": hex(&b[..b.len().min(256)]), "error": kind})));
                    } else {
                        r.outcome("a:encoder_accepts_outside_domain:undecodable_output");
                        r.sample_force(json!({"encoder_accepts_outside_domain": c.name, "sample": s.label, "encoded_hex": hex(&b[..b.len().min(32)]), "decoder": format!("rejects ({kind})")}));
                    }
                }
                Ok(d) => {
                    if s.in_domain {
                        if d.repr != s.expect_repr {
                            r.violation(
                                &format!("{}:roundtrip-value-mismatch", c.group),
                                case(json!({"bytes_hex": hex(&b[..b.len().min(256)]), "decoded": d.repr.chars().take(200).collect::<String>()})),
                            );
                        } else {
                            n_ok += 1;
                            r.outcome("a:roundtrip_ok");
                        }
                    } else if d.repr == s.expect_repr && s.expect_repr != s.repr {
                        r.outcome("a:encoder_accepts_outside_domain:documented_normalisation");
                    } else if d.repr == s.repr {
                        r.outcome("a:encoder_accepts_outside_domain:roundtrips");
                    } else if s.expect_repr != s.repr {
                        r.violation(&format!("{}:documented-normalisation-broken", c.group), case(json!({"expected": s.expect_repr, "decoded": d.repr})));
                    } else {
                        r.outcome("a:encoder_accepts_outside_domain:lossy");
                        r.sample_force(json!({"encoder_accepts_outside_domain": c.name, "sample": s.label, "encoded_hex": hex(&b[..b.len().min(32)]), "decodes_as": d.repr.chars().take(80).collect::<String>()}));
                    }
                    if d.reencoded.as_deref().ok() != Some(b.as_slice()) {
                        r.violation(
                            &format!("{}:reencode-of-own-encoding-differs", c.group),
                            case(json!({"bytes_hex": hex(&b[..b.len().min(256)]), "reencoded": format!("{:?}", d.reencoded.as_ref().map(|x| hex(&x[..x.len().min(256)])))})),
                        );
                    }
                    let mut key = c.name.as_bytes().to_vec();
                    key.push(1);
                    key.extend_from_slice(b);
                    r.nontrivial(&key);
                    encs.push(Enc { ci, label: s.label.clone(), bytes: b.clone(), repr: d.repr });
                }
            }
        }
        if let Some(s) = samples.iter().find(|s| s.bytes.is_ok() && s.in_domain) {
            if ci % 7 == 0 {
                r.sample(json!({"phase": "a", "codec": c.name, "sample": s.label, "encoding_hex": hex(&s.bytes.as_ref().unwrap()[..s.bytes.as_ref().unwrap().len().min(40)])}));
            }
        }
        per_codec.insert(c.name.clone(), json!({"values": samples.len(), "roundtrip_ok": n_ok, "order_variants": n_variants, "canonical_form_codec": c.canonical}));
        r.guard(&format!("a:codec_has_roundtripping_samples:{}", c.name), n_ok >= 1);
    }
    // legacy forms that only have a reader
    for (name, label, bytes, repr) in codecs::legacy_encodings() {
        let Some(ci) = table.iter().position(|c| c.name == name) else {
            r.machinery_error(&format!("legacy encoding for unknown codec {name}"));
            continue;
        };
        r.eval(1);
        match (table[ci].decode)(&bytes) {
            Ok(d) => {
                if d.repr != repr {
                    r.violation("ingress-retention:legacy-form-decodes-to-different-value", json!({"case": {"codec": name, "input_hex": hex(&bytes)}, "sample": label}));
                }
                if d.reencoded.as_deref().ok() != Some(bytes.as_slice()) {
                    r.violation("ingress-retention:legacy-form-not-its-own-canonical-form", json!({"case": {"codec": name, "input_hex": hex(&bytes)}, "sample": label}));
                }
                r.outcome("a:legacy_form_roundtrip_ok");
                encs.push(Enc { ci, label, bytes, repr: d.repr });
            }
            Err(k) => r.violation("ingress-retention:legacy-canonical-form-rejected", json!({"case": {"codec": name, "input_hex": hex(&bytes)}, "sample": label, "error": k})),
        }
    }
    r.note("a:per_codec", serde_json::Value::Object(per_codec));
    r.counter("a:encodings_collected", encs.len() as u64);
    encs
}

fn phase_b(r: &Report, table: &[Codec]) {
    let max_len = r.pick(2usize, 3usize);
    let mut total = Local::default();
    // the empty string
    for ci in 0..table.len() {
        judge(table, ci, &[], "b", None, &mut total);
    }
    let mut strings = 1u64;
    for len in 1..=max_len {
        if r.over_budget_frac(0.6) {
            r.cap_hit(&format!("byte sweep stopped before length {len}; lengths < {len} fully covered"));
            break;
        }
        let shards: Vec<(Local, u64)> = (0u16..256)
            .into_par_iter()
            .map(|first| {
                let mut l = Local::default();
                let n = mc::enumerate::byte_strings_with_first(first as u8, len, |b| {
                    for ci in 0..table.len() {
                        judge(table, ci, b, "b", None, &mut l);
                    }
                });
                (l, n)
            })
            .collect();
        for (l, n) in shards {
            strings += n;
            total.merge(l);
        }
    }
    r.counter("b:byte_strings", strings);
    r.note("b:max_len", json!(max_len));
    let expected: u64 = (0..=max_len as u32).map(|l| 256u64.pow(l)).sum();
    r.guard("b:enumerated_every_byte_string_up_to_max_len", strings == expected || r.over_budget_frac(0.6));
    let (acc, rej) = flush(r, table, total, "b");
    for (ci, c) in table.iter().enumerate() {
        let a = acc.get(&ci).copied().unwrap_or(0);
        let rj = rej.get(&ci).copied().unwrap_or(0);
        r.guard(&format!("b:decoder_rejects_something:{}", c.name), rj > 0);
        // a decoder that accepts nothing in the sweep is fine only if its minimal encoding is longer
        r.guard(&format!("b:decoder_accepts_something_or_min_len_exceeds_sweep:{}", c.name), a > 0 || c.min_len > max_len);
        if a == 0 {
            r.counter("b:decoders_with_min_encoding_longer_than_sweep", 1);
        }
    }
}

fn phase_c(r: &Report, table: &[Codec], encs: &[Enc]) {
    let locals: Vec<Local> = encs
        .par_iter()
        .map(|e| {
            let mut l = Local::default();
            if std::env::var("C12_TRACE").is_ok() {
                eprintln!("[c12] mutating {} {} {}", table[e.ci].name, e.label, hex(&e.bytes[..e.bytes.len().min(40)]));
            }
            for_each_mutant(&e.bytes, MUTATION_WINDOW, |_kind, _pos, m| {
                judge(table, e.ci, m, "c", Some((&e.bytes, &e.repr)), &mut l);
            });
            l
        })
        .collect();
    let mut total = Local::default();
    for l in locals {
        total.merge(l);
    }
    let (acc, rej) = flush(r, table, total, "c");
    for (ci, c) in table.iter().enumerate() {
        let has = encs.iter().any(|e| e.ci == ci);
        r.guard(&format!("c:mutants_rejected:{}", c.name), !has || rej.get(&ci).copied().unwrap_or(0) > 0);
        let _ = acc.get(&ci);
    }
    r.guard("c:some_mutants_accepted_as_other_canonical_values", acc.values().sum::<u64>() > 0);
    if let Some(e) = encs.iter().find(|e| table[e.ci].group == "wal-record") {
        r.sample(json!({"phase": "c", "codec": table[e.ci].name, "sample": e.label, "encoding_len": e.bytes.len(), "mutants": "8 bit flips, ±1, 00/FF overwrite, delete, duplicate at every position"}));
    }
}

fn phase_d(r: &Report, table: &[Codec]) {
    let Some(ci) = table.iter().position(|c| c.name == "abi-cbor") else {
        r.machinery_error("abi-cbor codec missing");
        return;
    };
    let inputs = nan_inputs();
    let mut l = Local::default();
    for (_label, b) in &inputs {
        judge(table, ci, b, "d", None, &mut l);
    }
    r.counter("d:nan_class_inputs", inputs.len() as u64);
    let (acc, rej) = flush(r, table, l, "d");
    r.guard("d:nan_inputs_exercised", acc.get(&ci).copied().unwrap_or(0) + rej.get(&ci).copied().unwrap_or(0) == inputs.len() as u64);
    r.guard("d:f32_f64_nan_headers_rejected", rej.get(&ci).copied().unwrap_or(0) > 0);

    // every spelling width of boundary floats / integers / lengths → both CBOR value decoders
    let inputs = width_inputs();
    let mut l = Local::default();
    let cis: Vec<usize> = table.iter().enumerate().filter(|(_, c)| c.name == "abi-cbor" || c.name == "edict-cbor").map(|(i, _)| i).collect();
    for (_label, b) in &inputs {
        for &ci in &cis {
            judge(table, ci, b, "d2", None, &mut l);
        }
    }
    r.counter("d2:width_spelling_inputs", inputs.len() as u64);
    let (acc, rej) = flush(r, table, l, "d2");
    for &ci in &cis {
        r.guard(&format!("d2:minimal_spellings_accepted:{}", table[ci].name), acc.get(&ci).copied().unwrap_or(0) > 20);
        r.guard(&format!("d2:wider_spellings_rejected:{}", table[ci].name), rej.get(&ci).copied().unwrap_or(0) > 100);
    }
}

fn phase_e(r: &Report, table: &[Codec], encs: &[Enc]) {
    let mut l = Local::default();
    let mut kinds: BTreeMap<&'static str, u64> = BTreeMap::new();
    for e in encs {
        let c = &table[e.ci];
        let (payload, prefix): (&[u8], &[u8]) = if c.group == "abi-dto" {
            (&e.bytes, &[])
        } else if c.name == "control-intent-envelope-v1" && e.bytes.len() >= 12 {
            (&e.bytes[12..], &e.bytes[..8])
        } else {
            continue;
        };
        for (kind, m) in dto_shape_mutants(payload) {
            *kinds.entry(kind).or_default() += 1;
            let input: Vec<u8> = if prefix.is_empty() {
                m
            } else {
                let mut v = prefix.to_vec();
                v.extend_from_slice(&(m.len() as u32).to_le_bytes());
                v.extend_from_slice(&m);
                v
            };
            judge(table, e.ci, &input, "e", Some((&e.bytes, &e.repr)), &mut l);
        }
    }
    r.note("e:shape_mutants_by_kind", json!(kinds));
    let (acc, rej) = flush(r, table, l, "e");
    r.guard("e:shape_mutants_evaluated", acc.values().sum::<u64>() + rej.values().sum::<u64>() > 0);
    r.guard("e:some_shape_mutants_rejected", rej.values().sum::<u64>() > 0);
}

fn replay(r: &Report, path: &std::path::Path, table: &[Codec]) {
    let Ok(txt) = std::fs::read_to_string(path) else {
        r.machinery_error("cannot read replay file");
        return;
    };
    let Ok(v) = serde_json::from_str::<serde_json::Value>(&txt) else {
        r.machinery_error("replay file is not JSON");
        return;
    };
    let case = &v["detail"]["case"];
    let (Some(codec), Some(input)) = (case["codec"].as_str(), case["input_hex"].as_str()) else {
        r.machinery_error("replay file has no detail.case.{codec,input_hex} (round-trip cases are replayed by the quick tier)");
        return;
    };
    let Some(ci) = table.iter().position(|c| c.name == codec) else {
        r.machinery_error("unknown codec in replay file");
        return;
    };
    let input = unhex(input);
    let mut l = Local::default();
    judge(table, ci, &input, "replay", None, &mut l);
    println!("[C12] replay codec={codec} input={} accepted={} violations={}", hex(&input), l.accepted.get(&ci).copied().unwrap_or(0), l.violations.len());
    r.rule("replay of one (codec, input) pair through the accepted ⇒ canonical oracle");
    r.nontrivial(b"replay-1");
    r.nontrivial(b"replay-2");
    r.sample(json!({"replay": codec, "input_hex": hex(&input)}));
    flush(r, table, l, "replay");
}

fn main() {
    let r = Report::new("C12", Level::Exploration);
    mc::quiet_panics();
    let table = codecs::table();
    if let Some(p) = r.replay.clone() {
        replay(&r, &p, &table);
        r.finish();
    }
    r.rule(
        "per codec of the shared table: (a) every value of a bounded-exhaustive generator (boundary integers 0,23,24,255,256,65535,65536,2^32±1,2^53,2^63±1,2^64−1 and negatives; one float per class per width incl. NaN/±inf/±0/subnormal/integral; empty/1/2-element and depth≤3 arrays/maps; strings of length 0,1,2,23,24,255,256(,65535,65536); maps in every insertion order) is encoded twice, decoded, compared and re-encoded; (b) EVERY byte string of length ≤2 (quick) / ≤3 (thorough) is fed to EVERY decoder, accepted ⇒ encode(decode(b)) == b; (c) every single-position mutant (8 bit flips, ±1, 00, FF, delete, duplicate) of every encoding of (a) within an 8 KiB window, same oracle plus 'same value ⇒ same bytes'; (d) every f16 NaN and sign×mantissa-alphabet f32/f64 NaNs, and every boundary float / integer / length spelled at every width that can carry it (bare, in an array, as a map value); (e) structure-aware alternative spellings of every DTO encoding. distinct_nontrivial = distinct (codec, byte string) pairs that a decoder ACCEPTED (the oracle only bites on accepted inputs).",
    );
    r.assume("value equality is equality of the Debug rendering of the decoded value (all NaNs are one value); the real encoder applied to the decoded value is the canonical form (EINGR001: the v2 writer's bytes under the v1 magic, the gate head_inbox.rs itself defines)");
    r.assume("ABI value domain = docs/spec/js-cbor-mapping.md: integral floats are ints, integers are i64 ∪ u64; values outside it are counted as encoder_accepts_outside_domain, never as violations");
    r.assume("le-codec f32: the reader documents that it canonicalises on decode; accepted non-canonical f32 inputs are counted (…round-trip-only-codec-accepts-other-spelling…), not flagged");
    r.note("codecs", json!(table.iter().map(|c| json!({"name": c.name, "canonical_form": c.canonical, "min_valid_len": c.min_len, "anchor": c.anchor})).collect::<Vec<_>>()));
    r.note("not_covered", json!(codecs::not_covered().iter().map(|(a, b)| json!({"pair": a, "reason": b})).collect::<Vec<_>>()));
    r.counter("codecs_in_table", table.len() as u64);
    r.counter("canonical_form_codecs", table.iter().filter(|c| c.canonical).count() as u64);

    let encs = phase_a(&r, &table);
    phase_b(&r, &table);
    phase_c(&r, &table, &encs);
    phase_d(&r, &table);
    phase_e(&r, &table, &encs);

    r.guard("table_has_all_codec_groups", ["abi-cbor", "abi-dto", "intent-envelope", "eintlog", "le-codec", "edict-cbor", "ingress-retention", "provenance-retention", "wal-record", "tick-receipt", "mbus-frame", "scene-cbor", "wsc"].iter().all(|g| table.iter().any(|c| c.group == *g)));
    r.guard("saw_roundtrips", r.outcome_count("a:roundtrip_ok") > 100);
    r.guard("saw_order_variants", r.outcome_count("a:construction_order_variant_encodes_identically") > 10);
    r.finish();
}
