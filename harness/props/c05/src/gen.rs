//! History generation: BFS over {ingest(program intent -> head), tick} on the real runtime, plus
//! scripted deeper histories and one forked (strand) history.

use std::collections::BTreeMap;

use rules::fixture::{self, wl, Rt};
use rules::{Program, Step};
use warp_core::{
    make_head_id, make_strand_id, ActorId, AdmissionScopeId, AuthorityBinding, AuthorityDomainId,
    AuthorityDomainRef, CausalAuthority, CausalPosture, ForkStrandRequest, InboxPolicy, OriginId,
    PlaybackMode, PostureDerivation, ProvenanceEntry, ProvenanceService, ProvenanceStore,
    RetentionContractId, RetentionPosture, SchedulerKind, SealStrength, SettlementService,
    StrandBasisReport, WorldlineId,
    WorldlineState, WorldlineTick, WriterHead, WriterHeadKey,
};

/// One operation of the generating alphabet.
#[derive(Clone, Copy, Debug, PartialEq, Eq, PartialOrd, Ord, Hash)]
pub enum Op {
    /// Ingest program `prog` for worldline `w` (1-based); `head` 0 = default writer, 1 = exact head h1.
    Ingest { w: u8, head: u8, prog: u8 },
    /// One scheduler pass.
    Tick,
    /// Fork a strand child `wl(9)` from worldline 1 at its current tip (scripted only).
    Fork,
    /// Ingest for the forked child worldline (scripted only).
    IngestChild { prog: u8 },
    /// Settle the strand into its parent (scripted only): appends recorded (non-local) events.
    Settle,
}

impl Op {
    pub fn label(&self) -> String {
        match *self {
            Op::Ingest { w, head, prog } => format!("i{w}{head}{prog}"),
            Op::Tick => "t".to_owned(),
            Op::Fork => "f".to_owned(),
            Op::IngestChild { prog } => format!("c{prog}"),
            Op::Settle => "s".to_owned(),
        }
    }
    pub fn parse(s: &str) -> Option<Op> {
        let b = s.as_bytes();
        match b.first()? {
            b't' => Some(Op::Tick),
            b'f' => Some(Op::Fork),
            b's' => Some(Op::Settle),
            b'c' if b.len() == 2 => Some(Op::IngestChild { prog: b[1] - b'0' }),
            b'i' if b.len() == 4 => Some(Op::Ingest {
                w: b[1] - b'0',
                head: b[2] - b'0',
                prog: b[3] - b'0',
            }),
            _ => None,
        }
    }
}

pub fn path_label(path: &[Op]) -> String {
    path.iter().map(Op::label).collect::<Vec<_>>().join(",")
}

pub fn parse_path(s: &str) -> Option<Vec<Op>> {
    if s.is_empty() {
        return Some(Vec::new());
    }
    s.split(',').map(Op::parse).collect()
}

/// The program alphabet.
pub fn program(ix: u8) -> Program {
    match ix {
        0 => Program::new(vec![Step::SetNodeAtt { n: 1, v: 1 }]),
        // conflicts with program 0 when admitted by the same head in the same tick
        1 => Program::new(vec![Step::SetNodeAtt { n: 1, v: 2 }]),
        2 => Program::new(vec![
            Step::UpsertNode { n: 3, ty: 1 },
            Step::UpsertEdge {
                e: 1,
                from: 0,
                to: 3,
                ty: 0,
            },
            Step::SetNodeAtt { n: 2, v: 5 },
        ]),
        3 => Program::new(vec![
            Step::SetEdgeAtt { e: 0, v: 1 },
            Step::CopyNodeAtt { from: 1, to: 2 },
        ]),
        4 => Program::new(vec![Step::DeleteEdge { e: 0, from: 0 }]),
        _ => Program::new(vec![Step::SetNodeAtt { n: 2, v: 2 }]),
    }
}

pub const CHILD: u8 = 9;

fn posture() -> RetentionPosture {
    let origin_id = OriginId::from_bytes([0x51; 32]);
    let authority = AuthorityDomainRef::new(origin_id, AuthorityDomainId::from_bytes([0x52; 32]));
    RetentionPosture::new(
        CausalPosture::Shared,
        PostureDerivation::ExplicitIntent,
        CausalAuthority::new(
            origin_id,
            ActorId::from_bytes([0x53; 32]),
            authority,
            AuthorityBinding::LocalUnbound { origin: origin_id },
            SealStrength::Advisory,
        )
        .expect("authority"),
        RetentionContractId::from_bytes([0x54; 32]),
        Some(AdmissionScopeId::from_bytes([0x55; 32])),
    )
    .expect("posture")
}

/// Apply one op on the real runtime. `None` = not applicable / rejected by the runtime.
pub fn step(rt: &Rt, op: &Op, heads_per: u8) -> Option<Rt> {
    let mut n = rt.clone();
    match *op {
        Op::Ingest { w, head, prog } => {
            let p = program(prog);
            let env = if head == 0 {
                fixture::intent_default(wl(w), &p)
            } else {
                if heads_per < 2 {
                    return None;
                }
                let key = WriterHeadKey {
                    worldline_id: wl(w),
                    head_id: make_head_id("h1"),
                };
                fixture::intent_exact(key, fixture::prog_kind(), &p)
            };
            n.runtime.ingest(env).ok()?;
        }
        Op::Tick => {
            n.super_tick(SchedulerKind::Radix).ok()?;
        }
        Op::Fork => {
            let len = n.provenance.len(wl(1)).ok()?;
            if len == 0 {
                return None;
            }
            let child = wl(CHILD);
            let hk = WriterHeadKey {
                worldline_id: child,
                head_id: make_head_id("s0"),
            };
            n.runtime
                .fork_strand(
                    &mut n.provenance,
                    ForkStrandRequest {
                        strand_id: make_strand_id("s1"),
                        source_lane_id: wl(1),
                        fork_tick: WorldlineTick::from_raw(len - 1),
                        child_worldline_id: child,
                        writer_heads: vec![WriterHead::with_routing(
                            hk,
                            PlaybackMode::Play,
                            InboxPolicy::AcceptAll,
                            None,
                            true,
                        )],
                        retention_posture: posture(),
                    },
                )
                .ok()?;
        }
        Op::IngestChild { prog } => {
            n.runtime
                .ingest(fixture::intent_default(wl(CHILD), &program(prog)))
                .ok()?;
        }
        Op::Settle => {
            SettlementService::settle(&mut n.runtime, &mut n.provenance, make_strand_id("s1")).ok()?;
        }
    }
    Some(n)
}

/// A generated history with everything the mutation phases need.
#[derive(Clone)]
pub struct History {
    pub label: String,
    pub cfg: (u8, u8),
    /// Registered worldlines (ascending id).
    pub worldlines: Vec<WorldlineId>,
    /// Replay base (identical for all worldlines of the fixture, also for the forked child).
    pub base: WorldlineState,
    /// All entries in a valid global append order.
    pub entries: Vec<ProvenanceEntry>,
    /// Live frontier states.
    pub live: BTreeMap<WorldlineId, WorldlineState>,
    /// The original provenance service.
    pub prov: ProvenanceService,
    /// Basis report of the forked strand (forked history only).
    pub basis_report: Option<StrandBasisReport>,
}

impl History {
    pub fn entries_of(&self, w: WorldlineId) -> Vec<ProvenanceEntry> {
        self.entries
            .iter()
            .filter(|e| e.worldline_id == w)
            .cloned()
            .collect()
    }
    pub fn max_len(&self) -> usize {
        self.worldlines
            .iter()
            .map(|w| self.entries.iter().filter(|e| e.worldline_id == *w).count())
            .max()
            .unwrap_or(0)
    }
    pub fn heads_used(&self) -> usize {
        let mut hs: Vec<_> = self.entries.iter().filter_map(|e| e.head_key).collect();
        hs.sort();
        hs.dedup();
        hs.len()
    }
    /// An entry whose parent was committed by a different head.
    pub fn has_cross_head_parent(&self) -> bool {
        self.entries.iter().any(|e| {
            e.parents.iter().any(|p| {
                self.entries.iter().any(|q| {
                    q.worldline_id == p.worldline_id
                        && q.worldline_tick == p.worldline_tick
                        && q.head_key != e.head_key
                })
            })
        })
    }
}

/// Extract the history of a runtime state (None when no entry has been committed).
pub fn extract(rt: &Rt, cfg: (u8, u8), label: String) -> Option<History> {
    let mut worldlines: Vec<WorldlineId> = rt.runtime.worldlines().iter().map(|(id, _)| *id).collect();
    worldlines.sort();
    let mut entries = Vec::new();
    for w in &worldlines {
        let n = rt.provenance.len(*w).ok()?;
        for t in 0..n {
            entries.push(rt.provenance.entry(*w, WorldlineTick::from_raw(t)).ok()?);
        }
    }
    if entries.is_empty() {
        return None;
    }
    // valid global order: by commit cycle, then worldline, then tick (parents are always the
    // same-worldline predecessor, so any order that keeps each worldline ascending is valid).
    entries.sort_by_key(|e| {
        (
            e.commit_global_tick.as_u64(),
            *e.worldline_id.as_bytes(),
            e.worldline_tick.as_u64(),
        )
    });
    let worldlines_has_child = worldlines.contains(&wl(CHILD));
    let mut live = BTreeMap::new();
    for (id, f) in rt.runtime.worldlines().iter() {
        live.insert(*id, f.state().clone());
    }
    Some(History {
        label,
        cfg,
        worldlines,
        base: fixture::worldline_state(&fixture::base_state()),
        entries,
        live,
        prov: rt.provenance.clone(),
        basis_report: if worldlines_has_child {
            SettlementService::plan(&rt.runtime, &rt.provenance, make_strand_id("s1"))
                .ok()
                .map(|p| p.basis_report)
        } else {
            None
        },
    })
}

/// Fingerprint of the provenance content only (dedup key for histories).
pub fn history_key(h: &History) -> [u8; 32] {
    let mut hasher = blake3::Hasher::new();
    for w in &h.worldlines {
        hasher.update(w.as_bytes());
    }
    hasher.update(format!("{:?}", h.entries).as_bytes());
    *hasher.finalize().as_bytes()
}

/// Re-execute an op path from scratch.
pub fn run_path(cfg: (u8, u8), path: &[Op]) -> Option<Rt> {
    let mut rt = Rt::new(cfg.0, cfg.1);
    for op in path {
        rt = step(&rt, op, cfg.1)?;
    }
    Some(rt)
}

/// Scripted deeper histories (longer chains than the BFS depth reaches), incl. the forked one.
pub fn scripted() -> Vec<((u8, u8), Vec<Op>)> {
    use Op::*;
    let i = |w, head, prog| Ingest { w, head, prog };
    vec![
        // 2 worldlines x 2 heads, three passes: chains of 4-5 entries on w1, 2-3 on w2, a
        // footprint conflict (rejected receipt entry with blockers), parents across heads.
        (
            (2, 2),
            vec![
                i(1, 0, 0),
                i(1, 0, 1),
                i(1, 1, 2),
                i(2, 0, 2),
                Tick,
                i(1, 0, 3),
                i(1, 1, 0),
                i(2, 1, 0),
                Tick,
                i(1, 0, 4),
                i(2, 0, 3),
                Tick,
            ],
        ),
        // single worldline / single head chain of 4
        (
            (1, 1),
            vec![
                i(1, 0, 2),
                Tick,
                i(1, 0, 0),
                Tick,
                i(1, 0, 3),
                Tick,
                i(1, 0, 4),
                Tick,
            ],
        ),
        // forked (strand) history: parent 2 entries, fork at tip, child diverges by 2, parent moves on
        (
            (1, 2),
            vec![
                i(1, 0, 0),
                i(1, 1, 2),
                Tick,
                Fork,
                IngestChild { prog: 1 },
                Tick,
                IngestChild { prog: 3 },
                i(1, 0, 5),
                Tick,
            ],
        ),
        // settlement import: the child's suffix is imported into the (unmoved) parent as recorded
        // MergeImport events
        (
            (1, 1),
            vec![
                i(1, 0, 0),
                Tick,
                Fork,
                IngestChild { prog: 2 },
                Tick,
                IngestChild { prog: 3 },
                Tick,
                Settle,
            ],
        ),
        // settlement after the parent moved into the strand's footprint (conflict artifacts)
        (
            (1, 1),
            vec![
                i(1, 0, 0),
                Tick,
                Fork,
                IngestChild { prog: 1 },
                i(1, 0, 5),
                Tick,
                IngestChild { prog: 5 },
                Tick,
                Settle,
            ],
        ),
    ]
}
