//! probe
use rules::fixture::{self, wl, Rt};
use rules::{Program, Step};
use warp_core::*;

fn main() {
    let mut rt = Rt::new(2, 2);
    let pa = Program::new(vec![Step::SetNodeAtt { n: 1, v: 1 }]);
    let pb = Program::new(vec![Step::SetNodeAtt { n: 1, v: 2 }]);
    let pc = Program::new(vec![
        Step::UpsertNode { n: 3, ty: 1 },
        Step::UpsertEdge { e: 1, from: 0, to: 3, ty: 0 },
        Step::SetNodeAtt { n: 2, v: 5 },
    ]);
    let r0 = rt.super_tick(SchedulerKind::Radix).unwrap();
    println!("empty tick steps {} len {:?}", r0.len(), rt.provenance.len(wl(1)));
    println!("{:?}", rt.runtime.ingest(fixture::intent_default(wl(1), &pa)).map(|_| ()));
    println!("{:?}", rt.runtime.ingest(fixture::intent_default(wl(1), &pb)).map(|_| ()));
    println!("{:?}", rt.runtime.ingest(fixture::intent_exact(rt.heads[1], fixture::prog_kind(), &pc)).map(|_| ()));
    println!("{:?}", rt.runtime.ingest(fixture::intent_default(wl(2), &pc)).map(|_| ()));
    let recs = rt.super_tick(SchedulerKind::Radix).unwrap();
    println!("steps {}", recs.len());
    for w in [wl(1), wl(2)] {
        let n = rt.provenance.len(w).unwrap();
        println!("wl len {n}");
        for t in 0..n {
            let e = rt.provenance.entry(w, WorldlineTick::from_raw(t)).unwrap();
            println!("entry {t}: {:#?}", e);
            let rec = warp_core::causal_wal::WalRuntimeStateDeltaRecord::from_provenance_entry(
                e.tick_receipt.as_ref().unwrap().digest(),
                None,
                e.clone(),
            );
            println!("retained: {:?}", rec.map(|r| r.to_payload_bytes().map(|b| b.len())));
        }
    }
    let st = rt.runtime.worldlines().get(&wl(1)).unwrap().state();
    println!("state {:#?}", st.warp_state());
    println!("chk before {:?}", rt.provenance.checkpoint_before(wl(1), WorldlineTick::from_raw(5)));
}
