//! Property check C05 — history is hash-chained and tamper-evident (see /verif/DESIGN.md §4).
//!
//! Level: fault enumeration.  Real histories are produced by BFS over {ingest, tick} on the real
//! `WorldlineRuntime` + `ProvenanceService`; every field of every retained / transported structure
//! (entries, patches, receipts, checkpoints, boundary-transition records, suffix bundles, retained
//! encodings) is altered at every position by a finite operator list; a FRESH store is rebuilt from
//! the altered material through the public append/import APIs and re-verified with every public
//! verification path.  Accept only: a typed error, or exactly the untampered result.

mod gen;
mod mutate;
mod phases;
mod verify;

use std::collections::BTreeMap;
use std::sync::Mutex;

use mc::{json, Level, Report};
use rayon::prelude::*;
use rules::fixture::Rt;
use serde_json::Value;

use gen::{History, Op};
use verify::Verdict;

/// First identifier-like token of a `Debug` rendering = enum variant name.
pub fn variant_name<T: std::fmt::Debug>(e: &T) -> String {
    let s = format!("{e:?}");
    s.split(|c: char| !(c.is_alphanumeric() || c == '_'))
        .next()
        .unwrap_or("")
        .to_owned()
}

/// Per-history accumulator (merged sequentially in history order so that the run is deterministic).
#[derive(Default)]
pub struct Acc {
    pub evals: u64,
    pub outcomes: BTreeMap<String, u64>,
    pub counters: BTreeMap<String, u64>,
    pub accepted_same: BTreeMap<String, u64>,
    pub accepted_meta_differs: BTreeMap<String, u64>,
    pub accepted_outside_digest: BTreeMap<String, u64>,
    pub operators: BTreeMap<String, u64>,
    pub nontrivial: Vec<u128>,
    pub violations: Vec<(String, Value)>,
    pub machinery: Vec<String>,
    pub samples: Vec<Value>,
    pub capped: bool,
}

impl Acc {
    pub fn count(&mut self, name: &str, n: u64) {
        *self.counters.entry(name.to_owned()).or_insert(0) += n;
    }
    pub fn outcome(&mut self, name: &str) {
        *self.outcomes.entry(name.to_owned()).or_insert(0) += 1;
    }
    pub fn violation(&mut self, sig: String, detail: Value) {
        self.violations.push((sig, detail));
    }
    pub fn sample(&mut self, v: Value) {
        if self.samples.len() < 4 {
            self.samples.push(v);
        }
    }
}

/// Description of one case (enough to replay it).
pub struct Case<'a> {
    pub h: &'a History,
    pub phase: &'static str,
    pub pos: String,
    pub field: &'a str,
    pub kind: &'a str,
    pub detail: &'a str,
}

impl<'a> Case<'a> {
    pub fn json(&self) -> Value {
        json!({
            "config": [self.h.cfg.0, self.h.cfg.1],
            "history": self.h.label,
            "phase": self.phase,
            "position": self.pos,
            "field": self.field,
            "kind": self.kind,
            "detail": self.detail,
        })
    }
    pub fn key(&self) -> u128 {
        Report::key(
            format!(
                "{:?}|{}|{}|{}|{}|{}|{}",
                self.h.cfg, self.h.label, self.phase, self.pos, self.field, self.kind, self.detail
            )
            .as_bytes(),
        )
    }
}

/// Fields the property statement says ARE bound (by the commit id, the patch digest, or the
/// append-only validation): an alteration of one of them that is accepted — even with an
/// unchanged state — is a hole.
pub fn bound(field: &str, kind: &str) -> bool {
    let field = field.strip_prefix("recorded.").unwrap_or(field);
    let canonical_equivalent = matches!(kind, "dup" | "swap" | "prepend-shadow")
        && matches!(field, "patch.ops" | "patch.in_slots" | "patch.out_slots");
    if canonical_equivalent {
        return false;
    }
    field.starts_with("expected.")
        // a parent ref is (worldline, tick, commit id); the commit id is what the chain binds —
        // coordinates that resolve to a stored entry with the SAME commit id are interchangeable
        || (field.starts_with("parents") && field != "parents.worldline_id" && field != "parents.worldline_tick")
        || field == "worldline_id"
        || field == "worldline_tick"
        || field == "patch.header.policy_id"
        || field == "patch.header.rule_pack_id"
        || field == "patch.patch_digest"
        || field.starts_with("patch.ops")
        || field.starts_with("patch.in_slots")
        || field.starts_with("patch.out_slots")
        || field == "receipt.tx"
        || field.starts_with("receipt.entries")
        || field == "patch"
        || field == "head_key"
        || field == "head_key.worldline_id"
}

#[derive(Clone, Copy, PartialEq, Eq)]
pub enum Mode {
    SingleField,
    Truncation,
    Substitution,
    Structural,
}

/// Uniform oracle.
pub fn classify(acc: &mut Acc, case: &Case, v: &Verdict, mode: Mode) {
    acc.evals += 1;
    *acc.operators
        .entry(format!("{}:{}", case.phase, case.kind))
        .or_insert(0) += 1;
    acc.nontrivial.push(case.key());
    let detail = |extra: Value| {
        json!({"case": case.json(), "verdict": {
            "panic": v.panic, "errors": v.errors, "appended": v.appended,
            "invariant": v.invariant, "diffs": v.diffs, "ok_checks": v.ok_checks,
            "alt_chain": v.alt_chain,
        }, "extra": extra})
    };
    if let Some(p) = &v.panic {
        let stage = p.split(':').next().unwrap_or("?");
        acc.violation(
            format!("{}-panic:{}:{}", stage, case.field, case.kind),
            detail(json!(null)),
        );
        acc.outcome("oracle-fail:panic");
        return;
    }
    if !v.invariant.is_empty() {
        acc.violation(
            format!(
                "append-invariant({}):{}:{}",
                v.invariant[0], case.field, case.kind
            ),
            detail(json!("the store admitted material that breaks the stored-chain invariant")),
        );
        acc.outcome("oracle-fail:store-invariant");
        return;
    }
    if !v.diffs.is_empty() {
        // name the stage by the first verification path that accepted a different result
        let first = v
            .diffs
            .iter()
            .find(|d| d.starts_with("replay:"))
            .or_else(|| v.diffs.iter().find(|d| d.starts_with("seek:")))
            .unwrap_or(&v.diffs[0]);
        let stage = first.split(':').next().unwrap_or("?").to_owned();
        acc.violation(
            format!("{}:{}:{}", stage, case.field, case.kind),
            detail(json!("a different result was accepted as verified")),
        );
        acc.outcome("oracle-fail:different-result-accepted");
        return;
    }
    if v.used_sorted_fallback {
        acc.count("order_insensitive_state_comparisons", 1);
    }
    if !v.errors.is_empty() {
        acc.outcome(&format!("typed_error:{}", v.errors[0]));
        acc.count("rejected_with_typed_error", 1);
        return;
    }
    // fully accepted
    match mode {
        Mode::Truncation => {
            acc.outcome("accepted_prefix");
            acc.count("accepted_prefix", 1);
        }
        Mode::Substitution | Mode::Structural if v.alt_chain > 0 => {
            acc.outcome("accepted_alternative_chain(different commit ids)");
            acc.count("accepted_alternative_chain", 1);
        }
        _ => {
            if mode == Mode::Structural && !case.field.contains("cross-worldline-order") {
                acc.violation(
                    format!("append:{}:{}", case.field, case.kind),
                    detail(json!("a structurally altered chain was accepted in full")),
                );
                acc.outcome("oracle-fail:structurally-altered-chain-accepted");
                return;
            }
            let k = format!("{}:{}:{}", case.phase, case.field, case.kind);
            *acc.accepted_same.entry(k.clone()).or_insert(0) += 1;
            acc.outcome("accepted_same_state");
            acc.count("accepted_same_state", 1);
            if v.meta_differs {
                *acc.accepted_meta_differs.entry(k).or_insert(0) += 1;
            }
            if mode == Mode::SingleField && bound(case.field, case.kind) {
                acc.violation(
                    format!("unbound:{}:{}", case.field, case.kind),
                    detail(json!(
                        "an altered field the statement says is bound was accepted (state unchanged)"
                    )),
                );
                acc.outcome("oracle-fail:bound-field-alteration-accepted");
            }
        }
    }
}

// -------------------------------------------------------------------------------------------------
// history generation
// -------------------------------------------------------------------------------------------------

/// `WorldlineRuntime` holds a `Cell`, so it is `Send` but not `Sync`; the BFS needs `Sync` states.
struct St(Mutex<Rt>);
impl St {
    fn new(rt: Rt) -> St {
        St(Mutex::new(rt))
    }
    fn get(&self) -> Rt {
        self.0.lock().unwrap().clone()
    }
    /// Full `Debug` fingerprint of runtime + provenance (same content as `Rt::fingerprint`,
    /// streamed into a hasher).
    fn fp(&self) -> Vec<u8> {
        let g = self.0.lock().unwrap();
        verify::debug_fp(&(&g.runtime, &g.provenance)).to_vec()
    }
}
impl Clone for St {
    fn clone(&self) -> St {
        St::new(self.get())
    }
}

struct Generated {
    histories: Vec<History>,
    states: u64,
    transitions: u64,
    capped: bool,
}

fn generate(r: &Report) -> Generated {
    let depth: usize = r.pick(3, 5);
    let progs: u8 = r.pick(2, 4);
    let mut histories: Vec<History> = Vec::new();
    let mut seen: std::collections::BTreeSet<[u8; 32]> = Default::default();
    let (mut states, mut transitions, mut capped) = (0, 0, false);
    for cfg in [(1u8, 1u8), (1, 2), (2, 1), (2, 2)] {
        let found: Mutex<Vec<History>> = Mutex::new(Vec::new());
        let st = mc::bfs::bfs(
            St::new(Rt::new(cfg.0, cfg.1)),
            depth,
            |s: &St| s.fp(),
            |_s, p: &[Op]| {
                let mut v = Vec::new();
                // an ingest never changes the provenance: at the last level only the tick can
                // produce a new history
                let last_level = p.len() + 1 == depth;
                for w in 1..=cfg.0 {
                    if last_level {
                        break;
                    }
                    for head in 0..cfg.1 {
                        for prog in 0..progs {
                            v.push(Op::Ingest { w, head, prog });
                        }
                    }
                }
                v.push(Op::Tick);
                v
            },
            |s, op, _p| gen::step(&s.get(), op, cfg.1).map(St::new),
            |s, p| {
                if let Some(h) = gen::extract(&s.get(), cfg, gen::path_label(p)) {
                    found.lock().unwrap().push(h);
                }
            },
            || r.over_budget_frac(0.35),
        );
        states += st.states;
        transitions += st.transitions;
        capped |= st.capped;
        for h in found.into_inner().unwrap() {
            // distinct by provenance content (many runtime states share one history)
            let mut k = blake3::Hasher::new();
            k.update(&[cfg.0, cfg.1]);
            k.update(&gen::history_key(&h));
            if seen.insert(*k.finalize().as_bytes()) {
                histories.push(h);
            }
        }
    }
    for (cfg, path) in gen::scripted() {
        match gen::run_path(cfg, &path)
            .and_then(|rt| gen::extract(&rt, cfg, format!("scripted:{}", gen::path_label(&path))))
        {
            Some(h) => histories.push(h),
            None => r.machinery_error(&format!(
                "scripted history {} could not be produced",
                gen::path_label(&path)
            )),
        }
    }
    Generated {
        histories,
        states,
        transitions,
        capped,
    }
}

// -------------------------------------------------------------------------------------------------
// per-history driver
// -------------------------------------------------------------------------------------------------

pub struct Params {
    pub thorough: bool,
    pub pos: Vec<usize>,
    pub donors: usize,
    /// Replay mode: run only this phase.
    pub only_phase: Option<String>,
}

fn run_history(r: &Report, all: &[History], idx: usize, prm: &Params) -> Acc {
    let h = &all[idx];
    let mut acc = Acc::default();
    let base = match verify::baseline(h) {
        Ok(b) => b,
        Err(e) => {
            acc.violation(
                "positive:replay:untampered-history-rejected".to_owned(),
                json!({"case": {"config": [h.cfg.0, h.cfg.1], "history": h.label, "phase": "positive"}, "error": e}),
            );
            return acc;
        }
    };
    let t0 = std::time::Instant::now();
    let tm = |name: &'static str, t: std::time::Instant| {
        if std::env::var("C05_TIMING").is_ok() {
            eprintln!("[C05-T] {name} {:.4}", t.elapsed().as_secs_f64());
        }
    };
    phases::positive(&mut acc, h, &base);
    tm("positive", t0);
    if r.over_budget_frac(0.9) {
        acc.capped = true;
        return acc;
    }
    let want = |p: &str| prm.only_phase.as_deref().map_or(true, |o| o == p);
    let t = std::time::Instant::now();
    if want("entry") {
        phases::entry_fields(&mut acc, h, &base, prm);
    }
    tm("entry", t);
    let t = std::time::Instant::now();
    if want("structure") {
        phases::structural(&mut acc, h, &base, all, idx, prm);
    }
    tm("structural", t);
    if r.over_budget_frac(0.9) {
        acc.capped = true;
        return acc;
    }
    let t = std::time::Instant::now();
    if want("checkpoint") {
        phases::checkpoints(&mut acc, h, &base, prm);
    }
    tm("checkpoints", t);
    let t = std::time::Instant::now();
    if want("btr") {
        phases::btr(&mut acc, h, &base, prm);
    }
    tm("btr", t);
    let t = std::time::Instant::now();
    if want("suffix") {
        phases::suffix(&mut acc, h, &base, prm);
    }
    tm("suffix", t);
    let scripted = h.label.starts_with("scripted:");
    let t1 = t0.elapsed().as_secs_f64();
    let t = std::time::Instant::now();
    let first_scripted = all.iter().position(|x| x.label.starts_with("scripted:")) == Some(idx);
    let retained_selected = match &prm.only_phase {
        Some(p) => p == "retained",
        None => (prm.thorough && (scripted || idx % 16 == 0)) || (!prm.thorough && first_scripted),
    };
    if retained_selected {
        phases::retained(&mut acc, h, &base, prm, r);
    }
    tm("retained", t);
    if std::env::var("C05_TIMING").is_ok() {
        eprintln!("[C05] history {idx} {} entries={} evals={} t={:.2}s retained+={:.2}s", h.label, h.entries.len(), acc.evals, t1, t0.elapsed().as_secs_f64() - t1);
    }
    acc
}

fn main() {
    let r = Report::new("C05", Level::FaultEnumeration);
    mc::quiet_panics();
    if let Some(path) = r.replay.clone() {
        replay(&r, &path);
        r.finish();
    }
    r.rule(
        "histories = all distinct provenance histories reached by BFS over {ingest(program->head), tick} \
         (depth 3 with 2 programs quick / depth 4 with 4 programs thorough; ingests are not expanded at the last level because they cannot change the provenance) \
         on {1,2 worldlines}x{1,2 heads} + 5 scripted deeper histories over 6 programs (one forked strand, two settled strands with recorded import/conflict events). \
         A case = (history, phase, position, field, mutation kind, detail): one altered copy of retained/transported \
         material (entry field, structural edit, checkpoint, BTR, suffix bundle, retained-encoding bit) that differs \
         from the original, fed to the real append/import/validate APIs of a fresh store and re-verified by \
         replay_worldline_state_at at every tick, PlaybackCursor::seek_to forward and backward, validate_btr, \
         import_suffix. distinct_nontrivial counts distinct such cases (no-op mutants are skipped).",
    );
    r.assume("The replay base (registered initial boundary) and, for transplants, the original commit ids are the verifier's trusted anchors.");
    r.assume("32-byte fields: bytes 0 and 31 are flipped in quick, bytes 0, 7, 16, 31 in thorough (all 32 in --replay); integers: +1, -1 (wrapping), MAX. Retained encodings: every single BIT of the WAL state-delta payload.");
    r.assume("witnessed_suffix has no production context: the harness context derives the shell digest with the public derive_witnessed_suffix_shell_digest, resolves target bases against the real store and echoes the shell's entries as admitted refs.");
    r.assume("WorldlineState fields are crate-private: checkpoint states are substituted with states obtainable through public APIs (other ticks, other worldlines, live frontier, fresh WorldlineState::new, cursor state after a failed seek, replay of an accepted_same_state store).");
    r.assume("WarpState has no PartialEq: states are compared by Debug fingerprint, with an order-insensitive fallback when roots agree.");
    r.assume("Instance-level ops (OpenPortal/UpsertWarpInstance/DeleteWarpInstance) do not occur in scheduler-produced histories of user rules; their field mutators exist but are not exercised.");

    let prm = Params {
        thorough: r.thorough(),
        pos: mutate::positions(r.thorough()),
        donors: r.pick(3, 6),
        only_phase: None,
    };
    let g = generate(&r);
    eprintln!("[C05] generated {} histories in {:.1}s", g.histories.len(), r.elapsed_s());
    if g.capped {
        r.cap_hit("history BFS stopped by the wall cap");
    }
    r.counter("bfs_states", g.states);
    r.counter("bfs_transitions", g.transitions);
    r.counter("histories", g.histories.len() as u64);
    let hs = &g.histories;
    r.counter(
        "histories_with_2_worldlines_committed",
        hs.iter()
            .filter(|h| {
                let mut ws: Vec<_> = h.entries.iter().map(|e| e.worldline_id).collect();
                ws.sort();
                ws.dedup();
                ws.len() >= 2
            })
            .count() as u64,
    );
    r.counter(
        "histories_with_parent_across_heads",
        hs.iter().filter(|h| h.has_cross_head_parent()).count() as u64,
    );
    r.counter(
        "max_entries_per_worldline",
        hs.iter().map(|h| h.max_len()).max().unwrap_or(0) as u64,
    );
    r.counter(
        "total_entries",
        hs.iter().map(|h| h.entries.len() as u64).sum(),
    );

    let accs: Vec<Acc> = (0..hs.len())
        .into_par_iter()
        .map(|i| run_history(&r, hs, i, &prm))
        .collect();

    eprintln!("[C05] mutation sweep done at {:.1}s", r.elapsed_s());
    // ---- deterministic merge ----
    let mut accepted_same: BTreeMap<String, u64> = BTreeMap::new();
    let mut accepted_meta: BTreeMap<String, u64> = BTreeMap::new();
    let mut accepted_outside: BTreeMap<String, u64> = BTreeMap::new();
    let mut operators: BTreeMap<String, u64> = BTreeMap::new();
    let mut capped = false;
    let mut all_outcomes: BTreeMap<String, u64> = BTreeMap::new();
    for (i, a) in accs.into_iter().enumerate() {
        r.eval(a.evals);
        for (k, n) in a.outcomes {
            r.outcome_n(&k, n);
            *all_outcomes.entry(k).or_insert(0) += n;
        }
        for (k, n) in a.counters {
            r.counter(&k, n);
        }
        for (k, n) in a.accepted_same {
            *accepted_same.entry(k).or_insert(0) += n;
        }
        for (k, n) in a.accepted_meta_differs {
            *accepted_meta.entry(k).or_insert(0) += n;
        }
        for (k, n) in a.accepted_outside_digest {
            *accepted_outside.entry(k).or_insert(0) += n;
        }
        for (k, n) in a.operators {
            *operators.entry(k).or_insert(0) += n;
        }
        r.nontrivial_many(a.nontrivial);
        for (sig, d) in a.violations {
            r.violation(&sig, d);
        }
        for m in a.machinery {
            r.machinery_error(&m);
        }
        if i < 2 || hs[i].label.starts_with("scripted:") {
            for s in a.samples {
                r.sample(s);
            }
        }
        capped |= a.capped;
    }
    if capped {
        r.cap_hit("per-history mutation sweep stopped by the wall cap; evidence lists what was covered");
    }
    let same_total: u64 = accepted_same.values().sum();
    r.note("accepted_same_state", json!(accepted_same));
    r.note("accepted_same_state_but_replay_metadata_differs", json!(accepted_meta));
    r.note("accepted_outside_digest", json!(accepted_outside));
    r.note("operators_applied", json!(operators));

    // ---- vacuity guards ----
    let typed: Vec<String> = all_outcomes
        .keys()
        .filter(|n| n.starts_with("typed_error:"))
        .cloned()
        .collect();
    r.counter("distinct_typed_error_kinds", typed.len() as u64);
    r.guard("typed_errors_of_at_least_4_kinds", typed.len() >= 4);
    r.guard("accepted_same_state_nonzero_and_listed", same_total > 0);
    for op in phases::REQUIRED_OPERATORS {
        r.guard(
            &format!("operator_applied:{op}"),
            operators.get(*op).copied().unwrap_or(0) > 0,
        );
    }
    r.guard(
        "history_with_2_worldlines_present",
        r.counter_value("histories_with_2_worldlines_committed") > 0,
    );
    r.guard(
        "history_with_parent_across_heads_present",
        r.counter_value("histories_with_parent_across_heads") > 0,
    );
    r.guard("positive_direction_checked", r.counter_value("positive_commit_ids_recomputed") > 0);
    r.guard("checkpoints_exercised", r.counter_value("checkpoint_cases") > 0);
    r.guard("btr_exercised", r.counter_value("btr_cases") > 0);
    r.guard("suffix_exercised", r.counter_value("suffix_cases") > 0);
    r.guard("retained_bytes_exercised", r.counter_value("retained_bitflips") > 0);
    r.guard(
        "retained_bitflip_decoded_and_reverified",
        r.counter_value("retained_bitflips_decoded_ok") > 0,
    );
    r.counter(
        "recorded_event_entries",
        hs.iter()
            .flat_map(|h| h.entries.iter())
            .filter(|e| !matches!(e.event_kind, warp_core::ProvenanceEventKind::LocalCommit))
            .count() as u64,
    );
    r.guard("recorded_events_present", r.counter_value("recorded_event_entries") > 0);
    r.finish();
}

// -------------------------------------------------------------------------------------------------
// replay of one recorded case
// -------------------------------------------------------------------------------------------------

fn replay(r: &Report, path: &std::path::Path) {
    r.rule("replay of one recorded case");
    let Ok(txt) = std::fs::read_to_string(path) else {
        r.machinery_error("cannot read replay file");
        return;
    };
    let Ok(v) = serde_json::from_str::<Value>(&txt) else {
        r.machinery_error("replay file is not JSON");
        return;
    };
    // accept the detail object itself or a wrapper with `detail`
    let d = if v.get("case").is_some() { &v } else { v.get("detail").unwrap_or(&v) };
    let case = &d["case"];
    let cfg = (
        case["config"][0].as_u64().unwrap_or(1) as u8,
        case["config"][1].as_u64().unwrap_or(1) as u8,
    );
    let label = case["history"].as_str().unwrap_or("").to_owned();
    let raw = label.strip_prefix("scripted:").unwrap_or(&label);
    let Some(ops) = gen::parse_path(raw) else {
        r.machinery_error("cannot parse history path");
        return;
    };
    let Some(h) = gen::run_path(cfg, &ops).and_then(|rt| gen::extract(&rt, cfg, label.clone())) else {
        r.machinery_error("cannot regenerate history");
        return;
    };
    let prm = Params {
        thorough: true,
        pos: mutate::all_positions(),
        donors: 0,
        only_phase: Some(case["phase"].as_str().unwrap_or("").to_owned()),
    };
    let all = vec![h];
    let acc = run_history(r, &all, 0, &prm);
    let want = (
        case["phase"].as_str().unwrap_or(""),
        case["field"].as_str().unwrap_or(""),
        case["kind"].as_str().unwrap_or(""),
    );
    r.eval(acc.evals);
    r.nontrivial_many(acc.nontrivial);
    let mut hit = 0;
    for (sig, det) in acc.violations {
        let c = &det["case"];
        if c["phase"].as_str() == Some(want.0)
            && c["field"].as_str() == Some(want.1)
            && c["kind"].as_str() == Some(want.2)
        {
            hit += 1;
            r.violation(&sig, det);
        }
    }
    r.sample(json!({"replayed_case": case, "violations_reproduced": hit}));
    println!("replay: {hit} violation(s) reproduced for {want:?}");
}
