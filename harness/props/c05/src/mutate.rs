//! Mutation operators: every field reachable through the public structs x {flip one byte, +-1,
//! drop / duplicate / swap / alter}.  Everything here is plain data surgery on cloned values.

use bytes::Bytes;
use warp_core::{
    AtomPayload, AtomWrite, AttachmentKey, AttachmentOwner, AttachmentPlane, AttachmentValue,
    CausalPosture, EdgeKey, GlobalTick, HeadId, NodeKey, ProvenanceEntry, ProvenanceEventKind,
    ProvenanceRef, SlotId, TickReceipt, TickReceiptDisposition, TickReceiptEntry,
    TickReceiptRejection, TxId, TypeId, WarpId, WarpOp, WorldlineId, WorldlineTick,
    WorldlineTickPatchV1, WriterHeadKey,
};

pub type Hash = [u8; 32];

/// One mutated value.
#[derive(Clone)]
pub struct Mutant<T> {
    /// Stable field path (no positions).
    pub field: String,
    /// Mutation kind (`flip`, `inc`, `dec`, `max`, `drop`, `dup`, `swap`, `none`, `set`, ...).
    pub kind: &'static str,
    /// Position detail (indices, byte positions) for replay / reading.
    pub detail: String,
    /// The mutated value, or the name of the typed error the public constructor returned.
    pub value: Result<T, String>,
}

fn push<T>(out: &mut Vec<Mutant<T>>, field: &str, kind: &'static str, detail: String, v: T) {
    out.push(Mutant {
        field: field.to_owned(),
        kind,
        detail,
        value: Ok(v),
    });
}

fn flip(h: &Hash, p: usize) -> Hash {
    let mut o = *h;
    o[p] ^= 0x01;
    o
}

/// Byte positions flipped in 32-byte fields.
pub fn positions(thorough: bool) -> Vec<usize> {
    if thorough {
        vec![0, 7, 16, 31]
    } else {
        vec![0, 31]
    }
}

/// All 32 byte positions (replay mode).
pub fn all_positions() -> Vec<usize> {
    (0..32).collect()
}

fn bytes_variants(b: &[u8]) -> Vec<(&'static str, String, Vec<u8>)> {
    let mut v = Vec::new();
    if !b.is_empty() {
        let mut x = b.to_vec();
        x[0] ^= 1;
        v.push(("flip", "byte0".to_owned(), x));
        if b.len() > 1 {
            let mut x = b.to_vec();
            let l = x.len() - 1;
            x[l] ^= 1;
            v.push(("flip", "last".to_owned(), x));
        }
        let mut x = b.to_vec();
        x.pop();
        v.push(("truncate", "last".to_owned(), x));
    }
    let mut x = b.to_vec();
    x.push(0x5a);
    v.push(("append", "0x5a".to_owned(), x));
    v
}

fn u64_variants(v: u64) -> Vec<(&'static str, u64)> {
    vec![
        ("inc", v.wrapping_add(1)),
        ("dec", v.wrapping_sub(1)),
        ("max", u64::MAX),
    ]
}

// ---------------------------------------------------------------------------------------------
// ops / slots
// ---------------------------------------------------------------------------------------------

fn node_key_muts(nk: &NodeKey, pos: &[usize]) -> Vec<(&'static str, String, NodeKey)> {
    let mut v = Vec::new();
    for &p in pos {
        v.push((
            "warp_id",
            format!("b{p}"),
            NodeKey {
                warp_id: WarpId(flip(&nk.warp_id.0, p)),
                local_id: nk.local_id,
            },
        ));
        v.push((
            "local_id",
            format!("b{p}"),
            NodeKey {
                warp_id: nk.warp_id,
                local_id: warp_core::NodeId(flip(&nk.local_id.0, p)),
            },
        ));
    }
    v
}

fn edge_key_muts(ek: &EdgeKey, pos: &[usize]) -> Vec<(&'static str, String, EdgeKey)> {
    let mut v = Vec::new();
    for &p in pos {
        v.push((
            "warp_id",
            format!("b{p}"),
            EdgeKey {
                warp_id: WarpId(flip(&ek.warp_id.0, p)),
                local_id: ek.local_id,
            },
        ));
        v.push((
            "local_id",
            format!("b{p}"),
            EdgeKey {
                warp_id: ek.warp_id,
                local_id: warp_core::EdgeId(flip(&ek.local_id.0, p)),
            },
        ));
    }
    v
}

fn att_key_muts(k: &AttachmentKey, pos: &[usize]) -> Vec<(String, &'static str, String, AttachmentKey)> {
    let mut v = Vec::new();
    match k.owner {
        AttachmentOwner::Node(nk) => {
            for (f, d, n) in node_key_muts(&nk, pos) {
                v.push((
                    format!("owner.node.{f}"),
                    "flip",
                    d,
                    AttachmentKey {
                        owner: AttachmentOwner::Node(n),
                        plane: k.plane,
                    },
                ));
            }
            // owner kind: node -> edge with the same bytes
            v.push((
                "owner".to_owned(),
                "kind",
                "node->edge".to_owned(),
                AttachmentKey {
                    owner: AttachmentOwner::Edge(EdgeKey {
                        warp_id: nk.warp_id,
                        local_id: warp_core::EdgeId(nk.local_id.0),
                    }),
                    plane: k.plane,
                },
            ));
        }
        AttachmentOwner::Edge(ek) => {
            for (f, d, e) in edge_key_muts(&ek, pos) {
                v.push((
                    format!("owner.edge.{f}"),
                    "flip",
                    d,
                    AttachmentKey {
                        owner: AttachmentOwner::Edge(e),
                        plane: k.plane,
                    },
                ));
            }
            v.push((
                "owner".to_owned(),
                "kind",
                "edge->node".to_owned(),
                AttachmentKey {
                    owner: AttachmentOwner::Node(NodeKey {
                        warp_id: ek.warp_id,
                        local_id: warp_core::NodeId(ek.local_id.0),
                    }),
                    plane: k.plane,
                },
            ));
        }
    }
    v.push((
        "plane".to_owned(),
        "toggle",
        String::new(),
        AttachmentKey {
            owner: k.owner,
            plane: match k.plane {
                AttachmentPlane::Alpha => AttachmentPlane::Beta,
                AttachmentPlane::Beta => AttachmentPlane::Alpha,
            },
        },
    ));
    v
}

/// Alter exactly one field of one op.
pub fn op_field_muts(op: &WarpOp, pos: &[usize]) -> Vec<(String, &'static str, String, WarpOp)> {
    let mut v: Vec<(String, &'static str, String, WarpOp)> = Vec::new();
    match op {
        WarpOp::UpsertNode { node, record } => {
            for (f, d, n) in node_key_muts(node, pos) {
                v.push((
                    format!("UpsertNode.node.{f}"),
                    "flip",
                    d,
                    WarpOp::UpsertNode {
                        node: n,
                        record: record.clone(),
                    },
                ));
            }
            for &p in pos {
                let mut r = record.clone();
                r.ty = TypeId(flip(&r.ty.0, p));
                v.push((
                    "UpsertNode.record.ty".to_owned(),
                    "flip",
                    format!("b{p}"),
                    WarpOp::UpsertNode {
                        node: *node,
                        record: r,
                    },
                ));
            }
        }
        WarpOp::DeleteNode { node } => {
            for (f, d, n) in node_key_muts(node, pos) {
                v.push((
                    format!("DeleteNode.node.{f}"),
                    "flip",
                    d,
                    WarpOp::DeleteNode { node: n },
                ));
            }
        }
        WarpOp::UpsertEdge { warp_id, record } => {
            for &p in pos {
                v.push((
                    "UpsertEdge.warp_id".to_owned(),
                    "flip",
                    format!("b{p}"),
                    WarpOp::UpsertEdge {
                        warp_id: WarpId(flip(&warp_id.0, p)),
                        record: record.clone(),
                    },
                ));
                let mut r = record.clone();
                r.id = warp_core::EdgeId(flip(&r.id.0, p));
                v.push((
                    "UpsertEdge.record.id".to_owned(),
                    "flip",
                    format!("b{p}"),
                    WarpOp::UpsertEdge {
                        warp_id: *warp_id,
                        record: r,
                    },
                ));
                let mut r = record.clone();
                r.from = warp_core::NodeId(flip(&r.from.0, p));
                v.push((
                    "UpsertEdge.record.from".to_owned(),
                    "flip",
                    format!("b{p}"),
                    WarpOp::UpsertEdge {
                        warp_id: *warp_id,
                        record: r,
                    },
                ));
                let mut r = record.clone();
                r.to = warp_core::NodeId(flip(&r.to.0, p));
                v.push((
                    "UpsertEdge.record.to".to_owned(),
                    "flip",
                    format!("b{p}"),
                    WarpOp::UpsertEdge {
                        warp_id: *warp_id,
                        record: r,
                    },
                ));
                let mut r = record.clone();
                r.ty = TypeId(flip(&r.ty.0, p));
                v.push((
                    "UpsertEdge.record.ty".to_owned(),
                    "flip",
                    format!("b{p}"),
                    WarpOp::UpsertEdge {
                        warp_id: *warp_id,
                        record: r,
                    },
                ));
            }
            // swap endpoints
            let mut r = record.clone();
            std::mem::swap(&mut r.from, &mut r.to);
            if r.from != record.from {
                v.push((
                    "UpsertEdge.record.from_to".to_owned(),
                    "swap",
                    String::new(),
                    WarpOp::UpsertEdge {
                        warp_id: *warp_id,
                        record: r,
                    },
                ));
            }
        }
        WarpOp::DeleteEdge {
            warp_id,
            from,
            edge_id,
        } => {
            for &p in pos {
                v.push((
                    "DeleteEdge.warp_id".to_owned(),
                    "flip",
                    format!("b{p}"),
                    WarpOp::DeleteEdge {
                        warp_id: WarpId(flip(&warp_id.0, p)),
                        from: *from,
                        edge_id: *edge_id,
                    },
                ));
                v.push((
                    "DeleteEdge.from".to_owned(),
                    "flip",
                    format!("b{p}"),
                    WarpOp::DeleteEdge {
                        warp_id: *warp_id,
                        from: warp_core::NodeId(flip(&from.0, p)),
                        edge_id: *edge_id,
                    },
                ));
                v.push((
                    "DeleteEdge.edge_id".to_owned(),
                    "flip",
                    format!("b{p}"),
                    WarpOp::DeleteEdge {
                        warp_id: *warp_id,
                        from: *from,
                        edge_id: warp_core::EdgeId(flip(&edge_id.0, p)),
                    },
                ));
            }
        }
        WarpOp::SetAttachment { key, value } => {
            for (f, k, d, nk) in att_key_muts(key, pos) {
                v.push((
                    format!("SetAttachment.key.{f}"),
                    k,
                    d,
                    WarpOp::SetAttachment {
                        key: nk,
                        value: value.clone(),
                    },
                ));
            }
            match value {
                None => {
                    v.push((
                        "SetAttachment.value".to_owned(),
                        "some",
                        String::new(),
                        WarpOp::SetAttachment {
                            key: *key,
                            value: Some(AttachmentValue::Atom(AtomPayload {
                                type_id: TypeId([7; 32]),
                                bytes: Bytes::from_static(b"x"),
                            })),
                        },
                    ));
                }
                Some(AttachmentValue::Atom(a)) => {
                    v.push((
                        "SetAttachment.value".to_owned(),
                        "none",
                        String::new(),
                        WarpOp::SetAttachment {
                            key: *key,
                            value: None,
                        },
                    ));
                    v.push((
                        "SetAttachment.value".to_owned(),
                        "kind",
                        "atom->descend".to_owned(),
                        WarpOp::SetAttachment {
                            key: *key,
                            value: Some(AttachmentValue::Descend(WarpId(a.type_id.0))),
                        },
                    ));
                    for &p in pos {
                        v.push((
                            "SetAttachment.value.atom.type_id".to_owned(),
                            "flip",
                            format!("b{p}"),
                            WarpOp::SetAttachment {
                                key: *key,
                                value: Some(AttachmentValue::Atom(AtomPayload {
                                    type_id: TypeId(flip(&a.type_id.0, p)),
                                    bytes: a.bytes.clone(),
                                })),
                            },
                        ));
                    }
                    for (k, d, b) in bytes_variants(&a.bytes) {
                        v.push((
                            "SetAttachment.value.atom.bytes".to_owned(),
                            k,
                            d,
                            WarpOp::SetAttachment {
                                key: *key,
                                value: Some(AttachmentValue::Atom(AtomPayload {
                                    type_id: a.type_id,
                                    bytes: Bytes::from(b),
                                })),
                            },
                        ));
                    }
                }
                Some(AttachmentValue::Descend(w)) => {
                    v.push((
                        "SetAttachment.value".to_owned(),
                        "none",
                        String::new(),
                        WarpOp::SetAttachment {
                            key: *key,
                            value: None,
                        },
                    ));
                    for &p in pos {
                        v.push((
                            "SetAttachment.value.descend".to_owned(),
                            "flip",
                            format!("b{p}"),
                            WarpOp::SetAttachment {
                                key: *key,
                                value: Some(AttachmentValue::Descend(WarpId(flip(&w.0, p)))),
                            },
                        ));
                    }
                }
            }
        }
        WarpOp::DeleteWarpInstance { warp_id } => {
            for &p in pos {
                v.push((
                    "DeleteWarpInstance.warp_id".to_owned(),
                    "flip",
                    format!("b{p}"),
                    WarpOp::DeleteWarpInstance {
                        warp_id: WarpId(flip(&warp_id.0, p)),
                    },
                ));
            }
        }
        WarpOp::UpsertWarpInstance { instance } => {
            for &p in pos {
                let mut i = instance.clone();
                i.warp_id = WarpId(flip(&i.warp_id.0, p));
                v.push((
                    "UpsertWarpInstance.warp_id".to_owned(),
                    "flip",
                    format!("b{p}"),
                    WarpOp::UpsertWarpInstance { instance: i },
                ));
                let mut i = instance.clone();
                i.root_node = warp_core::NodeId(flip(&i.root_node.0, p));
                v.push((
                    "UpsertWarpInstance.root_node".to_owned(),
                    "flip",
                    format!("b{p}"),
                    WarpOp::UpsertWarpInstance { instance: i },
                ));
            }
        }
        WarpOp::OpenPortal {
            key,
            child_warp,
            child_root,
            init,
        } => {
            for &p in pos {
                v.push((
                    "OpenPortal.child_warp".to_owned(),
                    "flip",
                    format!("b{p}"),
                    WarpOp::OpenPortal {
                        key: *key,
                        child_warp: WarpId(flip(&child_warp.0, p)),
                        child_root: *child_root,
                        init: init.clone(),
                    },
                ));
                v.push((
                    "OpenPortal.child_root".to_owned(),
                    "flip",
                    format!("b{p}"),
                    WarpOp::OpenPortal {
                        key: *key,
                        child_warp: *child_warp,
                        child_root: warp_core::NodeId(flip(&child_root.0, p)),
                        init: init.clone(),
                    },
                ));
            }
        }
    }
    v
}

fn slot_field_muts(s: &SlotId, pos: &[usize]) -> Vec<(String, &'static str, String, SlotId)> {
    let mut v = Vec::new();
    match s {
        SlotId::Node(nk) => {
            for (f, d, n) in node_key_muts(nk, pos) {
                v.push((format!("node.{f}"), "flip", d, SlotId::Node(n)));
            }
            v.push((
                "tag".to_owned(),
                "kind",
                "node->attachment".to_owned(),
                SlotId::Attachment(AttachmentKey::node_alpha(*nk)),
            ));
        }
        SlotId::Edge(ek) => {
            for (f, d, e) in edge_key_muts(ek, pos) {
                v.push((format!("edge.{f}"), "flip", d, SlotId::Edge(e)));
            }
            v.push((
                "tag".to_owned(),
                "kind",
                "edge->attachment".to_owned(),
                SlotId::Attachment(AttachmentKey::edge_beta(*ek)),
            ));
        }
        SlotId::Attachment(k) => {
            for (f, kind, d, nk) in att_key_muts(k, pos) {
                v.push((format!("attachment.{f}"), kind, d, SlotId::Attachment(nk)));
            }
            if let AttachmentOwner::Node(nk) = k.owner {
                v.push((
                    "tag".to_owned(),
                    "kind",
                    "attachment->node".to_owned(),
                    SlotId::Node(nk),
                ));
            }
        }
        SlotId::Port((w, pk)) => {
            for &p in pos {
                v.push((
                    "port.warp_id".to_owned(),
                    "flip",
                    format!("b{p}"),
                    SlotId::Port((WarpId(flip(&w.0, p)), *pk)),
                ));
            }
        }
    }
    v
}

/// Mutants of a patch (header, warp id, ops, slots, digest).
pub fn patch_muts(p: &WorldlineTickPatchV1, pos: &[usize]) -> Vec<Mutant<WorldlineTickPatchV1>> {
    let mut out = Vec::new();
    // header
    for (k, v) in u64_variants(p.header.commit_global_tick.as_u64()) {
        let mut c = p.clone();
        c.header.commit_global_tick = GlobalTick::from_raw(v);
        push(&mut out, "patch.header.commit_global_tick", k, String::new(), c);
    }
    for (k, v) in [
        ("inc", p.header.policy_id.wrapping_add(1)),
        ("dec", p.header.policy_id.wrapping_sub(1)),
    ] {
        let mut c = p.clone();
        c.header.policy_id = v;
        push(&mut out, "patch.header.policy_id", k, String::new(), c);
    }
    for &b in pos {
        let mut c = p.clone();
        c.header.rule_pack_id = flip(&c.header.rule_pack_id, b);
        push(&mut out, "patch.header.rule_pack_id", "flip", format!("b{b}"), c);
        let mut c = p.clone();
        c.header.plan_digest = flip(&c.header.plan_digest, b);
        push(&mut out, "patch.header.plan_digest", "flip", format!("b{b}"), c);
        let mut c = p.clone();
        c.header.decision_digest = flip(&c.header.decision_digest, b);
        push(&mut out, "patch.header.decision_digest", "flip", format!("b{b}"), c);
        let mut c = p.clone();
        c.header.rewrites_digest = flip(&c.header.rewrites_digest, b);
        push(&mut out, "patch.header.rewrites_digest", "flip", format!("b{b}"), c);
        let mut c = p.clone();
        c.warp_id = WarpId(flip(&c.warp_id.0, b));
        push(&mut out, "patch.warp_id", "flip", format!("b{b}"), c);
        let mut c = p.clone();
        c.patch_digest = flip(&c.patch_digest, b);
        push(&mut out, "patch.patch_digest", "flip", format!("b{b}"), c);
    }
    // ops
    for i in 0..p.ops.len() {
        let mut c = p.clone();
        c.ops.remove(i);
        push(&mut out, "patch.ops", "drop", format!("op{i}"), c);
        let mut c = p.clone();
        let d = c.ops[i].clone();
        c.ops.insert(i + 1, d);
        push(&mut out, "patch.ops", "dup", format!("op{i}"), c);
        if i + 1 < p.ops.len() {
            let mut c = p.clone();
            c.ops.swap(i, i + 1);
            push(&mut out, "patch.ops", "swap", format!("op{i}<->op{}", i + 1), c);
        }
        for (f, k, d, op) in op_field_muts(&p.ops[i], pos) {
            let mut c = p.clone();
            c.ops[i] = op;
            push(&mut out, &format!("patch.ops.{f}"), k, format!("op{i} {d}"), c);
        }
    }
    // duplicate-with-altered-copy: an op appended at the END whose sort key equals an earlier
    // op's (the canonicaliser's "last wins" could then pick the altered copy).
    for i in 0..p.ops.len() {
        if let WarpOp::SetAttachment { key, value: Some(_) } = &p.ops[i] {
            let mut c = p.clone();
            c.ops.push(WarpOp::SetAttachment {
                key: *key,
                value: None,
            });
            push(&mut out, "patch.ops", "append-shadow", format!("op{i} cleared copy at end"), c);
            let mut c = p.clone();
            c.ops.insert(
                0,
                WarpOp::SetAttachment {
                    key: *key,
                    value: None,
                },
            );
            push(&mut out, "patch.ops", "prepend-shadow", format!("op{i} cleared copy at start"), c);
        }
    }
    // slots
    for (name, which) in [("patch.in_slots", 0usize), ("patch.out_slots", 1usize)] {
        let slots = if which == 0 { &p.in_slots } else { &p.out_slots };
        let set = |c: &mut WorldlineTickPatchV1, v: Vec<SlotId>| {
            if which == 0 {
                c.in_slots = v
            } else {
                c.out_slots = v
            }
        };
        for i in 0..slots.len() {
            let mut v = slots.clone();
            v.remove(i);
            let mut c = p.clone();
            set(&mut c, v);
            push(&mut out, name, "drop", format!("slot{i}"), c);
            let mut v = slots.clone();
            v.insert(i + 1, slots[i]);
            let mut c = p.clone();
            set(&mut c, v);
            push(&mut out, name, "dup", format!("slot{i}"), c);
            if i + 1 < slots.len() {
                let mut v = slots.clone();
                v.swap(i, i + 1);
                let mut c = p.clone();
                set(&mut c, v);
                push(&mut out, name, "swap", format!("slot{i}<->slot{}", i + 1), c);
            }
            for (f, k, d, s) in slot_field_muts(&slots[i], pos) {
                let mut v = slots.clone();
                v[i] = s;
                let mut c = p.clone();
                set(&mut c, v);
                push(&mut out, &format!("{name}.{f}"), k, format!("slot{i} {d}"), c);
            }
        }
        // add a slot that was not there
        let mut v = slots.clone();
        v.push(SlotId::Node(NodeKey {
            warp_id: p.warp_id,
            local_id: warp_core::NodeId([0xee; 32]),
        }));
        let mut c = p.clone();
        set(&mut c, v);
        push(&mut out, name, "add", "bogus node slot".to_owned(), c);
    }
    out
}

// ---------------------------------------------------------------------------------------------
// receipt
// ---------------------------------------------------------------------------------------------

fn receipt_parts(r: &TickReceipt) -> (u64, Vec<TickReceiptEntry>, Vec<Vec<u32>>) {
    let entries = r.entries().to_vec();
    let blocked = (0..entries.len()).map(|i| r.blocked_by(i).to_vec()).collect();
    (r.tx().value(), entries, blocked)
}

fn rebuild_receipt(
    tx: u64,
    entries: Vec<TickReceiptEntry>,
    blocked: Vec<Vec<u32>>,
) -> Result<TickReceipt, String> {
    TickReceipt::try_from_retained_parts(TxId::from_raw(tx), entries, blocked)
        .map_err(|e| format!("TickReceiptPartsError::{}", crate::variant_name(&e)))
}

pub fn receipt_muts(r: &TickReceipt, pos: &[usize]) -> Vec<Mutant<TickReceipt>> {
    let mut out: Vec<Mutant<TickReceipt>> = Vec::new();
    let (tx, entries, blocked) = receipt_parts(r);
    let mut add = |field: &str, kind: &'static str, detail: String, v: Result<TickReceipt, String>| {
        out.push(Mutant {
            field: field.to_owned(),
            kind,
            detail,
            value: v,
        })
    };
    for (k, v) in u64_variants(tx) {
        add(
            "receipt.tx",
            k,
            String::new(),
            rebuild_receipt(v, entries.clone(), blocked.clone()),
        );
    }
    for i in 0..entries.len() {
        for &p in pos {
            let mut e = entries.clone();
            e[i].rule_id = flip(&e[i].rule_id, p);
            add(
                "receipt.entries.rule_id",
                "flip",
                format!("e{i} b{p}"),
                rebuild_receipt(tx, e, blocked.clone()),
            );
            let mut e = entries.clone();
            e[i].scope_hash = flip(&e[i].scope_hash, p);
            add(
                "receipt.entries.scope_hash",
                "flip",
                format!("e{i} b{p}"),
                rebuild_receipt(tx, e, blocked.clone()),
            );
            for (f, d, nk) in node_key_muts(&entries[i].scope, &[p]) {
                let mut e = entries.clone();
                e[i].scope = nk;
                add(
                    &format!("receipt.entries.scope.{f}"),
                    "flip",
                    format!("e{i} {d}"),
                    rebuild_receipt(tx, e, blocked.clone()),
                );
            }
        }
        for (name, d) in [
            ("applied", TickReceiptDisposition::Applied),
            (
                "rejected-footprint",
                TickReceiptDisposition::Rejected(TickReceiptRejection::FootprintConflict),
            ),
            (
                "rejected-obstruction",
                TickReceiptDisposition::Rejected(
                    TickReceiptRejection::ExecutableOperationObstruction,
                ),
            ),
        ] {
            if d == entries[i].disposition {
                continue;
            }
            // disposition alone
            let mut e = entries.clone();
            e[i].disposition = d;
            add(
                "receipt.entries.disposition",
                "set",
                format!("e{i} -> {name}"),
                rebuild_receipt(tx, e.clone(), blocked.clone()),
            );
            // disposition with the blocker list adjusted so that the parts stay canonical
            let mut b = blocked.clone();
            b[i] = match d {
                TickReceiptDisposition::Rejected(TickReceiptRejection::FootprintConflict) => {
                    (0..i as u32)
                        .filter(|j| entries[*j as usize].disposition == TickReceiptDisposition::Applied)
                        .take(1)
                        .collect()
                }
                _ => Vec::new(),
            };
            if b != blocked {
                add(
                    "receipt.entries.disposition",
                    "set+blockers",
                    format!("e{i} -> {name}"),
                    rebuild_receipt(tx, e, b),
                );
            }
        }
        // blocker lists
        let mut b = blocked.clone();
        b[i].push(i as u32);
        add(
            "receipt.blocked_by",
            "add",
            format!("e{i} self"),
            rebuild_receipt(tx, entries.clone(), b),
        );
        if i > 0 {
            let mut b = blocked.clone();
            if !b[i].contains(&0) {
                b[i].insert(0, 0);
                add(
                    "receipt.blocked_by",
                    "add",
                    format!("e{i} +0"),
                    rebuild_receipt(tx, entries.clone(), b),
                );
            }
        }
        for j in 0..blocked[i].len() {
            let mut b = blocked.clone();
            b[i].remove(j);
            add(
                "receipt.blocked_by",
                "drop",
                format!("e{i} blocker{j}"),
                rebuild_receipt(tx, entries.clone(), b),
            );
            let mut b = blocked.clone();
            b[i][j] = b[i][j].wrapping_add(1);
            add(
                "receipt.blocked_by",
                "inc",
                format!("e{i} blocker{j}"),
                rebuild_receipt(tx, entries.clone(), b),
            );
            let mut b = blocked.clone();
            let d = b[i][j];
            b[i].insert(j, d);
            add(
                "receipt.blocked_by",
                "dup",
                format!("e{i} blocker{j}"),
                rebuild_receipt(tx, entries.clone(), b),
            );
        }
        // entry list structure
        let mut e = entries.clone();
        let mut b = blocked.clone();
        e.remove(i);
        b.remove(i);
        add(
            "receipt.entries",
            "drop",
            format!("e{i}"),
            rebuild_receipt(tx, e, b),
        );
        let mut e = entries.clone();
        let mut b = blocked.clone();
        let (de, db) = (e[i], b[i].clone());
        e.insert(i + 1, de);
        b.insert(i + 1, db);
        add(
            "receipt.entries",
            "dup",
            format!("e{i}"),
            rebuild_receipt(tx, e, b),
        );
        if i + 1 < entries.len() {
            let mut e = entries.clone();
            let mut b = blocked.clone();
            e.swap(i, i + 1);
            b.swap(i, i + 1);
            add(
                "receipt.entries",
                "swap",
                format!("e{i}<->e{}", i + 1),
                rebuild_receipt(tx, e.clone(), b),
            );
            // swap entries only (blocker lists stay put)
            add(
                "receipt.entries",
                "swap-entries-only",
                format!("e{i}<->e{}", i + 1),
                rebuild_receipt(tx, e, blocked.clone()),
            );
        }
    }
    // blocker list count mismatch
    let mut b = blocked.clone();
    b.push(Vec::new());
    add(
        "receipt.blocked_by",
        "extra-list",
        String::new(),
        rebuild_receipt(tx, entries.clone(), b),
    );
    out
}

// ---------------------------------------------------------------------------------------------
// entries
// ---------------------------------------------------------------------------------------------

/// Context for entry mutation: other ids that exist in the same history.
pub struct EntryCtx {
    pub other_worldlines: Vec<WorldlineId>,
    pub other_heads: Vec<HeadId>,
    /// Refs of all entries of the history (for "add a valid extra parent").
    pub all_refs: Vec<ProvenanceRef>,
}

fn ref_muts(r: &ProvenanceRef, pos: &[usize], ctx: &EntryCtx) -> Vec<(String, &'static str, String, ProvenanceRef)> {
    let mut v = Vec::new();
    for &p in pos {
        let mut c = *r;
        c.worldline_id = WorldlineId::from_bytes(flip(c.worldline_id.as_bytes(), p));
        v.push(("worldline_id".to_owned(), "flip", format!("b{p}"), c));
        let mut c = *r;
        c.commit_hash = flip(&c.commit_hash, p);
        v.push(("commit_hash".to_owned(), "flip", format!("b{p}"), c));
    }
    for w in &ctx.other_worldlines {
        if *w != r.worldline_id {
            let mut c = *r;
            c.worldline_id = *w;
            v.push(("worldline_id".to_owned(), "other", "registered worldline".to_owned(), c));
        }
    }
    for (k, t) in u64_variants(r.worldline_tick.as_u64()) {
        let mut c = *r;
        c.worldline_tick = WorldlineTick::from_raw(t);
        v.push(("worldline_tick".to_owned(), k, String::new(), c));
    }
    v
}

/// Every single-field mutant of one entry.
pub fn entry_muts(e: &ProvenanceEntry, pos: &[usize], ctx: &EntryCtx) -> Vec<Mutant<ProvenanceEntry>> {
    let mut out: Vec<Mutant<ProvenanceEntry>> = Vec::new();
    // worldline id
    for &p in pos {
        let mut c = e.clone();
        c.worldline_id = WorldlineId::from_bytes(flip(c.worldline_id.as_bytes(), p));
        push(&mut out, "worldline_id", "flip", format!("b{p}"), c);
    }
    for w in &ctx.other_worldlines {
        if *w != e.worldline_id {
            let mut c = e.clone();
            c.worldline_id = *w;
            push(&mut out, "worldline_id", "other", "registered worldline".to_owned(), c);
        }
    }
    for (k, v) in u64_variants(e.worldline_tick.as_u64()) {
        let mut c = e.clone();
        c.worldline_tick = WorldlineTick::from_raw(v);
        push(&mut out, "worldline_tick", k, String::new(), c);
    }
    for (k, v) in u64_variants(e.commit_global_tick.as_u64()) {
        let mut c = e.clone();
        c.commit_global_tick = GlobalTick::from_raw(v);
        push(&mut out, "commit_global_tick", k, String::new(), c);
    }
    // head key
    match e.head_key {
        Some(hk) => {
            let mut c = e.clone();
            c.head_key = None;
            push(&mut out, "head_key", "none", String::new(), c);
            for &p in pos {
                let mut c = e.clone();
                c.head_key = Some(WriterHeadKey {
                    worldline_id: WorldlineId::from_bytes(flip(hk.worldline_id.as_bytes(), p)),
                    head_id: hk.head_id,
                });
                push(&mut out, "head_key.worldline_id", "flip", format!("b{p}"), c);
                let mut c = e.clone();
                c.head_key = Some(WriterHeadKey {
                    worldline_id: hk.worldline_id,
                    head_id: HeadId::from_bytes(flip(hk.head_id.as_bytes(), p)),
                });
                push(&mut out, "head_key.head_id", "flip", format!("b{p}"), c);
            }
            for w in &ctx.other_worldlines {
                if *w != hk.worldline_id {
                    let mut c = e.clone();
                    c.head_key = Some(WriterHeadKey {
                        worldline_id: *w,
                        head_id: hk.head_id,
                    });
                    push(&mut out, "head_key.worldline_id", "other", "registered worldline".to_owned(), c);
                }
            }
            for h in &ctx.other_heads {
                if *h != hk.head_id {
                    let mut c = e.clone();
                    c.head_key = Some(WriterHeadKey {
                        worldline_id: hk.worldline_id,
                        head_id: *h,
                    });
                    push(&mut out, "head_key.head_id", "other", "registered head".to_owned(), c);
                }
            }
        }
        None => {
            let mut c = e.clone();
            c.head_key = Some(WriterHeadKey {
                worldline_id: e.worldline_id,
                head_id: warp_core::make_head_id("h0"),
            });
            push(&mut out, "head_key", "some", String::new(), c);
        }
    }
    // parents
    for i in 0..e.parents.len() {
        for (f, k, d, r) in ref_muts(&e.parents[i], pos, ctx) {
            let mut c = e.clone();
            c.parents[i] = r;
            push(&mut out, &format!("parents.{f}"), k, format!("p{i} {d}"), c);
        }
        let mut c = e.clone();
        c.parents.remove(i);
        push(&mut out, "parents", "drop", format!("p{i}"), c);
        let mut c = e.clone();
        let d = c.parents[i];
        c.parents.insert(i, d);
        push(&mut out, "parents", "dup", format!("p{i}"), c);
    }
    // add an extra parent that really exists in the store at append time (earlier entry of the
    // same worldline), in canonical and in reversed order; and one that does not exist.
    for r in &ctx.all_refs {
        if r.worldline_id == e.worldline_id
            && r.worldline_tick < e.worldline_tick
            && !e.parents.contains(r)
        {
            let mut c = e.clone();
            c.parents.push(*r);
            c.parents.sort_by_key(|p| p.commit_hash);
            push(&mut out, "parents", "add-existing", format!("tick {}", r.worldline_tick.as_u64()), c);
            if e.parents.len() == 1 {
                let mut c = e.clone();
                c.parents.push(*r);
                c.parents.sort_by_key(|p| std::cmp::Reverse(p.commit_hash));
                push(
                    &mut out,
                    "parents",
                    "add-existing-noncanonical",
                    format!("tick {}", r.worldline_tick.as_u64()),
                    c,
                );
            }
        }
    }
    {
        let mut c = e.clone();
        c.parents.push(ProvenanceRef {
            worldline_id: e.worldline_id,
            worldline_tick: WorldlineTick::from_raw(0),
            commit_hash: [0xff; 32],
        });
        push(&mut out, "parents", "add-bogus", String::new(), c);
    }
    // expected triplet
    for &p in pos {
        let mut c = e.clone();
        c.expected.state_root = flip(&c.expected.state_root, p);
        push(&mut out, "expected.state_root", "flip", format!("b{p}"), c);
        let mut c = e.clone();
        c.expected.patch_digest = flip(&c.expected.patch_digest, p);
        push(&mut out, "expected.patch_digest", "flip", format!("b{p}"), c);
        let mut c = e.clone();
        c.expected.commit_hash = flip(&c.expected.commit_hash, p);
        push(&mut out, "expected.commit_hash", "flip", format!("b{p}"), c);
    }
    // event kind
    let kinds: Vec<(&str, ProvenanceEventKind)> = vec![
        ("LocalCommit", ProvenanceEventKind::LocalCommit),
        (
            "CrossWorldlineMessage",
            ProvenanceEventKind::CrossWorldlineMessage {
                source_worldline: e.worldline_id,
                source_worldline_tick: e.worldline_tick,
                message_id: [3; 32],
            },
        ),
        (
            "MergeImport",
            ProvenanceEventKind::MergeImport {
                source_worldline: e.worldline_id,
                source_worldline_tick: e.worldline_tick,
                op_id: [4; 32],
            },
        ),
        (
            "ConflictArtifact",
            ProvenanceEventKind::ConflictArtifact {
                artifact_id: [5; 32],
            },
        ),
        (
            "PluralArtifact",
            ProvenanceEventKind::PluralArtifact {
                plural_id: [6; 32],
                posture: CausalPosture::Shared,
            },
        ),
    ];
    for (name, k) in kinds {
        if std::mem::discriminant(&k) != std::mem::discriminant(&e.event_kind) {
            let mut c = e.clone();
            c.event_kind = k;
            push(&mut out, "event_kind", "set", name.to_owned(), c);
        }
    }
    match &e.event_kind {
        ProvenanceEventKind::MergeImport {
            source_worldline,
            source_worldline_tick,
            op_id,
        } => {
            for &p in pos {
                let mut c = e.clone();
                c.event_kind = ProvenanceEventKind::MergeImport {
                    source_worldline: WorldlineId::from_bytes(flip(source_worldline.as_bytes(), p)),
                    source_worldline_tick: *source_worldline_tick,
                    op_id: *op_id,
                };
                push(&mut out, "event_kind.merge_import.source_worldline", "flip", format!("b{p}"), c);
                let mut c = e.clone();
                c.event_kind = ProvenanceEventKind::MergeImport {
                    source_worldline: *source_worldline,
                    source_worldline_tick: *source_worldline_tick,
                    op_id: flip(op_id, p),
                };
                push(&mut out, "event_kind.merge_import.op_id", "flip", format!("b{p}"), c);
            }
            for (k, v) in u64_variants(source_worldline_tick.as_u64()) {
                let mut c = e.clone();
                c.event_kind = ProvenanceEventKind::MergeImport {
                    source_worldline: *source_worldline,
                    source_worldline_tick: WorldlineTick::from_raw(v),
                    op_id: *op_id,
                };
                push(&mut out, "event_kind.merge_import.source_worldline_tick", k, String::new(), c);
            }
        }
        _ => {}
    }
    // patch
    match &e.patch {
        Some(p) => {
            let mut c = e.clone();
            c.patch = None;
            push(&mut out, "patch", "none", String::new(), c);
            for m in patch_muts(p, pos) {
                let mut c = e.clone();
                c.patch = Some(m.value.clone().ok().expect("patch mutants are values"));
                out.push(Mutant {
                    field: m.field,
                    kind: m.kind,
                    detail: m.detail,
                    value: Ok(c),
                });
            }
        }
        None => {}
    }
    // receipt
    match &e.tick_receipt {
        Some(r) => {
            let mut c = e.clone();
            c.tick_receipt = None;
            push(&mut out, "receipt", "none", String::new(), c);
            for m in receipt_muts(r, pos) {
                let v = m.value.map(|r2| {
                    let mut c = e.clone();
                    c.tick_receipt = Some(r2);
                    c
                });
                out.push(Mutant {
                    field: m.field,
                    kind: m.kind,
                    detail: m.detail,
                    value: v,
                });
            }
        }
        None => {
            // attach a receipt to an entry that had none
            let tx = e.worldline_tick.as_u64().wrapping_add(1);
            let v = rebuild_receipt(tx, Vec::new(), Vec::new()).map(|r| {
                let mut c = e.clone();
                c.tick_receipt = Some(r);
                c
            });
            out.push(Mutant {
                field: "receipt".to_owned(),
                kind: "some",
                detail: "empty receipt".to_owned(),
                value: v,
            });
        }
    }
    // outputs
    for i in 0..e.outputs.len() {
        for &p in pos {
            let mut c = e.clone();
            c.outputs[i].0 = TypeId(flip(&c.outputs[i].0 .0, p));
            push(&mut out, "outputs.channel", "flip", format!("o{i} b{p}"), c);
        }
        for (k, d, b) in bytes_variants(&e.outputs[i].1) {
            let mut c = e.clone();
            c.outputs[i].1 = b;
            push(&mut out, "outputs.bytes", k, format!("o{i} {d}"), c);
        }
        let mut c = e.clone();
        c.outputs.remove(i);
        push(&mut out, "outputs", "drop", format!("o{i}"), c);
        let mut c = e.clone();
        let d = c.outputs[i].clone();
        c.outputs.insert(i, d);
        push(&mut out, "outputs", "dup", format!("o{i}"), c);
    }
    {
        let mut c = e.clone();
        c.outputs.push((TypeId([0x77; 32]), b"frame".to_vec()));
        push(&mut out, "outputs", "add", "one frame".to_owned(), c);
    }
    // atom writes
    for i in 0..e.atom_writes.len() {
        for (f, d, nk) in node_key_muts(&e.atom_writes[i].atom, pos) {
            let mut c = e.clone();
            c.atom_writes[i].atom = nk;
            push(&mut out, &format!("atom_writes.atom.{f}"), "flip", format!("a{i} {d}"), c);
        }
        for &p in pos {
            let mut c = e.clone();
            c.atom_writes[i].rule_id = flip(&c.atom_writes[i].rule_id, p);
            push(&mut out, "atom_writes.rule_id", "flip", format!("a{i} b{p}"), c);
        }
        for (k, v) in u64_variants(e.atom_writes[i].tick) {
            let mut c = e.clone();
            c.atom_writes[i].tick = v;
            push(&mut out, "atom_writes.tick", k, format!("a{i}"), c);
        }
        for (k, d, b) in bytes_variants(&e.atom_writes[i].new_value) {
            let mut c = e.clone();
            c.atom_writes[i].new_value = b;
            push(&mut out, "atom_writes.new_value", k, format!("a{i} {d}"), c);
        }
        let mut c = e.clone();
        c.atom_writes[i].old_value = match &c.atom_writes[i].old_value {
            Some(_) => None,
            None => Some(vec![1]),
        };
        push(&mut out, "atom_writes.old_value", "toggle", format!("a{i}"), c);
        let mut c = e.clone();
        c.atom_writes.remove(i);
        push(&mut out, "atom_writes", "drop", format!("a{i}"), c);
    }
    {
        let mut c = e.clone();
        c.atom_writes.push(AtomWrite::new(
            NodeKey {
                warp_id: e.patch.as_ref().map(|p| p.warp_id).unwrap_or(WarpId([0; 32])),
                local_id: warp_core::NodeId([0x42; 32]),
            },
            [0x43; 32],
            e.commit_global_tick.as_u64(),
            None,
            b"v".to_vec(),
        ));
        push(&mut out, "atom_writes", "add", "one write".to_owned(), c);
    }
    out
}

/// Names of the top-level entry fields that differ (used to label retained-byte flips).
pub fn changed_fields(a: &ProvenanceEntry, b: &ProvenanceEntry) -> Vec<&'static str> {
    let mut v = Vec::new();
    if a.worldline_id != b.worldline_id {
        v.push("worldline_id");
    }
    if a.worldline_tick != b.worldline_tick {
        v.push("worldline_tick");
    }
    if a.commit_global_tick != b.commit_global_tick {
        v.push("commit_global_tick");
    }
    if a.head_key != b.head_key {
        v.push("head_key");
    }
    if a.parents != b.parents {
        v.push("parents");
    }
    if a.event_kind != b.event_kind {
        v.push("event_kind");
    }
    if a.expected != b.expected {
        v.push("expected");
    }
    if a.patch != b.patch {
        v.push("patch");
    }
    if a.tick_receipt != b.tick_receipt {
        v.push("receipt");
    }
    if a.outputs != b.outputs {
        v.push("outputs");
    }
    if a.atom_writes != b.atom_writes {
        v.push("atom_writes");
    }
    v
}
