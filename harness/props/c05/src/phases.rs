//! The mutation phases.  Every phase calls the real public APIs of warp-core on altered material
//! and hands the observation to the uniform oracle (`crate::classify`) or to a phase-specific
//! reference check written from the property text.

use std::collections::BTreeMap;

use mc::{json, Report};
use rayon::prelude::*;
use warp_core::causal_wal::WalRuntimeStateDeltaRecord;
use warp_core::{
    compute_commit_hash_v2, derive_witnessed_suffix_shell_digest, evaluate_witnessed_suffix_admission,
    export_suffix, import_suffix, BoundaryTransitionRecord, BtrError, CausalSuffixBundle, CursorId,
    CursorRole, ExportSuffixRequest, Hash, HeadId, ImportSuffixRequest, PlaybackCursor,
    ProvenanceEntry, ProvenanceEventKind, ProvenanceRef, ProvenanceService, ProvenanceStore,
    ForkBasisRef, ParentMovementFootprint, ReplayCheckpoint, SlotId, StrandBasisReport,
    StrandDivergenceFootprint, StrandRevalidationState, TickCommitStatus, WarpTickPatchV1,
    WitnessedSuffixAdmissionContext, WorldlineTickHeaderV1, WorldlineTickPatchV1,
    WitnessedSuffixAdmissionOutcome, WitnessedSuffixAdmissionRequest, WitnessedSuffixExportContext,
    WitnessedSuffixLocalAdmissionPosture, WitnessedSuffixShell, WorldlineId, WorldlineState,
    WorldlineTick,
};

use crate::gen::History;
use crate::mutate::{self, EntryCtx, Mutant};
use crate::verify::{self, Baseline, Opts};
use crate::{classify, variant_name, Acc, Case, Mode, Params};

/// Operators that must have been applied at least once (vacuity guard).
pub const REQUIRED_OPERATORS: &[&str] = &[
    "entry:flip",
    "entry:inc",
    "entry:dec",
    "entry:max",
    "entry:drop",
    "entry:dup",
    "entry:swap",
    "entry:none",
    "entry:set",
    "entry:other",
    "entry:add",
    "entry:add-existing",
    "entry:add-bogus",
    "entry:kind",
    "entry:toggle",
    "entry:truncate",
    "entry:append",
    "entry:set+blockers",
    "structure:swap",
    "structure:dup",
    "structure:dup-at-end",
    "structure:drop",
    "structure:truncate",
    "structure:transplant-worldline",
    "structure:transplant-history",
    "checkpoint:inc",
    "checkpoint:dec",
    "checkpoint:flip",
    "checkpoint:state",
    "btr:flip",
    "btr:inc",
    "btr:drop",
    "btr:dup",
    "btr:swap",
    "suffix:flip",
    "suffix:inc",
    "suffix:drop",
    "suffix:dup",
    "suffix:swap",
    "suffix:some",
    "suffix:replace-same-count",
    "retained:bitflip",
];

fn wl_tag(w: WorldlineId) -> String {
    format!("w{}", w.as_bytes()[0])
}

fn entry_ctx(h: &History) -> EntryCtx {
    let mut heads: Vec<HeadId> = h.entries.iter().filter_map(|e| e.head_key.map(|k| k.head_id)).collect();
    heads.push(warp_core::make_head_id("h0"));
    heads.push(warp_core::make_head_id("h1"));
    heads.sort();
    heads.dedup();
    EntryCtx {
        other_worldlines: h.worldlines.clone(),
        other_heads: heads,
        all_refs: h.entries.iter().map(ProvenanceEntry::as_ref).collect(),
    }
}

// -------------------------------------------------------------------------------------------------
// positive direction
// -------------------------------------------------------------------------------------------------

/// Commit id v2 written from docs/spec/merkle-commit.md Decision 2 ("commits to version, parents,
/// state root, patch digest, and policy id"), independently of snapshot.rs.
pub fn reference_commit_id(state_root: &Hash, parents: &[Hash], patch_digest: &Hash, policy: u32) -> Hash {
    let mut h = blake3::Hasher::new();
    h.update(b"echo:commit_id:v2\0");
    h.update(&2u16.to_le_bytes());
    h.update(&(parents.len() as u64).to_le_bytes());
    for p in parents {
        h.update(p);
    }
    h.update(state_root);
    h.update(patch_digest);
    h.update(&policy.to_le_bytes());
    *h.finalize().as_bytes()
}

pub fn positive(acc: &mut Acc, h: &History, base: &Baseline) {
    let case = |field: &'static str| {
        json!({"case": {"config": [h.cfg.0, h.cfg.1], "history": h.label, "phase": "positive", "field": field, "kind": "untampered", "position": "", "detail": ""}})
    };
    // untampered material rebuilt into a fresh store verifies and yields the live results
    let v = verify::verify(h, base, &h.entries, &Opts::default());
    acc.evals += 1;
    if v.panic.is_some() || !v.errors.is_empty() || !v.diffs.is_empty() || !v.invariant.is_empty() {
        acc.violation(
            "positive:rebuild:untampered-history-rejected".to_owned(),
            json!({"case": case("entries")["case"], "verdict": format!("{v:?}")}),
        );
    }
    acc.count("positive_rebuilds_verified", 1);
    acc.count("positive_verifications", v.ok_checks as u64);
    // live frontier state root equals the replayed tip
    for w in &h.worldlines {
        if let (Some(live), Some(b)) = (h.live.get(w), base.per.get(w)) {
            if live.state_root() != b.last().map(|t| t.root).unwrap_or([0; 32]) {
                acc.violation(
                    "positive:replay:tip-differs-from-live-frontier".to_owned(),
                    case("tip"),
                );
            }
        }
    }
    // chain shape + independent commit ids
    for w in &h.worldlines {
        let es = h.entries_of(*w);
        let registered = h.prov.initial_boundary_hash(*w).ok();
        if registered != base.per.get(w).and_then(|b| b.first()).map(|t| t.root) {
            acc.violation("positive:chain:initial-boundary-differs".to_owned(), case("initial_boundary"));
        }
        for (i, e) in es.iter().enumerate() {
            acc.count("positive_commit_ids_recomputed", 1);
            if e.worldline_tick.as_u64() != i as u64 {
                acc.violation("positive:chain:tick-gap".to_owned(), case("worldline_tick"));
            }
            let want_parents: Vec<ProvenanceRef> = if i == 0 {
                Vec::new()
            } else {
                vec![es[i - 1].as_ref()]
            };
            if e.parents != want_parents {
                acc.violation("positive:chain:parents-not-previous-tip".to_owned(), case("parents"));
            }
            let Some(p) = e.patch.as_ref() else {
                acc.violation("positive:chain:entry-without-patch".to_owned(), case("patch"));
                continue;
            };
            let parent_hashes: Vec<Hash> = e.parents.iter().map(|p| p.commit_hash).collect();
            // the state root the commit id binds is the one replay materialises
            let replayed_root = base.per.get(w).and_then(|b| b.get(i + 1)).map(|t| t.root);
            if replayed_root != Some(e.expected.state_root) {
                acc.violation("positive:chain:recorded-root-differs-from-replay".to_owned(), case("expected.state_root"));
            }
            let reference = reference_commit_id(
                &e.expected.state_root,
                &parent_hashes,
                &e.expected.patch_digest,
                p.header.policy_id,
            );
            if reference != e.expected.commit_hash {
                acc.violation(
                    "positive:commit-id:differs-from-reference(parents,state_root,patch_digest,policy)".to_owned(),
                    case("expected.commit_hash"),
                );
            }
            let real = compute_commit_hash_v2(
                &e.expected.state_root,
                &parent_hashes,
                &e.expected.patch_digest,
                p.header.policy_id,
            );
            if real != e.expected.commit_hash {
                acc.violation("positive:commit-id:differs-from-compute_commit_hash_v2".to_owned(), case("expected.commit_hash"));
            }
            // sensitivity: the commit id must change when any bound input changes
            let mut variants: Vec<(&'static str, Hash)> = Vec::new();
            let mut sr = e.expected.state_root;
            sr[0] ^= 1;
            variants.push((
                "state_root",
                compute_commit_hash_v2(&sr, &parent_hashes, &e.expected.patch_digest, p.header.policy_id),
            ));
            let mut pd = e.expected.patch_digest;
            pd[31] ^= 1;
            variants.push((
                "patch_digest",
                compute_commit_hash_v2(&e.expected.state_root, &parent_hashes, &pd, p.header.policy_id),
            ));
            variants.push((
                "policy",
                compute_commit_hash_v2(
                    &e.expected.state_root,
                    &parent_hashes,
                    &e.expected.patch_digest,
                    p.header.policy_id.wrapping_add(1),
                ),
            ));
            let mut more = parent_hashes.clone();
            more.push([9; 32]);
            variants.push((
                "parents(add)",
                compute_commit_hash_v2(&e.expected.state_root, &more, &e.expected.patch_digest, p.header.policy_id),
            ));
            if !parent_hashes.is_empty() {
                let mut ph = parent_hashes.clone();
                ph[0][5] ^= 1;
                variants.push((
                    "parents(flip)",
                    compute_commit_hash_v2(&e.expected.state_root, &ph, &e.expected.patch_digest, p.header.policy_id),
                ));
                variants.push((
                    "parents(drop)",
                    compute_commit_hash_v2(&e.expected.state_root, &[], &e.expected.patch_digest, p.header.policy_id),
                ));
            }
            for (what, got) in variants {
                acc.count("positive_commit_id_sensitivity_checks", 1);
                if got == e.expected.commit_hash {
                    acc.violation(
                        format!("positive:commit-id:does-not-bind:{what}"),
                        case("expected.commit_hash"),
                    );
                }
            }
            // the patch digest is the digest of the replayable patch
            let canon = WarpTickPatchV1::new(
                p.header.policy_id,
                p.header.rule_pack_id,
                TickCommitStatus::Committed,
                p.in_slots.clone(),
                p.out_slots.clone(),
                p.ops.clone(),
            );
            if canon.digest() != p.patch_digest || p.patch_digest != e.expected.patch_digest {
                acc.violation("positive:patch-digest:differs-from-recomputation".to_owned(), case("patch.patch_digest"));
            }
        }
    }
    acc.sample(json!({
        "history": h.label, "config": [h.cfg.0, h.cfg.1],
        "entries": h.entries.iter().map(|e| json!({
            "worldline": wl_tag(e.worldline_id), "tick": e.worldline_tick.as_u64(),
            "global_tick": e.commit_global_tick.as_u64(),
            "head": e.head_key.map(|k| mc::hex(&k.head_id.as_bytes()[..4])),
            "parents": e.parents.len(), "ops": e.patch.as_ref().map(|p| p.ops.len()),
            "receipt_entries": e.tick_receipt.as_ref().map(|r| r.entries().len()),
            "commit": mc::hex(&e.expected.commit_hash[..6]),
        })).collect::<Vec<_>>(),
    }));
}

// -------------------------------------------------------------------------------------------------
// entry fields
// -------------------------------------------------------------------------------------------------

pub fn entry_fields(acc: &mut Acc, h: &History, base: &Baseline, prm: &Params) {
    let ctx = entry_ctx(h);
    for (pos, e) in h.entries.iter().enumerate() {
        let muts = mutate::entry_muts(e, &prm.pos, &ctx);
        // evaluate in parallel, record in order
        let verdicts: Vec<Option<(verify::Verdict, Option<verify::Verdict>)>> = muts
            .par_iter()
            .map(|m| match &m.value {
                Err(_) => None,
                Ok(me) if me == e => None,
                Ok(me) => {
                    let mut material = h.entries.clone();
                    material[pos] = me.clone();
                    let v = verify::verify(h, base, &material, &Opts::default());
                    let v2 = if m.field == "event_kind" {
                        // also offer the material to the append API its (altered) kind does not select
                        Some(verify::verify(
                            h,
                            base,
                            &material,
                            &Opts {
                                alt_route: true,
                                ..Opts::default()
                            },
                        ))
                    } else {
                        None
                    };
                    Some((v, v2))
                }
            })
            .collect();
        let recorded = !matches!(e.event_kind, ProvenanceEventKind::LocalCommit);
        for (m, res) in muts.iter().zip(verdicts) {
            let posl = format!("entry#{pos}({}@{})", wl_tag(e.worldline_id), e.worldline_tick.as_u64());
            // recorded (non-local) events are validated by a different append path
            let fname = if recorded { format!("recorded.{}", m.field) } else { m.field.clone() };
            let case = Case {
                h,
                phase: "entry",
                pos: posl,
                field: &fname,
                kind: m.kind,
                detail: &m.detail,
            };
            match (&m.value, res) {
                (Err(name), _) => {
                    // the public constructor refused to build the altered value: typed error
                    acc.evals += 1;
                    *acc.operators.entry(format!("entry:{}", m.kind)).or_insert(0) += 1;
                    acc.nontrivial.push(case.key());
                    acc.outcome(&format!("typed_error:construct:{name}"));
                    acc.count("rejected_with_typed_error", 1);
                }
                (Ok(_), None) => acc.count("noop_mutants_skipped", 1),
                (Ok(_), Some((v, v2))) => {
                    if acc.samples.len() < 4
                        && pos == 0
                        && ((m.field == "expected.commit_hash" && m.detail == "b0")
                            || (m.field == "commit_global_tick" && m.kind == "inc")
                            || (m.field == "parents.commit_hash" && m.detail.ends_with("b0"))
                            || (m.field == "patch.ops" && m.kind == "drop" && m.detail == "op0"))
                    {
                        acc.sample(json!({"case": case.json(), "errors": v.errors, "ok_checks": v.ok_checks, "diffs": v.diffs}));
                    }
                    classify(acc, &case, &v, Mode::SingleField);
                    if let Some(v2) = v2 {
                        let case2 = Case {
                            h,
                            phase: "entry",
                            pos: case.pos.clone(),
                            field: "event_kind(other-append-api)",
                            kind: m.kind,
                            detail: &m.detail,
                        };
                        classify(acc, &case2, &v2, Mode::SingleField);
                    }
                }
            }
        }
    }
    // every untouched entry through the wrong append API
    let v = verify::verify(
        h,
        base,
        &h.entries,
        &Opts {
            alt_route: true,
            ..Opts::default()
        },
    );
    let case = Case {
        h,
        phase: "entry",
        pos: "all".to_owned(),
        field: "append-api",
        kind: "other",
        detail: "local commits via append_recorded_event and vice versa",
    };
    classify(acc, &case, &v, Mode::SingleField);
}

// -------------------------------------------------------------------------------------------------
// structural
// -------------------------------------------------------------------------------------------------

struct StructJob {
    material: Vec<ProvenanceEntry>,
    allow_alt: bool,
    prefix_ok: bool,
    pos: String,
    field: &'static str,
    kind: &'static str,
    detail: String,
    mode: Mode,
}

pub fn structural(acc: &mut Acc, h: &History, base: &Baseline, all: &[History], idx: usize, prm: &Params) {
    let n = h.entries.len();
    let same_wl = |i: usize, j: usize| h.entries[i].worldline_id == h.entries[j].worldline_id;
    let mut jobs: Vec<StructJob> = Vec::new();
    let mut job = |material: Vec<ProvenanceEntry>, allow_alt: bool, prefix_ok: bool, pos: String, field: &'static str, kind: &'static str, detail: String, mode: Mode| {
        jobs.push(StructJob { material, allow_alt, prefix_ok, pos, field, kind, detail, mode })
    };
    // swap two entries (same worldline: order matters; different worldlines: a mere re-ordering)
    for i in 0..n {
        for j in (i + 1)..n {
            let mut m = h.entries.clone();
            m.swap(i, j);
            let field = if same_wl(i, j) { "entries(same-worldline)" } else { "entries(cross-worldline-order)" };
            let d = format!("{i}<->{j}");
            job(m, false, false, d.clone(), field, "swap", d, Mode::Structural);
        }
    }
    for i in 0..n {
        let d = format!("{i}");
        // duplicate right after the original
        let mut m = h.entries.clone();
        m.insert(i + 1, h.entries[i].clone());
        job(m, false, false, d.clone(), "entries", "dup", d.clone(), Mode::Structural);
        // duplicate at the end of the whole material
        let mut m = h.entries.clone();
        m.push(h.entries[i].clone());
        job(m, false, false, d.clone(), "entries", "dup-at-end", d.clone(), Mode::Structural);
        // drop one entry (gap unless it was a worldline's last)
        let mut m = h.entries.clone();
        m.remove(i);
        let is_last_of_wl = !h.entries[i + 1..].iter().any(|e| e.worldline_id == h.entries[i].worldline_id);
        job(
            m,
            false,
            is_last_of_wl,
            d.clone(),
            if is_last_of_wl { "entries(worldline-tip)" } else { "entries(inner)" },
            "drop",
            d.clone(),
            if is_last_of_wl { Mode::Truncation } else { Mode::Structural },
        );
    }
    // truncate at every length
    for k in 0..n {
        let d = format!("keep {k} of {n}");
        job(h.entries[..k].to_vec(), false, true, d.clone(), "entries", "truncate", d, Mode::Truncation);
    }
    // transplant from another worldline of the same history
    for i in 0..n {
        for j in 0..n {
            if i != j && !same_wl(i, j) {
                let mut m = h.entries.clone();
                m[i] = h.entries[j].clone();
                let d = format!("{i}<-{j}");
                job(m, false, false, d.clone(), "entries", "transplant-worldline", d.clone(), Mode::Structural);
                // ... relabelled to the destination worldline (worldline ids of entry, head, parents)
                let mut t = h.entries[j].clone();
                let (src, dst) = (t.worldline_id, h.entries[i].worldline_id);
                t.worldline_id = dst;
                if let Some(k) = t.head_key.as_mut() {
                    k.worldline_id = dst;
                }
                for p in &mut t.parents {
                    if p.worldline_id == src {
                        p.worldline_id = dst;
                    }
                }
                if t != h.entries[i] {
                    let mut m = h.entries.clone();
                    m[i] = t;
                    job(m, true, false, d.clone(), "entries(relabelled)", "transplant-worldline", d, Mode::Substitution);
                }
            }
        }
    }
    // transplant from other histories of the same configuration: the donor entry at the same
    // (worldline, tick) coordinate with different content
    let same_cfg: Vec<usize> = (0..all.len()).filter(|k| all[*k].cfg == h.cfg && *k != idx).collect();
    if !same_cfg.is_empty() && prm.donors > 0 {
        let start = same_cfg.iter().position(|k| *k > idx).unwrap_or(0);
        let mut used = 0;
        for step in 0..same_cfg.len() {
            if used >= prm.donors {
                break;
            }
            let donor = &all[same_cfg[(start + step) % same_cfg.len()]];
            let mut any = false;
            for i in 0..n {
                for d in &donor.entries {
                    if d.worldline_id == h.entries[i].worldline_id
                        && d.worldline_tick == h.entries[i].worldline_tick
                        && *d != h.entries[i]
                    {
                        any = true;
                        let mut m = h.entries.clone();
                        m[i] = d.clone();
                        job(m, true, false, format!("{i}"), "entries", "transplant-history", format!("{i}<-[{}]", donor.label), Mode::Substitution);
                    }
                }
            }
            if any {
                used += 1;
            }
        }
    }
    let verdicts: Vec<verify::Verdict> = jobs
        .par_iter()
        .map(|j| {
            verify::verify(
                h,
                base,
                &j.material,
                &Opts {
                    allow_alt: j.allow_alt,
                    prefix_ok: j.prefix_ok,
                    ..Opts::default()
                },
            )
        })
        .collect();
    for (j, v) in jobs.iter().zip(verdicts) {
        let case = Case { h, phase: "structure", pos: j.pos.clone(), field: j.field, kind: j.kind, detail: &j.detail };
        classify(acc, &case, &v, j.mode);
    }
}

// -------------------------------------------------------------------------------------------------
// checkpoints
// -------------------------------------------------------------------------------------------------

struct CpJob {
    w: WorldlineId,
    target: WorldlineId,
    cp: ReplayCheckpoint,
    field: &'static str,
    kind: &'static str,
    detail: String,
    genuine: bool,
}

enum CpOut {
    /// `add_checkpoint` admitted something that is not the chain's state at its coordinate.
    AdmittedBad,
    Verdict(verify::Verdict),
}

fn cp_eval(h: &History, base: &Baseline, j: &CpJob) -> CpOut {
    // 1. admission
    let admitted = mc::catch(|| {
        let mut p = verify::fresh_store(h);
        for e in &h.entries {
            verify::append_routed(&mut p, e, false).expect("untampered append");
        }
        let r = p.add_checkpoint(j.target, j.cp.clone());
        (p, r)
    });
    let (p, res) = match admitted {
        Ok(x) => x,
        Err(msg) => {
            return CpOut::Verdict(verify::Verdict {
                panic: Some(format!("checkpoint: {msg}")),
                ..Default::default()
            })
        }
    };
    if res.is_ok() && !j.genuine {
        // reference check: an admitted checkpoint is retained, verified material — it must be the
        // untampered state at its coordinate (state, root and recorded hash).
        let t = j.cp.checkpoint.worldline_tick;
        let lookup = t.checked_increment().unwrap_or(t);
        let stored = p.checkpoint_state_before(j.target, lookup);
        let orig = base.per.get(&j.target).and_then(|b| b.get(t.as_u64() as usize));
        let ok = match (&stored, orig) {
            (Some(s), Some(o)) => {
                let got = verify::tick_res(&s.state, false);
                s.checkpoint.worldline_tick == t
                    && s.checkpoint.state_hash == o.root
                    && got.root == o.root
                    && got.warp_fp == o.warp_fp
            }
            _ => false,
        };
        if !ok {
            return CpOut::AdmittedBad;
        }
    }
    // 2. uniform oracle with the checkpoint in the store
    CpOut::Verdict(verify::verify(
        h,
        base,
        &h.entries,
        &Opts {
            checkpoints: &[(j.target, j.cp.clone())],
            ..Opts::default()
        },
    ))
}

fn cp_record(acc: &mut Acc, h: &History, j: &CpJob, out: CpOut) {
    acc.count("checkpoint_cases", 1);
    let pos = format!("{}@{}", wl_tag(j.w), j.cp.checkpoint.worldline_tick.as_u64());
    let case = Case { h, phase: "checkpoint", pos, field: j.field, kind: j.kind, detail: &j.detail };
    match out {
        CpOut::AdmittedBad => {
            acc.evals += 1;
            *acc.operators.entry(format!("checkpoint:{}", j.kind)).or_insert(0) += 1;
            acc.nontrivial.push(case.key());
            acc.violation(
                format!("checkpoint-admit:{}:{}", j.field, j.kind),
                json!({"case": case.json(), "extra": "add_checkpoint admitted a checkpoint that is not the chain's state at its coordinate"}),
            );
            acc.outcome("oracle-fail:checkpoint-admitted");
        }
        CpOut::Verdict(v) => {
            if j.genuine {
                // positive direction: a genuine checkpoint must be admitted and change nothing
                acc.evals += 1;
                acc.count("positive_checkpoints_verified", 1);
                if v.panic.is_some() || !v.errors.is_empty() || !v.diffs.is_empty() {
                    acc.violation(
                        "positive:checkpoint:genuine-checkpoint-rejected-or-changes-results".to_owned(),
                        json!({"case": case.json(), "verdict": format!("{v:?}")}),
                    );
                }
            } else {
                classify(acc, &case, &v, Mode::SingleField);
            }
        }
    }
}

pub fn checkpoints(acc: &mut Acc, h: &History, base: &Baseline, _prm: &Params) {
    let mut jobs: Vec<CpJob> = Vec::new();
    for w in &h.worldlines {
        let states = &base.states[w];
        let len = states.len() - 1;
        for k in 0..=len {
            let good = ReplayCheckpoint::from_state(&states[k]);
            jobs.push(CpJob { w: *w, target: *w, cp: good.clone(), field: "genuine", kind: "genuine", detail: String::new(), genuine: true });
            // --- CheckpointRef fields ---
            let mut c = good.clone();
            c.checkpoint.worldline_tick = WorldlineTick::from_raw((k as u64).wrapping_add(1));
            jobs.push(CpJob { w: *w, target: *w, cp: c, field: "ref.worldline_tick", kind: "inc", detail: String::new(), genuine: false });
            let mut c = good.clone();
            c.checkpoint.worldline_tick = WorldlineTick::from_raw((k as u64).wrapping_sub(1));
            jobs.push(CpJob { w: *w, target: *w, cp: c, field: "ref.worldline_tick", kind: "dec", detail: String::new(), genuine: false });
            for b in [0usize, 31] {
                let mut c = good.clone();
                c.checkpoint.state_hash[b] ^= 1;
                jobs.push(CpJob { w: *w, target: *w, cp: c, field: "ref.state_hash", kind: "flip", detail: format!("b{b}"), genuine: false });
            }
            // --- state substitutions (everything reachable through public APIs) ---
            for j in 0..=len {
                if j != k {
                    // state of another tick, self-consistent hash, labelled tick k
                    let mut c = ReplayCheckpoint::from_state(&states[j]);
                    c.checkpoint.worldline_tick = WorldlineTick::from_raw(k as u64);
                    jobs.push(CpJob { w: *w, target: *w, cp: c, field: "state(other-tick)+hash", kind: "state", detail: format!("state of tick {j}"), genuine: false });
                    // state of another tick under the genuine ref
                    let c = ReplayCheckpoint { checkpoint: good.checkpoint, state: states[j].clone() };
                    jobs.push(CpJob { w: *w, target: *w, cp: c, field: "state(other-tick)", kind: "state", detail: format!("state of tick {j}"), genuine: false });
                }
            }
            for w2 in &h.worldlines {
                if w2 != w {
                    // genuine checkpoint offered to another worldline
                    jobs.push(CpJob { w: *w, target: *w2, cp: good.clone(), field: "worldline", kind: "state", detail: format!("offered to {}", wl_tag(*w2)), genuine: false });
                }
            }
            // fresh WorldlineState around the right warp state (no replay metadata)
            if let Ok(fresh) = WorldlineState::new(states[k].warp_state().clone(), *states[k].root()) {
                let c = ReplayCheckpoint { checkpoint: good.checkpoint, state: fresh };
                jobs.push(CpJob { w: *w, target: *w, cp: c, field: "state(fresh-metadata)", kind: "state", detail: String::new(), genuine: false });
            }
            // live frontier state (carries the committed-ingress ledger)
            if let Some(live) = h.live.get(w) {
                if live.current_tick().as_u64() == k as u64 {
                    let c = ReplayCheckpoint { checkpoint: good.checkpoint, state: live.clone() };
                    jobs.push(CpJob { w: *w, target: *w, cp: c, field: "state(live-frontier)", kind: "state", detail: String::new(), genuine: false });
                }
            }
            // cursor state after a FAILED seek: warp state advanced to k+1, replay metadata of k.
            if k < len {
                let es = h.entries_of(*w);
                let mut tampered = h.entries.clone();
                for e in tampered.iter_mut() {
                    if e.worldline_id == *w && e.worldline_tick.as_u64() == k as u64 {
                        e.expected.commit_hash[0] ^= 1;
                    }
                }
                let _ = es;
                let got = mc::catch(|| {
                    let mut p = verify::fresh_store(h);
                    for e in &tampered {
                        if verify::append_routed(&mut p, e, false).is_err() {
                            break;
                        }
                    }
                    let mut cur = PlaybackCursor::new(
                        CursorId([0xc7; 32]),
                        *w,
                        h.base.root().warp_id,
                        CursorRole::Reader,
                        &h.base,
                        WorldlineTick::from_raw(len as u64),
                    );
                    let a = cur.seek_to(WorldlineTick::from_raw(k as u64), &p, &h.base);
                    let b = cur.seek_to(WorldlineTick::from_raw(k as u64 + 1), &p, &h.base);
                    (a.is_ok(), b.is_err(), cur.materialized_state().clone())
                });
                if let Ok((true, true, s)) = got {
                    if s.state_root() != states[k].state_root() {
                        acc.count("checkpoint_states_from_failed_seek", 1);
                        let c = ReplayCheckpoint::from_state(&s);
                        let mut c1 = c.clone();
                        c1.checkpoint.worldline_tick = WorldlineTick::from_raw(k as u64);
                        jobs.push(CpJob { w: *w, target: *w, cp: c1, field: "state(after-failed-seek)+hash", kind: "state", detail: "warp state of k+1, metadata of k, self-consistent hash".to_owned(), genuine: false });
                        let c2 = ReplayCheckpoint { checkpoint: good.checkpoint, state: s };
                        jobs.push(CpJob { w: *w, target: *w, cp: c2, field: "state(after-failed-seek)", kind: "state", detail: "warp state of k+1, metadata of k, genuine ref".to_owned(), genuine: false });
                    }
                }
            }
            // state replayed from an accepted_same_state store (outputs altered at entry k-1)
            if k >= 1 {
                let mut alt = h.entries.clone();
                for e in alt.iter_mut() {
                    if e.worldline_id == *w && e.worldline_tick.as_u64() == (k - 1) as u64 {
                        e.outputs.push((warp_core::TypeId([0x77; 32]), b"frame".to_vec()));
                    }
                }
                let got = mc::catch(|| {
                    let mut p = verify::fresh_store(h);
                    for e in &alt {
                        if verify::append_routed(&mut p, e, false).is_err() {
                            break;
                        }
                    }
                    p.replay_worldline_state_at(*w, &h.base, WorldlineTick::from_raw(k as u64))
                });
                if let Ok(Ok(s)) = got {
                    let c = ReplayCheckpoint { checkpoint: good.checkpoint, state: s };
                    jobs.push(CpJob { w: *w, target: *w, cp: c, field: "state(last_materialization)", kind: "state", detail: "replayed from a store whose outputs were altered".to_owned(), genuine: false });
                }
            }
        }
    }
    let outs: Vec<CpOut> = jobs.par_iter().map(|j| cp_eval(h, base, j)).collect();
    for (j, o) in jobs.iter().zip(outs) {
        cp_record(acc, h, j, o);
    }
}

// -------------------------------------------------------------------------------------------------
// boundary transition records
// -------------------------------------------------------------------------------------------------

pub fn btr_err_name(e: &BtrError) -> String {
    match e {
        BtrError::History(h) => format!("BtrError::History.{}", variant_name(h)),
        other => format!("BtrError::{}", variant_name(other)),
    }
}

struct BtrJob {
    w: WorldlineId,
    range: (u64, u64),
    rec: BoundaryTransitionRecord,
    field: String,
    kind: &'static str,
    detail: String,
}

enum BtrOut {
    Panic(String),
    Rejected(String),
    /// Accepted and equal to the authoritative segment it names (same range as the original?).
    AcceptedGenuine { same_range: bool },
    AcceptedDifferent,
}

fn btr_eval(h: &History, j: &BtrJob) -> BtrOut {
    let rec = &j.rec;
    match mc::catch(|| h.prov.validate_btr(rec)) {
        Err(msg) => BtrOut::Panic(msg),
        Ok(Err(e)) => BtrOut::Rejected(btr_err_name(&e)),
        Ok(Ok(())) => {
            // reference check: a validated record must carry exactly the authoritative segment
            let wl = rec.worldline_id;
            let start = rec.payload.start_worldline_tick.as_u64();
            let mut same = rec.payload.worldline_id == wl
                && h.prov.u0(wl).ok() == Some(rec.u0_ref)
                && !rec.payload.entries.is_empty();
            for (i, e) in rec.payload.entries.iter().enumerate() {
                match h.prov.entry(wl, WorldlineTick::from_raw(start.wrapping_add(i as u64))) {
                    Ok(stored) if &stored == e => {}
                    _ => same = false,
                }
            }
            let want_in = if start == 0 {
                h.prov.initial_boundary_hash(wl).ok()
            } else {
                h.prov.entry(wl, WorldlineTick::from_raw(start - 1)).ok().map(|e| e.expected.state_root)
            };
            let want_out = rec.payload.entries.last().map(|e| e.expected.state_root);
            same = same && want_in == Some(rec.input_boundary_hash) && want_out == Some(rec.output_boundary_hash);
            if same {
                BtrOut::AcceptedGenuine {
                    same_range: wl == j.w
                        && start == j.range.0
                        && start + rec.payload.entries.len() as u64 == j.range.1,
                }
            } else {
                BtrOut::AcceptedDifferent
            }
        }
    }
}

fn btr_record(acc: &mut Acc, h: &History, j: &BtrJob, out: BtrOut) {
    acc.count("btr_cases", 1);
    acc.evals += 1;
    *acc.operators.entry(format!("btr:{}", j.kind)).or_insert(0) += 1;
    let case = Case {
        h,
        phase: "btr",
        pos: format!("{}[{}..{})", wl_tag(j.w), j.range.0, j.range.1),
        field: &j.field,
        kind: j.kind,
        detail: &j.detail,
    };
    acc.nontrivial.push(case.key());
    match out {
        BtrOut::Panic(msg) => {
            acc.violation(format!("validate_btr-panic:{}:{}", j.field, j.kind), json!({"case": case.json(), "panic": msg}));
            acc.outcome("oracle-fail:panic");
        }
        BtrOut::Rejected(name) => {
            acc.outcome(&format!("typed_error:validate_btr:{name}"));
            acc.count("rejected_with_typed_error", 1);
        }
        BtrOut::AcceptedGenuine { same_range: true } => {
            let k = format!("btr:{}:{}", j.field, j.kind);
            *acc.accepted_same.entry(k).or_insert(0) += 1;
            acc.outcome("accepted_same_state");
            acc.count("accepted_same_state", 1);
        }
        BtrOut::AcceptedGenuine { same_range: false } => {
            // the altered record is itself a genuine record of another (sub-)segment
            acc.outcome("accepted_genuine_subsegment");
            acc.count("accepted_genuine_subsegment", 1);
        }
        BtrOut::AcceptedDifferent => {
            acc.violation(
                format!("validate_btr:{}:{}", j.field, j.kind),
                json!({"case": case.json(), "extra": "validate_btr accepted a record that differs from the authoritative segment"}),
            );
            acc.outcome("oracle-fail:different-result-accepted");
        }
    }
}

pub fn btr(acc: &mut Acc, h: &History, _base: &Baseline, prm: &Params) {
    let ctx = entry_ctx(h);
    let mut jobs: Vec<BtrJob> = Vec::new();
    for w in &h.worldlines {
        let len = h.prov.len(*w).unwrap_or(0);
        for s in 0..len {
            for e in (s + 1)..=len {
                let rec = match h.prov.build_btr(*w, WorldlineTick::from_raw(s), WorldlineTick::from_raw(e), 7, vec![1, 2, 3]) {
                    Ok(r) => r,
                    Err(err) => {
                        acc.violation(
                            "positive:build_btr:untampered-segment-rejected".to_owned(),
                            json!({"case": {"config": [h.cfg.0, h.cfg.1], "history": h.label, "phase": "btr", "field": "segment", "kind": "untampered"}, "error": format!("{err:?}")}),
                        );
                        continue;
                    }
                };
                acc.count("positive_btrs_built_and_validated", 1);
                let range = (s, e);
                let mut go = |_acc: &mut Acc, field: &str, kind: &'static str, detail: String, r: BoundaryTransitionRecord| {
                    if r != rec {
                        jobs.push(BtrJob { w: *w, range, rec: r, field: field.to_owned(), kind, detail });
                    }
                };
                for b in &prm.pos {
                    let b = *b;
                    let mut r = rec.clone();
                    r.worldline_id = WorldlineId::from_bytes({ let mut x = *r.worldline_id.as_bytes(); x[b] ^= 1; x });
                    go(acc, "worldline_id", "flip", format!("b{b}"), r);
                    let mut r = rec.clone();
                    r.u0_ref.0[b] ^= 1;
                    go(acc, "u0_ref", "flip", format!("b{b}"), r);
                    let mut r = rec.clone();
                    r.input_boundary_hash[b] ^= 1;
                    go(acc, "input_boundary_hash", "flip", format!("b{b}"), r);
                    let mut r = rec.clone();
                    r.output_boundary_hash[b] ^= 1;
                    go(acc, "output_boundary_hash", "flip", format!("b{b}"), r);
                    let mut r = rec.clone();
                    r.payload.worldline_id = WorldlineId::from_bytes({ let mut x = *r.payload.worldline_id.as_bytes(); x[b] ^= 1; x });
                    go(acc, "payload.worldline_id", "flip", format!("b{b}"), r);
                }
                for w2 in &h.worldlines {
                    if w2 != w {
                        let mut r = rec.clone();
                        r.worldline_id = *w2;
                        go(acc, "worldline_id", "other", wl_tag(*w2), r);
                        let mut r = rec.clone();
                        r.worldline_id = *w2;
                        r.payload.worldline_id = *w2;
                        go(acc, "worldline_id+payload.worldline_id", "other", wl_tag(*w2), r);
                    }
                }
                for (kind, v) in [("inc", s.wrapping_add(1)), ("dec", s.wrapping_sub(1)), ("max", u64::MAX)] {
                    let mut r = rec.clone();
                    r.payload.start_worldline_tick = WorldlineTick::from_raw(v);
                    go(acc, "payload.start_worldline_tick", kind, String::new(), r);
                }
                for (kind, v) in [("inc", 8u64), ("dec", 6u64)] {
                    let mut r = rec.clone();
                    r.logical_counter = v;
                    go(acc, "logical_counter", kind, String::new(), r);
                }
                let mut r = rec.clone();
                r.auth_tag[0] ^= 1;
                go(acc, "auth_tag", "flip", "byte0".to_owned(), r);
                let mut r = rec.clone();
                r.auth_tag.clear();
                go(acc, "auth_tag", "truncate", "all".to_owned(), r);
                // boundary hashes replaced by other genuine roots of the chain
                if s + 1 < e {
                    let mut r = rec.clone();
                    r.output_boundary_hash = rec.payload.entries[0].expected.state_root;
                    go(acc, "output_boundary_hash", "other", "root of the first payload entry".to_owned(), r);
                }
                // payload structure
                let m = rec.payload.entries.len();
                for i in 0..m {
                    let mut r = rec.clone();
                    r.payload.entries.remove(i);
                    go(acc, "payload.entries", "drop", format!("{i}"), r);
                    let mut r = rec.clone();
                    let d = r.payload.entries[i].clone();
                    r.payload.entries.insert(i + 1, d);
                    go(acc, "payload.entries", "dup", format!("{i}"), r);
                    if i + 1 < m {
                        let mut r = rec.clone();
                        r.payload.entries.swap(i, i + 1);
                        go(acc, "payload.entries", "swap", format!("{i}<->{}", i + 1), r);
                    }
                    // drop the last entry AND fix the output boundary (a consistent shorter record
                    // is a valid record of a shorter segment: must equal the authoritative one)
                }
                if m >= 2 {
                    let mut r = rec.clone();
                    r.payload.entries.pop();
                    r.output_boundary_hash = r.payload.entries.last().map(|e| e.expected.state_root).unwrap_or([0; 32]);
                    go(acc, "payload.entries+output_boundary_hash", "truncate", "last".to_owned(), r);
                }
                // every single-field mutant of every payload entry (full-range record only, to
                // bound the product; sub-ranges share the code path)
                if s == 0 && e == len {
                    for i in 0..m {
                        for mu in mutate::entry_muts(&rec.payload.entries[i], &prm.pos, &ctx) {
                            if let Ok(me) = mu.value {
                                let mut r = rec.clone();
                                r.payload.entries[i] = me;
                                go(acc, &format!("payload.entries.{}", mu.field), mu.kind, format!("{i} {}", mu.detail), r);
                            }
                        }
                    }
                }
                // entries of another worldline
                for w2 in &h.worldlines {
                    if w2 != w {
                        let other = h.entries_of(*w2);
                        if let Some(o) = other.first() {
                            let mut r = rec.clone();
                            r.payload.entries[0] = o.clone();
                            go(acc, "payload.entries", "transplant-worldline", wl_tag(*w2), r);
                        }
                    }
                }
            }
        }
    }
    let outs: Vec<BtrOut> = jobs.par_iter().map(|j| btr_eval(h, j)).collect();
    for (j, o) in jobs.iter().zip(outs) {
        btr_record(acc, h, j, o);
    }
}

// -------------------------------------------------------------------------------------------------
// witnessed suffix bundles
// -------------------------------------------------------------------------------------------------

struct ExportCtx<'a> {
    prov: &'a ProvenanceService,
}

impl<'a> WitnessedSuffixExportContext for ExportCtx<'a> {
    fn source_entries(&self, request: &ExportSuffixRequest) -> Option<Vec<ProvenanceRef>> {
        let w = request.source_worldline_id;
        let len = self.prov.len(w).ok()?;
        let lo = request.base_frontier.worldline_tick.as_u64();
        let hi = request
            .target_frontier
            .map(|t| t.worldline_tick.as_u64())
            .unwrap_or(len.saturating_sub(1));
        let mut v = Vec::new();
        for t in (lo + 1)..=hi.min(len.saturating_sub(1)) {
            v.push(self.prov.entry(w, WorldlineTick::from_raw(t)).ok()?.as_ref());
        }
        Some(v)
    }
    fn boundary_witness(&self, request: &ExportSuffixRequest) -> Option<ProvenanceRef> {
        Some(request.base_frontier)
    }
}

struct AdmitCtx<'a> {
    prov: &'a ProvenanceService,
}

impl<'a> WitnessedSuffixAdmissionContext for AdmitCtx<'a> {
    fn source_shell_digest(&self, shell: &WitnessedSuffixShell) -> Option<Hash> {
        Some(derive_witnessed_suffix_shell_digest(shell))
    }
    fn resolve_target_basis(&self, b: ProvenanceRef) -> Option<ProvenanceRef> {
        match self.prov.entry(b.worldline_id, b.worldline_tick) {
            Ok(e) if e.expected.commit_hash == b.commit_hash => Some(b),
            _ => None,
        }
    }
    fn local_admission_posture(
        &self,
        request: &WitnessedSuffixAdmissionRequest,
    ) -> WitnessedSuffixLocalAdmissionPosture {
        WitnessedSuffixLocalAdmissionPosture::Admissible {
            admitted_refs: request.source_suffix.source_entries.clone(),
        }
    }
}

/// What an admission response decides: verdict kind, shell identity, basis, target and the exact
/// entries admitted / staged / kept plural (everything except the echoed basis-report evidence).
fn admission_core(
    r: &warp_core::WitnessedSuffixAdmissionResponse,
) -> (String, Hash, ProvenanceRef, Option<WorldlineId>, Vec<ProvenanceRef>) {
    let (target, refs) = match &r.outcome {
        WitnessedSuffixAdmissionOutcome::Admitted { target_worldline_id, admitted_refs, .. } => {
            (Some(*target_worldline_id), admitted_refs.clone())
        }
        WitnessedSuffixAdmissionOutcome::Staged { staged_refs, .. } => (None, staged_refs.clone()),
        WitnessedSuffixAdmissionOutcome::Plural { candidate_refs, .. } => (None, candidate_refs.clone()),
        WitnessedSuffixAdmissionOutcome::Conflict { source_ref, .. } => (None, vec![*source_ref]),
        WitnessedSuffixAdmissionOutcome::Obstructed { source_ref, .. } => (None, vec![*source_ref]),
    };
    (variant_name(&r.outcome), r.source_shell_digest, r.target_basis, target, refs)
}

fn ref_variants(r: &ProvenanceRef, pos: &[usize]) -> Vec<(String, &'static str, String, ProvenanceRef)> {
    let mut v = Vec::new();
    for &b in pos {
        let mut c = *r;
        c.worldline_id = WorldlineId::from_bytes({ let mut x = *c.worldline_id.as_bytes(); x[b] ^= 1; x });
        v.push(("worldline_id".to_owned(), "flip", format!("b{b}"), c));
        let mut c = *r;
        c.commit_hash[b] ^= 1;
        v.push(("commit_hash".to_owned(), "flip", format!("b{b}"), c));
    }
    for (k, t) in [("inc", r.worldline_tick.as_u64().wrapping_add(1)), ("dec", r.worldline_tick.as_u64().wrapping_sub(1)), ("max", u64::MAX)] {
        let mut c = *r;
        c.worldline_tick = WorldlineTick::from_raw(t);
        v.push(("worldline_tick".to_owned(), k, String::new(), c));
    }
    v
}

fn example_report(h: &History, s: &WitnessedSuffixShell) -> StrandBasisReport {
    let r = s.source_entries.first().copied().or(s.boundary_witness).unwrap_or(ProvenanceRef {
        worldline_id: s.source_worldline_id,
        worldline_tick: WorldlineTick::from_raw(0),
        commit_hash: [0; 32],
    });
    let _ = h;
    StrandBasisReport {
        strand_id: warp_core::make_strand_id("c05-example"),
        parent_anchor: ForkBasisRef {
            source_lane_id: r.worldline_id,
            fork_tick: r.worldline_tick,
            commit_hash: r.commit_hash,
            boundary_hash: [0x21; 32],
            provenance_ref: r,
        },
        child_worldline_id: s.source_worldline_id,
        source_suffix_start_tick: s.source_suffix_start_tick,
        source_suffix_end_tick: s.source_suffix_end_tick,
        realized_parent_ref: r,
        owned_divergence: StrandDivergenceFootprint::default(),
        parent_movement: ParentMovementFootprint::default(),
        parent_revalidation: StrandRevalidationState::AtAnchor,
    }
}

fn footprint_patch(reads: Vec<SlotId>, writes: Vec<SlotId>) -> WorldlineTickPatchV1 {
    WorldlineTickPatchV1 {
        header: WorldlineTickHeaderV1 {
            commit_global_tick: warp_core::GlobalTick::from_raw(0),
            policy_id: 0,
            rule_pack_id: [0; 32],
            plan_digest: [0; 32],
            decision_digest: [0; 32],
            rewrites_digest: [0; 32],
        },
        warp_id: warp_core::WarpId([0; 32]),
        ops: Vec::new(),
        in_slots: reads,
        out_slots: writes,
        patch_digest: [0; 32],
    }
}

fn bogus_slot(tag: u8) -> SlotId {
    SlotId::Node(warp_core::NodeKey {
        warp_id: warp_core::WarpId([tag; 32]),
        local_id: warp_core::NodeId([tag; 32]),
    })
}

/// Every field of a strand basis report (footprints are rebuilt through their public API).
fn report_muts(r: &StrandBasisReport, pos: &[usize]) -> Vec<(String, &'static str, String, StrandBasisReport)> {
    let mut v: Vec<(String, &'static str, String, StrandBasisReport)> = Vec::new();
    for &b in pos {
        let mut c = r.clone();
        c.strand_id = warp_core::StrandId::from_bytes({ let mut x = *c.strand_id.as_bytes(); x[b] ^= 1; x });
        v.push(("strand_id".to_owned(), "flip", format!("b{b}"), c));
        let mut c = r.clone();
        c.parent_anchor.source_lane_id = WorldlineId::from_bytes({ let mut x = *c.parent_anchor.source_lane_id.as_bytes(); x[b] ^= 1; x });
        v.push(("parent_anchor.source_lane_id".to_owned(), "flip", format!("b{b}"), c));
        let mut c = r.clone();
        c.parent_anchor.commit_hash[b] ^= 1;
        v.push(("parent_anchor.commit_hash".to_owned(), "flip", format!("b{b}"), c));
        let mut c = r.clone();
        c.parent_anchor.boundary_hash[b] ^= 1;
        v.push(("parent_anchor.boundary_hash".to_owned(), "flip", format!("b{b}"), c));
        let mut c = r.clone();
        c.child_worldline_id = WorldlineId::from_bytes({ let mut x = *c.child_worldline_id.as_bytes(); x[b] ^= 1; x });
        v.push(("child_worldline_id".to_owned(), "flip", format!("b{b}"), c));
    }
    for (k, t) in [("inc", r.parent_anchor.fork_tick.as_u64().wrapping_add(1)), ("dec", r.parent_anchor.fork_tick.as_u64().wrapping_sub(1))] {
        let mut c = r.clone();
        c.parent_anchor.fork_tick = WorldlineTick::from_raw(t);
        v.push(("parent_anchor.fork_tick".to_owned(), k, String::new(), c));
    }
    for (f, k, d, x) in ref_variants(&r.parent_anchor.provenance_ref, pos) {
        let mut c = r.clone();
        c.parent_anchor.provenance_ref = x;
        v.push((format!("parent_anchor.provenance_ref.{f}"), k, d, c));
    }
    for (f, k, d, x) in ref_variants(&r.realized_parent_ref, pos) {
        let mut c = r.clone();
        c.realized_parent_ref = x;
        v.push((format!("realized_parent_ref.{f}"), k, d, c));
    }
    for (k, t) in [("inc", r.source_suffix_start_tick.as_u64().wrapping_add(1)), ("dec", r.source_suffix_start_tick.as_u64().wrapping_sub(1))] {
        let mut c = r.clone();
        c.source_suffix_start_tick = WorldlineTick::from_raw(t);
        v.push(("source_suffix_start_tick".to_owned(), k, String::new(), c));
    }
    match r.source_suffix_end_tick {
        Some(e) => {
            for (k, t) in [("inc", e.as_u64().wrapping_add(1)), ("dec", e.as_u64().wrapping_sub(1))] {
                let mut c = r.clone();
                c.source_suffix_end_tick = Some(WorldlineTick::from_raw(t));
                v.push(("source_suffix_end_tick".to_owned(), k, String::new(), c));
            }
            let mut c = r.clone();
            c.source_suffix_end_tick = None;
            v.push(("source_suffix_end_tick".to_owned(), "none", String::new(), c));
        }
        None => {
            let mut c = r.clone();
            c.source_suffix_end_tick = Some(r.source_suffix_start_tick);
            v.push(("source_suffix_end_tick".to_owned(), "some", String::new(), c));
        }
    }
    // owned divergence footprint: one more slot; one slot replaced (same count)
    let reads: Vec<SlotId> = r.owned_divergence.read_slots().copied().collect();
    let writes: Vec<SlotId> = r.owned_divergence.write_slots().copied().collect();
    {
        let mut c = r.clone();
        c.owned_divergence.extend_patch(&footprint_patch(vec![bogus_slot(0xd1)], Vec::new()));
        v.push(("owned_divergence".to_owned(), "add", "one more read slot".to_owned(), c));
        if !writes.is_empty() {
            // replace one slot everywhere it occurs (the closed footprint is reads ∪ writes)
            let victim = writes[0];
            let swap = |v: &Vec<SlotId>| -> Vec<SlotId> {
                v.iter().map(|s| if *s == victim { bogus_slot(0xd2) } else { *s }).collect()
            };
            let mut f = StrandDivergenceFootprint::default();
            f.extend_patch(&footprint_patch(swap(&reads), swap(&writes)));
            if f.closed_len() == r.owned_divergence.closed_len() {
                let mut c = r.clone();
                c.owned_divergence = f;
                v.push(("owned_divergence".to_owned(), "replace-same-count", "one owned slot replaced".to_owned(), c));
            }
        }
        let mut c = r.clone();
        c.owned_divergence = StrandDivergenceFootprint::default();
        if c != *r {
            v.push(("owned_divergence".to_owned(), "drop", "emptied".to_owned(), c));
        }
    }
    // parent movement footprint
    let pw: Vec<SlotId> = r.parent_movement.write_slots().copied().collect();
    {
        let mut c = r.clone();
        c.parent_movement.extend_patch(&footprint_patch(Vec::new(), vec![bogus_slot(0xd3)]));
        v.push(("parent_movement".to_owned(), "add", "one more written slot".to_owned(), c));
        if !pw.is_empty() {
            let mut w2 = pw.clone();
            w2[0] = bogus_slot(0xd4);
            let mut f = ParentMovementFootprint::default();
            f.extend_patch(&footprint_patch(Vec::new(), w2));
            if f.write_len() == r.parent_movement.write_len() {
                let mut c = r.clone();
                c.parent_movement = f;
                v.push(("parent_movement".to_owned(), "replace-same-count", "one written slot replaced".to_owned(), c));
            }
        }
    }
    // revalidation state
    let alts = [
        ("AtAnchor", StrandRevalidationState::AtAnchor),
        (
            "ParentAdvancedDisjoint",
            StrandRevalidationState::ParentAdvancedDisjoint {
                parent_from: r.parent_anchor.provenance_ref,
                parent_to: r.realized_parent_ref,
            },
        ),
        (
            "RevalidationRequired",
            StrandRevalidationState::RevalidationRequired {
                parent_from: r.parent_anchor.provenance_ref,
                parent_to: r.realized_parent_ref,
                overlapping_slots: vec![bogus_slot(0xd5)],
            },
        ),
    ];
    for (name, a) in alts {
        if a != r.parent_revalidation {
            let mut c = r.clone();
            c.parent_revalidation = a;
            v.push(("parent_revalidation".to_owned(), "set", name.to_owned(), c));
        }
    }
    match &r.parent_revalidation {
        StrandRevalidationState::ParentAdvancedDisjoint { parent_from, parent_to } => {
            for (f, k, d, x) in ref_variants(parent_from, pos) {
                let mut c = r.clone();
                c.parent_revalidation = StrandRevalidationState::ParentAdvancedDisjoint { parent_from: x, parent_to: *parent_to };
                v.push((format!("parent_revalidation.parent_from.{f}"), k, d, c));
            }
            for (f, k, d, x) in ref_variants(parent_to, pos) {
                let mut c = r.clone();
                c.parent_revalidation = StrandRevalidationState::ParentAdvancedDisjoint { parent_from: *parent_from, parent_to: x };
                v.push((format!("parent_revalidation.parent_to.{f}"), k, d, c));
            }
        }
        StrandRevalidationState::RevalidationRequired { parent_from, parent_to, overlapping_slots } => {
            for (f, k, d, x) in ref_variants(parent_to, pos) {
                let mut c = r.clone();
                c.parent_revalidation = StrandRevalidationState::RevalidationRequired { parent_from: *parent_from, parent_to: x, overlapping_slots: overlapping_slots.clone() };
                v.push((format!("parent_revalidation.parent_to.{f}"), k, d, c));
            }
            if !overlapping_slots.is_empty() {
                let mut o = overlapping_slots.clone();
                o[0] = bogus_slot(0xd6);
                let mut c = r.clone();
                c.parent_revalidation = StrandRevalidationState::RevalidationRequired { parent_from: *parent_from, parent_to: *parent_to, overlapping_slots: o };
                v.push(("parent_revalidation.overlapping_slots".to_owned(), "replace-same-count", String::new(), c));
            }
        }
        StrandRevalidationState::AtAnchor => {}
    }
    v
}

fn shell_muts(s: &WitnessedSuffixShell, pos: &[usize], foreign: &[ProvenanceRef], h: &History) -> Vec<Mutant<WitnessedSuffixShell>> {
    let mut out = Vec::new();
    let mut add = |field: String, kind: &'static str, detail: String, v: WitnessedSuffixShell| {
        out.push(Mutant { field, kind, detail, value: Ok(v) })
    };
    match &s.basis_report {
        None => {
            let mut c = s.clone();
            c.basis_report = Some(example_report(h, s));
            add("shell.basis_report".to_owned(), "some", "hand-built report".to_owned(), c);
        }
        Some(r) => {
            let mut c = s.clone();
            c.basis_report = None;
            add("shell.basis_report".to_owned(), "none", String::new(), c);
            for (f, k, d, x) in report_muts(r, pos) {
                let mut c = s.clone();
                c.basis_report = Some(x);
                add(format!("shell.basis_report.{f}"), k, d, c);
            }
        }
    }
    for &b in pos {
        let mut c = s.clone();
        c.source_worldline_id = WorldlineId::from_bytes({ let mut x = *c.source_worldline_id.as_bytes(); x[b] ^= 1; x });
        add("shell.source_worldline_id".to_owned(), "flip", format!("b{b}"), c);
        let mut c = s.clone();
        c.witness_digest[b] ^= 1;
        add("shell.witness_digest".to_owned(), "flip", format!("b{b}"), c);
    }
    for (k, t) in [("inc", s.source_suffix_start_tick.as_u64().wrapping_add(1)), ("dec", s.source_suffix_start_tick.as_u64().wrapping_sub(1))] {
        let mut c = s.clone();
        c.source_suffix_start_tick = WorldlineTick::from_raw(t);
        add("shell.source_suffix_start_tick".to_owned(), k, String::new(), c);
    }
    match s.source_suffix_end_tick {
        Some(e) => {
            for (k, t) in [("inc", e.as_u64().wrapping_add(1)), ("dec", e.as_u64().wrapping_sub(1))] {
                let mut c = s.clone();
                c.source_suffix_end_tick = Some(WorldlineTick::from_raw(t));
                add("shell.source_suffix_end_tick".to_owned(), k, String::new(), c);
            }
            let mut c = s.clone();
            c.source_suffix_end_tick = None;
            add("shell.source_suffix_end_tick".to_owned(), "none", String::new(), c);
        }
        None => {
            let mut c = s.clone();
            c.source_suffix_end_tick = Some(s.source_suffix_start_tick);
            add("shell.source_suffix_end_tick".to_owned(), "some", String::new(), c);
        }
    }
    for i in 0..s.source_entries.len() {
        for (f, k, d, r) in ref_variants(&s.source_entries[i], pos) {
            let mut c = s.clone();
            c.source_entries[i] = r;
            add(format!("shell.source_entries.{f}"), k, format!("{i} {d}"), c);
        }
        let mut c = s.clone();
        c.source_entries.remove(i);
        add("shell.source_entries".to_owned(), "drop", format!("{i}"), c);
        let mut c = s.clone();
        let d = c.source_entries[i];
        c.source_entries.insert(i, d);
        add("shell.source_entries".to_owned(), "dup", format!("{i}"), c);
        if i + 1 < s.source_entries.len() {
            let mut c = s.clone();
            c.source_entries.swap(i, i + 1);
            add("shell.source_entries".to_owned(), "swap", format!("{i}<->{}", i + 1), c);
        }
        for f in foreign {
            let mut c = s.clone();
            c.source_entries[i] = *f;
            add("shell.source_entries".to_owned(), "transplant-worldline", format!("{i}"), c);
        }
    }
    match s.boundary_witness {
        Some(bw) => {
            for (f, k, d, r) in ref_variants(&bw, pos) {
                let mut c = s.clone();
                c.boundary_witness = Some(r);
                add(format!("shell.boundary_witness.{f}"), k, d, c);
            }
            let mut c = s.clone();
            c.boundary_witness = None;
            add("shell.boundary_witness".to_owned(), "none", String::new(), c);
        }
        None => {
            if let Some(f) = s.source_entries.first() {
                let mut c = s.clone();
                c.boundary_witness = Some(*f);
                add("shell.boundary_witness".to_owned(), "some", String::new(), c);
            }
        }
    }
    out
}

pub fn suffix(acc: &mut Acc, h: &History, _base: &Baseline, prm: &Params) {
    let ectx = ExportCtx { prov: &h.prov };
    let actx = AdmitCtx { prov: &h.prov };
    for w in &h.worldlines {
        let es = h.entries_of(*w);
        let len = es.len();
        if len == 0 {
            continue;
        }
        // target of the admission: the tip of another worldline when there is one
        let default_target_wl = h.worldlines.iter().find(|x| *x != w && !h.entries_of(**x).is_empty()).copied().unwrap_or(*w);
        let default_target_basis = h.entries_of(default_target_wl).last().map(ProvenanceEntry::as_ref).expect("tip");
        let mut configs: Vec<(usize, usize, bool, Option<StrandBasisReport>, WorldlineId, ProvenanceRef)> = Vec::new();
        for b in 0..len {
            for t in b..len {
                for explicit_target in [true, false] {
                    if !explicit_target && t != len - 1 {
                        continue;
                    }
                    configs.push((b, t, explicit_target, None, default_target_wl, default_target_basis));
                }
            }
        }
        // the forked child's own suffix with the real basis report of its strand, admitted on the
        // parent at the report's realized parent ref
        if let Some(rep) = &h.basis_report {
            if rep.child_worldline_id == *w {
                let b = rep.parent_anchor.fork_tick.as_u64() as usize;
                if b < len {
                    configs.push((b, len - 1, true, Some(rep.clone()), rep.realized_parent_ref.worldline_id, rep.realized_parent_ref));
                    acc.count("suffix_exports_with_real_basis_report", 1);
                }
            }
        }
        for (b, t, explicit_target, basis, target_wl, target_basis) in configs {
            {
                {
                    let foreign: Vec<ProvenanceRef> = if target_wl != *w { vec![target_basis] } else { Vec::new() };
                    let req = ExportSuffixRequest {
                        source_worldline_id: *w,
                        base_frontier: es[b].as_ref(),
                        target_frontier: if explicit_target { Some(es[t].as_ref()) } else { None },
                        basis_report: basis.clone(),
                    };
                    let bundle = match export_suffix(&req, &ectx) {
                        Ok(bd) => bd,
                        Err(ob) => {
                            acc.violation(
                                "positive:export_suffix:untampered-suffix-obstructed".to_owned(),
                                json!({"case": {"config": [h.cfg.0, h.cfg.1], "history": h.label, "phase": "suffix", "field": "export", "kind": "untampered", "detail": format!("base {b} target {t}")}, "obstruction": format!("{ob:?}")}),
                            );
                            continue;
                        }
                    };
                    let ireq = ImportSuffixRequest {
                        bundle: bundle.clone(),
                        target_worldline_id: target_wl,
                        target_basis,
                        basis_report: None,
                    };
                    let r0 = import_suffix(&ireq, &actx);
                    acc.count("positive_suffix_imports", 1);
                    let admitted = matches!(r0.admission.outcome, WitnessedSuffixAdmissionOutcome::Admitted { .. });
                    if !admitted || r0.bundle_digest != bundle.bundle_digest {
                        acc.violation(
                            "positive:import_suffix:untampered-bundle-not-admitted".to_owned(),
                            json!({"case": {"config": [h.cfg.0, h.cfg.1], "history": h.label, "phase": "suffix", "field": "import", "kind": "untampered", "detail": format!("base {b} target {t}")}, "result": format!("{r0:?}")}),
                        );
                        continue;
                    }
                    let areq0 = WitnessedSuffixAdmissionRequest {
                        source_suffix: bundle.source_suffix.clone(),
                        target_worldline_id: target_wl,
                        target_basis,
                        basis_report: None,
                    };
                    let e0 = evaluate_witnessed_suffix_admission(&areq0, &actx);
                    // ---- bundle mutants ----
                    let mut bundles: Vec<Mutant<CausalSuffixBundle>> = Vec::new();
                    for (f, k, d, r) in ref_variants(&bundle.base_frontier, &prm.pos) {
                        let mut c = bundle.clone();
                        c.base_frontier = r;
                        bundles.push(Mutant { field: format!("bundle.base_frontier.{f}"), kind: k, detail: d, value: Ok(c) });
                    }
                    for (f, k, d, r) in ref_variants(&bundle.target_frontier, &prm.pos) {
                        let mut c = bundle.clone();
                        c.target_frontier = r;
                        bundles.push(Mutant { field: format!("bundle.target_frontier.{f}"), kind: k, detail: d, value: Ok(c) });
                    }
                    for &bb in &prm.pos {
                        let mut c = bundle.clone();
                        c.bundle_digest[bb] ^= 1;
                        bundles.push(Mutant { field: "bundle.bundle_digest".to_owned(), kind: "flip", detail: format!("b{bb}"), value: Ok(c) });
                    }
                    // frontiers replaced by other genuine refs of the chain
                    for (i, other) in es.iter().enumerate() {
                        if i != b {
                            let mut c = bundle.clone();
                            c.base_frontier = other.as_ref();
                            bundles.push(Mutant { field: "bundle.base_frontier".to_owned(), kind: "other", detail: format!("ref of tick {i}"), value: Ok(c) });
                        }
                        if other.as_ref() != bundle.target_frontier {
                            let mut c = bundle.clone();
                            c.target_frontier = other.as_ref();
                            bundles.push(Mutant { field: "bundle.target_frontier".to_owned(), kind: "other", detail: format!("ref of tick {i}"), value: Ok(c) });
                        }
                    }
                    let smuts = shell_muts(&bundle.source_suffix, &prm.pos, &foreign, h);
                    for m in &smuts {
                        let mut c = bundle.clone();
                        c.source_suffix = m.value.clone().ok().expect("value");
                        bundles.push(Mutant { field: format!("bundle.{}", m.field), kind: m.kind, detail: m.detail.clone(), value: Ok(c) });
                    }
                    let pos = format!("{}[base {b}, target {t}{}{}]", wl_tag(*w), if explicit_target { "" } else { " implicit" }, if basis.is_some() { ", strand basis report" } else { "" });
                    for m in bundles {
                        let mb = m.value.ok().expect("value");
                        if mb == bundle {
                            continue;
                        }
                        acc.count("suffix_cases", 1);
                        acc.evals += 1;
                        *acc.operators.entry(format!("suffix:{}", m.kind)).or_insert(0) += 1;
                        let case = Case { h, phase: "suffix", pos: pos.clone(), field: &m.field, kind: m.kind, detail: &m.detail };
                        acc.nontrivial.push(case.key());
                        let req = ImportSuffixRequest { bundle: mb, target_worldline_id: target_wl, target_basis, basis_report: None };
                        match mc::catch(|| import_suffix(&req, &actx)) {
                            Err(msg) => {
                                acc.violation(format!("import_suffix-panic:{}:{}", m.field, m.kind), json!({"case": case.json(), "panic": msg}));
                                acc.outcome("oracle-fail:panic");
                            }
                            Ok(res) => {
                                if matches!(res.admission.outcome, WitnessedSuffixAdmissionOutcome::Obstructed { .. }) {
                                    acc.outcome("typed_error:import_suffix:Obstructed");
                                    acc.count("rejected_with_typed_error", 1);
                                } else if res == r0 {
                                    *acc.accepted_same.entry(format!("suffix:{}:{}", m.field, m.kind)).or_insert(0) += 1;
                                    acc.outcome("accepted_same_state");
                                    acc.count("accepted_same_state", 1);
                                } else if res.bundle_digest == r0.bundle_digest
                                    && admission_core(&res.admission) == admission_core(&r0.admission)
                                {
                                    // same digests, same verdict, same admitted entries on the same
                                    // basis: only the echoed basis report (evidence outside the
                                    // shell/bundle digests) differs
                                    *acc.accepted_outside_digest.entry(format!("suffix:{}:{}", m.field, m.kind)).or_insert(0) += 1;
                                    acc.outcome("accepted_outside_digest(same admitted entries)");
                                    acc.count("accepted_outside_digest", 1);
                                } else {
                                    acc.violation(
                                        format!("import_suffix:{}:{}", m.field, m.kind),
                                        json!({"case": case.json(), "extra": "import_suffix classified an altered bundle as something other than obstructed, with a result different from the original", "outcome": variant_name(&res.admission.outcome)}),
                                    );
                                    acc.outcome("oracle-fail:different-result-accepted");
                                }
                            }
                        }
                    }
                    // ---- shell mutants straight into the admission evaluator ----
                    for m in smuts {
                        let ms = m.value.ok().expect("value");
                        if ms == bundle.source_suffix {
                            continue;
                        }
                        acc.count("suffix_cases", 1);
                        acc.evals += 1;
                        *acc.operators.entry(format!("suffix:{}", m.kind)).or_insert(0) += 1;
                        let field = format!("admission.{}", m.field);
                        let case = Case { h, phase: "suffix", pos: pos.clone(), field: &field, kind: m.kind, detail: &m.detail };
                        acc.nontrivial.push(case.key());
                        let areq = WitnessedSuffixAdmissionRequest { source_suffix: ms, target_worldline_id: target_wl, target_basis, basis_report: None };
                        match mc::catch(|| evaluate_witnessed_suffix_admission(&areq, &actx)) {
                            Err(msg) => {
                                acc.violation(format!("evaluate_witnessed_suffix_admission-panic:{}:{}", field, m.kind), json!({"case": case.json(), "panic": msg}));
                                acc.outcome("oracle-fail:panic");
                            }
                            Ok(res) => {
                                if matches!(res.outcome, WitnessedSuffixAdmissionOutcome::Obstructed { .. }) {
                                    acc.outcome("typed_error:evaluate_witnessed_suffix_admission:Obstructed");
                                    acc.count("rejected_with_typed_error", 1);
                                } else if res == e0 {
                                    *acc.accepted_same.entry(format!("suffix:{}:{}", field, m.kind)).or_insert(0) += 1;
                                    acc.outcome("accepted_same_state");
                                    acc.count("accepted_same_state", 1);
                                } else if admission_core(&res) == admission_core(&e0) {
                                    *acc.accepted_outside_digest.entry(format!("suffix:{}:{}", field, m.kind)).or_insert(0) += 1;
                                    acc.outcome("accepted_outside_digest(same admitted entries)");
                                    acc.count("accepted_outside_digest", 1);
                                } else {
                                    acc.violation(
                                        format!("evaluate_witnessed_suffix_admission:{}:{}", field, m.kind),
                                        json!({"case": case.json(), "extra": "an altered shell was classified as something other than obstructed", "outcome": variant_name(&res.outcome)}),
                                    );
                                    acc.outcome("oracle-fail:different-result-accepted");
                                }
                            }
                        }
                    }
                }
            }
        }
    }
}

// -------------------------------------------------------------------------------------------------
// retained encoding: every single-bit flip of the WAL state-delta payload bytes
// -------------------------------------------------------------------------------------------------

pub fn retained(acc: &mut Acc, h: &History, base: &Baseline, prm: &Params, r: &Report) {
    // quick: two entries per selected history (the first one, and the first one whose receipt has a
    // rejected candidate with a blocker list); thorough: every entry.
    let first_conflict = h.entries.iter().position(|e| {
        e.tick_receipt.as_ref().is_some_and(|r| (0..r.entries().len()).any(|i| !r.blocked_by(i).is_empty()))
    });
    for (pos, e) in h.entries.iter().enumerate() {
        if !prm.thorough && pos != 0 && Some(pos) != first_conflict {
            continue;
        }
        let Some(receipt) = e.tick_receipt.as_ref() else {
            continue;
        };
        if !matches!(e.event_kind, ProvenanceEventKind::LocalCommit) {
            continue;
        }
        let rec = match WalRuntimeStateDeltaRecord::from_provenance_entry(receipt.digest(), None, e.clone()) {
            Ok(x) => x,
            Err(err) => {
                acc.violation(
                    "positive:retained:untampered-entry-not-encodable".to_owned(),
                    json!({"case": {"config": [h.cfg.0, h.cfg.1], "history": h.label, "phase": "retained", "field": "entry", "kind": "untampered"}, "error": format!("{err:?}")}),
                );
                continue;
            }
        };
        let Ok(bytes) = rec.to_payload_bytes() else {
            continue;
        };
        // round trip
        match WalRuntimeStateDeltaRecord::from_payload_bytes(&bytes) {
            Ok(back) if back.provenance_entry() == e => acc.count("positive_retained_round_trips", 1),
            other => {
                acc.violation(
                    "positive:retained:round-trip-differs".to_owned(),
                    json!({"case": {"config": [h.cfg.0, h.cfg.1], "history": h.label, "phase": "retained", "field": "entry", "kind": "untampered"}, "got": format!("{:?}", other.map(|_| ()))}),
                );
                continue;
            }
        }
        if r.over_budget_frac(0.9) {
            acc.capped = true;
            return;
        }
        let nbits = bytes.len() * 8;
        // decode every single-bit flip (parallel; merged in bit order)
        let results: Vec<(usize, Result<Result<ProvenanceEntry, String>, String>)> = (0..nbits)
            .into_par_iter()
            .map(|bit| {
                let mut b = bytes.clone();
                b[bit / 8] ^= 1 << (bit % 8);
                let res = mc::catch(|| {
                    WalRuntimeStateDeltaRecord::from_payload_bytes(&b)
                        .map(|x| x.provenance_entry().clone())
                        .map_err(|err| variant_name(&err))
                });
                (bit, res)
            })
            .collect();
        let mut decode_errors: BTreeMap<String, u64> = BTreeMap::new();
        for (bit, res) in results {
            acc.count("retained_bitflips", 1);
            if !matches!(res, Ok(Ok(_))) {
                acc.evals += 1;
                *acc.operators.entry("retained:bitflip".to_owned()).or_insert(0) += 1;
            }
            match res {
                Err(msg) => {
                    let d = format!("bit {bit}");
                    let case = Case { h, phase: "retained", pos: format!("entry#{pos}"), field: "payload-bytes", kind: "bitflip", detail: &d };
                    acc.nontrivial.push(case.key());
                    acc.violation("decode-panic:payload-bytes:bitflip".to_owned(), json!({"case": case.json(), "panic": msg}));
                    acc.outcome("oracle-fail:panic");
                }
                Ok(Err(name)) => {
                    *decode_errors.entry(name).or_insert(0) += 1;
                    acc.nontrivial.push(Report::key(format!("{:?}|{}|retained|{pos}|{bit}", h.cfg, h.label).as_bytes()));
                }
                Ok(Ok(me)) => {
                    acc.count("retained_bitflips_decoded_ok", 1);
                    let changed = mutate::changed_fields(e, &me);
                    let field = format!("retained({})", if changed.is_empty() { "identical".to_owned() } else { changed.join("+") });
                    let d = format!("bit {bit} (byte {} of {})", bit / 8, bytes.len());
                    let case = Case { h, phase: "retained", pos: format!("entry#{pos}"), field: &field, kind: "bitflip", detail: &d };
                    if changed.is_empty() {
                        // two different byte strings decode to the same entry: the encoding is not
                        // canonical — the decoder promises to reject that
                        acc.evals += 1;
                        *acc.operators.entry("retained:bitflip".to_owned()).or_insert(0) += 1;
                        acc.nontrivial.push(case.key());
                        acc.violation("decode:payload-bytes:bitflip-decodes-to-identical-entry".to_owned(), json!({"case": case.json()}));
                        continue;
                    }
                    let mut material = h.entries.clone();
                    material[pos] = me;
                    let v = verify::verify(h, base, &material, &Opts::default());
                    classify(acc, &case, &v, Mode::SingleField);
                }
            }
        }
        for (name, n) in decode_errors {
            *acc.outcomes.entry(format!("typed_error:decode:RetainedProvenanceError::{name}")).or_insert(0) += n;
            acc.count("rejected_with_typed_error", n);
        }
    }
}
