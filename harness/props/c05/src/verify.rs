//! The uniform procedure: rebuild a FRESH provenance store from (possibly mutated) material through
//! the public append APIs, then re-verify with every public verification path and compare every
//! successful result with the untampered baseline.

use std::collections::BTreeMap;

use warp_core::{
    CursorId, CursorRole, Hash, PlaybackCursor, ProvenanceEntry, ProvenanceEventKind,
    ProvenanceService, ProvenanceStore, ReplayCheckpoint, ReplayError, SeekError, WorldlineId,
    WorldlineState, WorldlineTick,
};

use crate::gen::History;
use crate::variant_name;

/// What a successful verification at one (worldline, tick) coordinate yields.
#[derive(Clone, Debug, PartialEq, Eq)]
pub struct TickRes {
    /// blake3 of `{:?}` of the materialised WarpState.
    pub warp_fp: [u8; 32],
    /// blake3 of the sorted lines of `{:#?}` (order-insensitive fallback), baseline only.
    pub warp_sorted_fp: Option<[u8; 32]>,
    /// Recomputed state root of the materialised state.
    pub root: Hash,
    /// State root recorded by the last replayed snapshot (None at tick 0).
    pub snap_root: Option<Hash>,
    /// Commit id recorded by the last replayed snapshot (None at tick 0).
    pub commit: Option<Hash>,
}

fn sorted_fp(s: &WorldlineState) -> [u8; 32] {
    let d = format!("{:#?}", s.warp_state());
    let mut lines: Vec<&str> = d.lines().collect();
    lines.sort_unstable();
    let mut h = blake3::Hasher::new();
    for l in lines {
        h.update(l.as_bytes());
        h.update(b"\n");
    }
    *h.finalize().as_bytes()
}

/// Streams `Debug` output straight into a hasher (no intermediate String).
pub struct HashWriter(pub blake3::Hasher);
impl std::fmt::Write for HashWriter {
    fn write_str(&mut self, s: &str) -> std::fmt::Result {
        self.0.update(s.as_bytes());
        Ok(())
    }
}

pub fn debug_fp<T: std::fmt::Debug>(t: &T) -> [u8; 32] {
    use std::fmt::Write;
    let mut w = HashWriter(blake3::Hasher::new());
    let _ = write!(w, "{t:?}");
    *w.0.finalize().as_bytes()
}

pub fn tick_res(s: &WorldlineState, with_sorted: bool) -> TickRes {
    TickRes {
        warp_fp: debug_fp(s.warp_state()),
        warp_sorted_fp: if with_sorted { Some(sorted_fp(s)) } else { None },
        root: s.state_root(),
        snap_root: s.last_snapshot().map(|x| x.state_root),
        commit: s.last_snapshot().map(|x| x.hash),
    }
}

pub fn meta_fp(s: &WorldlineState) -> [u8; 32] {
    debug_fp(&(
        s.tick_history(),
        s.last_materialization().iter().map(|c| (c.channel, c.data.clone())).collect::<Vec<_>>(),
        s.last_snapshot(),
    ))
}

/// Untampered results.
#[derive(Clone)]
pub struct Baseline {
    pub per: BTreeMap<WorldlineId, Vec<TickRes>>,
    pub states: BTreeMap<WorldlineId, Vec<WorldlineState>>,
    pub meta_tip: BTreeMap<WorldlineId, [u8; 32]>,
}

impl Baseline {
    pub fn len(&self, w: WorldlineId) -> usize {
        self.per.get(&w).map(|v| v.len() - 1).unwrap_or(0)
    }
}

pub fn replay_err_name(e: &ReplayError) -> String {
    match e {
        ReplayError::History(h) => format!("ReplayError::History.{}", variant_name(h)),
        ReplayError::Apply { source, .. } => format!("ReplayError::Apply.{}", variant_name(source)),
        other => format!("ReplayError::{}", variant_name(other)),
    }
}

pub fn seek_err_name(e: &SeekError) -> String {
    match e {
        SeekError::ApplyError { source, .. } => format!("SeekError::ApplyError.{}", variant_name(source)),
        other => format!("SeekError::{}", variant_name(other)),
    }
}

/// Baseline from the ORIGINAL live provenance service.
pub fn baseline(h: &History) -> Result<Baseline, String> {
    let mut per = BTreeMap::new();
    let mut states = BTreeMap::new();
    let mut meta_tip = BTreeMap::new();
    for w in &h.worldlines {
        let n = h.prov.len(*w).map_err(|e| format!("{e:?}"))?;
        let mut v = Vec::new();
        let mut ss = Vec::new();
        for t in 0..=n {
            let s = h
                .prov
                .replay_worldline_state_at(*w, &h.base, WorldlineTick::from_raw(t))
                .map_err(|e| format!("baseline replay {:?}@{t}: {e:?}", w))?;
            v.push(tick_res(&s, true));
            if t == n {
                meta_tip.insert(*w, meta_fp(&s));
            }
            ss.push(s);
        }
        per.insert(*w, v);
        states.insert(*w, ss);
    }
    Ok(Baseline {
        per,
        states,
        meta_tip,
    })
}

#[derive(Default, Debug, Clone)]
pub struct Verdict {
    /// `stage: message` of a caught panic.
    pub panic: Option<String>,
    /// Typed errors in the order they were observed (`stage:Type::Variant`).
    pub errors: Vec<String>,
    pub appended: usize,
    /// Broken stored-chain invariants (reference check written from the property text).
    pub invariant: Vec<String>,
    /// Successful verifications whose result differs from the untampered run.
    pub diffs: Vec<String>,
    /// Number of successful verifications that were compared.
    pub ok_checks: usize,
    /// Successful verifications with a different commit id than the original at that coordinate
    /// (only tolerated for whole-entry substitutions).
    pub alt_chain: usize,
    /// Store lengths after the rebuild.
    pub lens: BTreeMap<WorldlineId, u64>,
    /// Replay metadata (tick history, last materialization) at the tip differs from the original.
    pub meta_differs: bool,
    /// The order-insensitive fallback comparison was needed.
    pub used_sorted_fallback: bool,
}

pub struct Opts<'a> {
    /// Route entries to the *other* append API than their event kind suggests.
    pub alt_route: bool,
    /// Tolerate accepted results whose commit id differs from the original coordinate's.
    pub allow_alt: bool,
    /// Checkpoints to add after the appends: (worldline, checkpoint).
    pub checkpoints: &'a [(WorldlineId, ReplayCheckpoint)],
    /// Do not require full length (truncation).
    pub prefix_ok: bool,
}

impl<'a> Default for Opts<'a> {
    fn default() -> Self {
        Opts {
            alt_route: false,
            allow_alt: false,
            checkpoints: &[],
            prefix_ok: false,
        }
    }
}

/// Fresh store with the history's worldlines registered at the fixture's initial boundary.
pub fn fresh_store(h: &History) -> ProvenanceService {
    let mut p = ProvenanceService::new();
    for w in &h.worldlines {
        p.register_worldline(*w, &h.base).expect("register worldline");
    }
    p
}

pub fn append_routed(
    p: &mut ProvenanceService,
    e: &ProvenanceEntry,
    alt_route: bool,
) -> Result<(), warp_core::HistoryError> {
    let local = matches!(e.event_kind, ProvenanceEventKind::LocalCommit);
    if local != alt_route {
        p.append_local_commit(e.clone())
    } else {
        p.append_recorded_event(e.clone())
    }
}

/// Reference check of the stored chain (property sentence 1 + "append-only validation" mechanism):
/// gap-free ticks from 0, entry belongs to its worldline, canonical parents that exist with
/// matching commit ids, local commits attributed to a head of their worldline with a patch and a
/// receipt that agrees with the coordinate and the patch's decision digest.
pub fn store_invariant(h: &History, p: &ProvenanceService) -> Vec<String> {
    let mut bad = Vec::new();
    for w in &h.worldlines {
        let n = p.len(*w).unwrap_or(0);
        for t in 0..n {
            let Ok(e) = p.entry(*w, WorldlineTick::from_raw(t)) else {
                bad.push("entry-unreadable".to_owned());
                continue;
            };
            if e.worldline_id != *w {
                bad.push("stored-entry-foreign-worldline".to_owned());
            }
            if e.worldline_tick.as_u64() != t {
                bad.push("stored-tick-not-gap-free".to_owned());
            }
            if !e.parents.windows(2).all(|x| x[0].commit_hash < x[1].commit_hash) {
                bad.push("stored-parents-non-canonical".to_owned());
            }
            for par in &e.parents {
                match p.entry(par.worldline_id, par.worldline_tick) {
                    Ok(pe) => {
                        if pe.expected.commit_hash != par.commit_hash {
                            bad.push("stored-parent-commit-id-mismatch".to_owned());
                        }
                    }
                    Err(_) => bad.push("stored-parent-missing".to_owned()),
                }
            }
            if matches!(e.event_kind, ProvenanceEventKind::LocalCommit) {
                match e.head_key {
                    Some(hk) if hk.worldline_id == *w => {}
                    _ => bad.push("stored-local-commit-head-attribution".to_owned()),
                }
                if let (Some(r), Some(pt)) = (&e.tick_receipt, &e.patch) {
                    if r.tx().value() != t.wrapping_add(1) {
                        bad.push("stored-receipt-tx".to_owned());
                    }
                    if r.digest() != pt.header.decision_digest {
                        bad.push("stored-receipt-digest".to_owned());
                    }
                }
            } else if e.head_key.is_some() || e.tick_receipt.is_some() {
                bad.push("stored-recorded-event-impersonates-local".to_owned());
            }
            if e.patch.is_none() {
                bad.push("stored-entry-without-patch".to_owned());
            }
        }
    }
    bad.sort();
    bad.dedup();
    bad
}

fn compare(
    v: &mut Verdict,
    base: &Baseline,
    opts: &Opts,
    stage: &str,
    w: WorldlineId,
    t: u64,
    s: &WorldlineState,
) {
    let mut got = tick_res(s, false);
    if let Some(o) = base.per.get(&w).and_then(|x| x.get(t as usize)) {
        if got.warp_fp != o.warp_fp && got.root == o.root {
            got.warp_sorted_fp = Some(sorted_fp(s));
        }
    }
    compare_res(v, base, opts, stage, w, t, got);
}

fn compare_res(
    v: &mut Verdict,
    base: &Baseline,
    opts: &Opts,
    stage: &str,
    w: WorldlineId,
    t: u64,
    got: TickRes,
) {
    v.ok_checks += 1;
    let wl = w.as_bytes()[0];
    let Some(orig) = base.per.get(&w).and_then(|x| x.get(t as usize)) else {
        // verification succeeded beyond the original history
        if opts.allow_alt {
            v.alt_chain += 1;
        } else {
            v.diffs.push(format!("{stage}:w{wl}@{t}:beyond-original-history"));
        }
        return;
    };
    let mut what = Vec::new();
    if got.root != orig.root {
        what.push("state_root");
    }
    if got.snap_root != orig.snap_root {
        what.push("recorded_state_root");
    }
    if got.commit != orig.commit {
        what.push("commit_id");
    }
    if got.warp_fp != orig.warp_fp {
        // order-insensitive fallback (edge buckets are Vecs in insertion order)
        if got.root == orig.root && got.warp_sorted_fp.is_some() && got.warp_sorted_fp == orig.warp_sorted_fp {
            v.used_sorted_fallback = true;
        } else {
            what.push("warp_state");
        }
    }
    if what.is_empty() {
        return;
    }
    if opts.allow_alt && got.commit != orig.commit && got.commit.is_some() {
        v.alt_chain += 1;
        return;
    }
    v.diffs.push(format!("{stage}:w{wl}@{t}:{}", what.join("+")));
}

/// Rebuild + re-verify.
pub fn verify(h: &History, base: &Baseline, material: &[ProvenanceEntry], opts: &Opts) -> Verdict {
    let mut v = Verdict::default();
    // ---- append ----
    let built = mc::catch(|| {
        let mut p = fresh_store(h);
        let mut errs = Vec::new();
        let mut n = 0usize;
        for e in material {
            match append_routed(&mut p, e, opts.alt_route) {
                Ok(()) => n += 1,
                Err(err) => {
                    errs.push(format!("append:HistoryError::{}", variant_name(&err)));
                    break;
                }
            }
        }
        for (w, c) in opts.checkpoints {
            if let Err(err) = p.add_checkpoint(*w, c.clone()) {
                errs.push(format!("checkpoint:HistoryError::{}", variant_name(&err)));
            }
        }
        (p, errs, n)
    });
    let (p, errs, n) = match built {
        Ok(x) => x,
        Err(msg) => {
            v.panic = Some(format!("append: {msg}"));
            return v;
        }
    };
    v.errors = errs;
    v.appended = n;
    match mc::catch(|| store_invariant(h, &p)) {
        Ok(b) => v.invariant = b,
        Err(msg) => {
            v.panic = Some(format!("store-read: {msg}"));
            return v;
        }
    }
    // ---- replay every tick ----
    for w in &h.worldlines {
        let len = p.len(*w).unwrap_or(0);
        v.lens.insert(*w, len);
        let mut replay_failed = false;
        for t in 0..=len {
            match mc::catch(|| p.replay_worldline_state_at(*w, &h.base, WorldlineTick::from_raw(t))) {
                Err(msg) => {
                    v.panic = Some(format!("replay: {msg}"));
                    return v;
                }
                Ok(Err(e)) => {
                    replay_failed = true;
                    let name = format!("replay:{}", replay_err_name(&e));
                    if !v.errors.contains(&name) {
                        v.errors.push(name);
                    }
                }
                Ok(Ok(s)) => {
                    compare(&mut v, base, opts, "replay", *w, t, &s);
                    if t == len && !replay_failed {
                        if let Some(m) = base.meta_tip.get(w) {
                            if base.len(*w) as u64 == len && meta_fp(&s) != *m {
                                v.meta_differs = true;
                            }
                        }
                    }
                }
            }
        }
        // ---- playback cursor: forward walk (in-place advance), then backward seek (rebuild) ----
        let warp = h.base.root().warp_id;
        let r = mc::catch(|| {
            // (tick, result, order-insensitive fingerprint when the plain one differs from the original)
            let mut out: Vec<Result<(u64, TickRes), String>> = Vec::new();
            let snap = |t: u64, s: &WorldlineState| -> (u64, TickRes) {
                let mut tr = tick_res(s, false);
                if let Some(o) = base.per.get(w).and_then(|x| x.get(t as usize)) {
                    if tr.warp_fp != o.warp_fp && tr.root == o.root {
                        tr.warp_sorted_fp = Some(sorted_fp(s));
                    }
                }
                (t, tr)
            };
            let mut cur = PlaybackCursor::new(
                CursorId([0xc5; 32]),
                *w,
                warp,
                CursorRole::Reader,
                &h.base,
                WorldlineTick::from_raw(len),
            );
            let mut reached = 0u64;
            for t in 0..=len {
                match cur.seek_to(WorldlineTick::from_raw(t), &p, &h.base) {
                    Ok(()) => {
                        reached = t;
                        out.push(Ok(snap(t, cur.materialized_state())));
                    }
                    Err(e) => {
                        out.push(Err(seek_err_name(&e)));
                        break;
                    }
                }
            }
            if reached >= 2 {
                // backward seek (rebuild path) from the furthest verified position
                let back = reached / 2;
                match cur.seek_to(WorldlineTick::from_raw(reached), &p, &h.base)
                    .and_then(|()| cur.seek_to(WorldlineTick::from_raw(back), &p, &h.base))
                {
                    Ok(()) => out.push(Ok(snap(back, cur.materialized_state()))),
                    Err(e) => out.push(Err(seek_err_name(&e))),
                }
            }
            out
        });
        match r {
            Err(msg) => {
                v.panic = Some(format!("seek: {msg}"));
                return v;
            }
            Ok(list) => {
                for item in list {
                    match item {
                        Ok((t, tr)) => compare_res(&mut v, base, opts, "seek", *w, t, tr),
                        Err(name) => {
                            let name = format!("seek:{name}");
                            if !v.errors.contains(&name) {
                                v.errors.push(name);
                            }
                        }
                    }
                }
            }
        }
        if v.errors.is_empty() && !opts.prefix_ok && !opts.allow_alt && len != base.len(*w) as u64 {
            v.diffs.push(format!(
                "store:w{}:length {} != original {}",
                w.as_bytes()[0],
                len,
                base.len(*w)
            ));
        }
    }
    v
}
