//! Property check C18 — materialized output is independent of emission order.
//!
//! Exhaustive enumeration (no sampling) over a stated finite space, on the real
//! `MaterializationBus` / `ReduceOp` / `compute_emissions_digest` / frame encoders:
//!
//! * Phase A (order):   every slot set of size ≤ k from a slot alphabet × a 6- (quick) / 12-member payload
//!   assignment family × EVERY permutation of the emission order × every policy pair
//!   (11 options per channel: unregistered, Log, StrictSingle, Reduce × 8).
//! * Phase B (algebra): every slot set of size ≤ k from the 8-slot alphabet × EVERY payload
//!   assignment (6^k) × every policy (same on both channels), emitted in descending slot order
//!   (thorough: also ascending); reference fold;
//!   re-keying closure for the reducers that declare `is_commutative()`.
//! * Phase C (duplicates): every slot set of size ≤ kd × every permutation × every emitted slot
//!   re-emitted at every later position with every payload × every policy.
//!
//! The reference (`reference_finalize`, `ref_reduce`, `ref_digest`, `ref_frames`, `ref_v2`) is
//! written from the property text / documented wire formats with plain sorts and loops.

use mc::{json, Level, Report, Value};
use rayon::prelude::*;
use std::collections::{BTreeMap, BTreeSet};
use warp_core::compute_emissions_digest;
use warp_core::materialization::{
    compute_value_hash, decode_frames, decode_v2_packet, encode_frames, encode_v2_packet,
    make_channel_id, ChannelId, ChannelPolicy, EmissionPort, EmitKey, FinalizedChannel,
    MaterializationBus, MaterializationErrorKind, MaterializationFrame, MaterializationPort,
    ReduceOp, ScopedEmitter, V2Entry, V2PacketHeader,
};
use warp_core::WarpId;

// ───────────────────────────── universe ─────────────────────────────

#[derive(Clone, Copy, Debug)]
struct Slot {
    ch: usize,
    scope: usize,
    rule: usize,
    sub: usize,
}

struct U {
    channels: [ChannelId; 2],
    scopes: [[u8; 32]; 3],
    rules: [u32; 2],
    subs: [u32; 2],
    payloads: Vec<Vec<u8>>,
    slots: Vec<Slot>,
    header: V2PacketHeader,
}

const N_POL: usize = 11;
const CHN: [&str; 2] = ["a", "b"];
const OPS: [ReduceOp; 8] = [
    ReduceOp::Sum,
    ReduceOp::Max,
    ReduceOp::Min,
    ReduceOp::BitOr,
    ReduceOp::BitAnd,
    ReduceOp::First,
    ReduceOp::Last,
    ReduceOp::Concat,
];

/// Policy option index → (registered policy or None = channel left unregistered).
fn policy_of(i: usize) -> Option<ChannelPolicy> {
    match i {
        0 => None,
        1 => Some(ChannelPolicy::Log),
        2 => Some(ChannelPolicy::StrictSingle),
        n => Some(ChannelPolicy::Reduce(OPS[n - 3])),
    }
}

fn policy_name(i: usize) -> String {
    match i {
        0 => "Unregistered(Log)".into(),
        1 => "Log".into(),
        2 => "StrictSingle".into(),
        n => format!("Reduce({:?})", OPS[n - 3]),
    }
}

impl U {
    fn new() -> U {
        let mut s0 = [0u8; 32];
        s0[31] = 1; // small "numerically", smallest lexicographically
        let mut s1 = [0u8; 32];
        s1[0] = 1; // first byte decides: s1 > s0 although its tail is zero
        let s2 = [0xFFu8; 32];
        // (channel, scope, rule, subkey) — chosen so that every component of the key order is a
        // tie-breaker somewhere, the same key occurs in both channels, and rule/subkey pairs
        // (1, 256) / (0, 0x0100_0000) order differently numerically and as little-endian bytes.
        let slots = vec![
            Slot { ch: 0, scope: 0, rule: 0, sub: 0 },
            Slot { ch: 0, scope: 0, rule: 0, sub: 1 },
            Slot { ch: 0, scope: 0, rule: 1, sub: 0 },
            Slot { ch: 0, scope: 1, rule: 0, sub: 0 },
            Slot { ch: 0, scope: 2, rule: 1, sub: 1 },
            Slot { ch: 1, scope: 0, rule: 0, sub: 0 },
            Slot { ch: 1, scope: 1, rule: 1, sub: 1 },
            Slot { ch: 1, scope: 2, rule: 0, sub: 0 },
            // thorough only (phase A):
            Slot { ch: 0, scope: 2, rule: 0, sub: 1 },
            Slot { ch: 1, scope: 0, rule: 1, sub: 0 },
        ];
        U {
            channels: [make_channel_id("verif:c18:a"), make_channel_id("verif:c18:b")],
            scopes: [s0, s1, s2],
            rules: [1, 256],
            subs: [0, 0x0100_0000],
            payloads: vec![
                vec![],
                vec![0x01],
                vec![0xFF],
                vec![0x01, 0x02],
                vec![0xFF; 8],                                            // u64::MAX: Sum wraps
                vec![0x00, 0x00, 0x00, 0x00, 0x00, 0x00, 0x00, 0x80, 0x7F], // 9 bytes: Sum truncates
            ],
            slots,
            header: V2PacketHeader {
                session_id: [0x11; 32],
                cursor_id: [0x22; 32],
                worldline_id: [0x33; 32],
                warp_id: WarpId([0x44; 32]),
                tick: 0x0102_0304_0506_0708,
                commit_hash: [0x55; 32],
            },
        }
    }
    /// Same slots, the *algebraic* payload alphabet: pairs of equal-length operands whose AND is all
    /// zero / whose OR is all ones (absorbing elements of the bitwise reducers reached by a partial
    /// fold), a strictly shorter operand that must still shape the result, explicit zeros of two
    /// lengths and a longer all-ones operand (Max/Min/Sum saturation).
    fn algebraic() -> U {
        let mut u = U::new();
        u.payloads = vec![
            vec![0xF0, 0xF0, 0xF0],
            vec![0x0F, 0x0F, 0x0F],
            vec![0xFF],
            vec![0x00, 0x00],
            vec![0xFF, 0xFF, 0xFF, 0xFF],
            vec![0x00],
        ];
        u
    }
    fn key(&self, s: Slot) -> EmitKey {
        EmitKey::with_subkey(self.scopes[s.scope], self.rules[s.rule], self.subs[s.sub])
    }
}

// ───────────────────────────── observation of the real code ─────────────────────────────

#[derive(Clone, PartialEq, Eq, Debug)]
struct Outcome {
    channels: Vec<([u8; 32], Vec<u8>)>,
    errors: Vec<([u8; 32], usize, String)>,
    digest: [u8; 32],
    frames: Vec<u8>,
    v2: Vec<u8>,
}

/// One emission: (slot index, payload index).
type Em = (usize, usize);

fn emit_one(u: &U, bus: &MaterializationBus, em: Em, scoped: bool) -> Result<(), (ChannelId, EmitKey)> {
    let s = u.slots[em.0];
    let data = u.payloads[em.1].clone();
    let ch = u.channels[s.ch];
    let r = if scoped {
        // The path rules use: ScopedEmitter derives the key from (scope, rule) (+ subkey).
        let e = ScopedEmitter::new(bus, u.scopes[s.scope], u.rules[s.rule]);
        if u.subs[s.sub] == 0 {
            e.emit(ch, data)
        } else {
            e.emit_with_subkey(ch, u.subs[s.sub], data)
        }
    } else {
        bus.emit(ch, u.key(s), data)
    };
    r.map_err(|d| (d.channel, d.key))
}

fn new_bus(u: &U, pol: (usize, usize)) -> MaterializationBus {
    let mut bus = MaterializationBus::new();
    if let Some(p) = policy_of(pol.0) {
        bus.register_channel(u.channels[0], p);
    }
    if let Some(p) = policy_of(pol.1) {
        bus.register_channel(u.channels[1], p);
    }
    bus
}

fn observe(u: &U, bus: &MaterializationBus, light: bool) -> (Outcome, Vec<FinalizedChannel>) {
    let rep = bus.finalize();
    let channels: Vec<([u8; 32], Vec<u8>)> =
        rep.channels.iter().map(|c| (c.channel.0, c.data.clone())).collect();
    let errors = rep
        .errors
        .iter()
        .map(|e| {
            let k = match e.kind {
                MaterializationErrorKind::StrictSingleConflict => "StrictSingleConflict".to_string(),
            };
            (e.channel.0, e.emission_count, k)
        })
        .collect();
    let digest = compute_emissions_digest(&rep.channels);
    let (frames, v2) = if light {
        (Vec::new(), Vec::new())
    } else {
        let fr: Vec<MaterializationFrame> = rep
            .channels
            .iter()
            .map(|c| MaterializationFrame::new(c.channel, c.data.clone()))
            .collect();
        let entries: Vec<V2Entry> = rep
            .channels
            .iter()
            .map(|c| V2Entry {
                channel: c.channel,
                value_hash: compute_value_hash(&c.data),
                value: c.data.clone(),
            })
            .collect();
        (
            encode_frames(&fr),
            encode_v2_packet(&u.header, &entries).unwrap_or_else(|_| b"ENCODE-ERROR".to_vec()),
        )
    };
    (
        Outcome { channels, errors, digest, frames, v2 },
        rep.channels,
    )
}

/// Emit `ems` in the order given by `order` (indices into `ems`) on a fresh bus and finalize.
fn run(u: &U, ems: &[Em], order: &[usize], pol: (usize, usize), scoped: bool, light: bool) -> Result<(Outcome, Vec<FinalizedChannel>), String> {
    let bus = new_bus(u, pol);
    for &i in order {
        if let Err((c, k)) = emit_one(u, &bus, ems[i], scoped) {
            return Err(format!("unexpected DuplicateEmission for fresh key: channel {} key {:?}", mc::hex(&c.0[..4]), k));
        }
    }
    if bus.is_empty() != ems.is_empty() {
        return Err("is_empty() disagrees with number of emissions".into());
    }
    let o = observe(u, &bus, light);
    if !bus.is_empty() {
        return Err("bus not empty after finalize".into());
    }
    Ok(o)
}

// ───────────────────────────── reference model (from the property text) ─────────────────────────────

/// Reduce a list of payloads that is already in canonical key order.
fn ref_reduce(op: ReduceOp, vals_in_key_order: &[&Vec<u8>]) -> Vec<u8> {
    let vals = vals_in_key_order;
    if vals.is_empty() {
        return if op == ReduceOp::Sum { vec![0; 8] } else { vec![] };
    }
    // For the five documented commutative monoids the reference deliberately works on the SORTED
    // MULTISET of payloads, i.e. it cannot depend on keys at all.
    let mut multiset: Vec<&Vec<u8>> = vals.to_vec();
    multiset.sort();
    match op {
        ReduceOp::Sum => {
            let mut acc: u64 = 0;
            for v in &multiset {
                let mut b = [0u8; 8];
                for i in 0..8.min(v.len()) {
                    b[i] = v[i];
                }
                acc = acc.wrapping_add(u64::from_le_bytes(b));
            }
            acc.to_le_bytes().to_vec()
        }
        ReduceOp::Max => (*multiset.last().unwrap()).clone(),
        ReduceOp::Min => (*multiset.first().unwrap()).clone(),
        ReduceOp::BitOr => {
            let n = multiset.iter().map(|v| v.len()).max().unwrap();
            (0..n)
                .map(|i| multiset.iter().fold(0u8, |a, v| a | v.get(i).copied().unwrap_or(0)))
                .collect()
        }
        ReduceOp::BitAnd => {
            let n = multiset.iter().map(|v| v.len()).min().unwrap();
            (0..n).map(|i| multiset.iter().fold(0xFFu8, |a, v| a & v[i])).collect()
        }
        ReduceOp::First => vals[0].clone(),
        ReduceOp::Last => vals[vals.len() - 1].clone(),
        ReduceOp::Concat => vals.iter().flat_map(|v| v.iter().copied()).collect(),
    }
}

struct RefOut {
    channels: Vec<([u8; 32], Vec<u8>)>,
    errors: Vec<([u8; 32], usize, String)>,
}

fn reference_finalize(u: &U, ems: &[Em], pol: (usize, usize)) -> RefOut {
    // channel bytes -> sorted (scope bytes, rule, subkey) -> payload
    let mut per: BTreeMap<[u8; 32], Vec<(([u8; 32], u32, u32), &Vec<u8>, usize)>> = BTreeMap::new();
    for &(si, pi) in ems {
        let s = u.slots[si];
        per.entry(u.channels[s.ch].0).or_default().push((
            (u.scopes[s.scope], u.rules[s.rule], u.subs[s.sub]),
            &u.payloads[pi],
            s.ch,
        ));
    }
    let mut out = RefOut { channels: vec![], errors: vec![] };
    for (ch, mut v) in per {
        v.sort_by(|a, b| a.0.cmp(&b.0));
        let chi = v[0].2;
        let p = if chi == 0 { pol.0 } else { pol.1 };
        let vals: Vec<&Vec<u8>> = v.iter().map(|x| x.1).collect();
        match policy_of(p).unwrap_or(ChannelPolicy::Log) {
            ChannelPolicy::Log => {
                let mut d = Vec::new();
                for x in &vals {
                    d.extend_from_slice(&(x.len() as u32).to_le_bytes());
                    d.extend_from_slice(x);
                }
                out.channels.push((ch, d));
            }
            ChannelPolicy::StrictSingle => {
                if vals.len() > 1 {
                    out.errors.push((ch, vals.len(), "StrictSingleConflict".into()));
                } else {
                    out.channels.push((ch, vals[0].clone()));
                }
            }
            ChannelPolicy::Reduce(op) => out.channels.push((ch, ref_reduce(op, &vals))),
        }
    }
    out
}

/// Documented wire format of `compute_emissions_digest` (snapshot.rs doc comment).
fn ref_digest(channels_sorted: &[([u8; 32], Vec<u8>)]) -> [u8; 32] {
    let mut h = blake3::Hasher::new();
    h.update(&1u16.to_le_bytes());
    h.update(&(channels_sorted.len() as u64).to_le_bytes());
    for (c, d) in channels_sorted {
        h.update(c);
        h.update(&(d.len() as u64).to_le_bytes());
        h.update(d);
    }
    *h.finalize().as_bytes()
}

/// Documented MBUS v1 frame format (frame.rs module doc).
fn ref_frames(channels: &[([u8; 32], Vec<u8>)]) -> Vec<u8> {
    let mut b = Vec::new();
    for (c, d) in channels {
        b.extend_from_slice(b"MBUS");
        b.extend_from_slice(&1u16.to_le_bytes());
        b.extend_from_slice(&0u16.to_le_bytes());
        b.extend_from_slice(&((32 + d.len()) as u32).to_le_bytes());
        b.extend_from_slice(c);
        b.extend_from_slice(d);
    }
    b
}

/// Documented MBUS v2 packet format (frame_v2.rs module doc).
fn ref_v2(u: &U, channels: &[([u8; 32], Vec<u8>)]) -> Vec<u8> {
    let mut p = Vec::new();
    p.extend_from_slice(&u.header.session_id);
    p.extend_from_slice(&u.header.cursor_id);
    p.extend_from_slice(&u.header.worldline_id);
    p.extend_from_slice(&u.header.warp_id.0);
    p.extend_from_slice(&u.header.tick.to_le_bytes());
    p.extend_from_slice(&u.header.commit_hash);
    p.extend_from_slice(&(channels.len() as u32).to_le_bytes());
    for (c, d) in channels {
        p.extend_from_slice(c);
        p.extend_from_slice(blake3::hash(d).as_bytes());
        p.extend_from_slice(&(d.len() as u32).to_le_bytes());
        p.extend_from_slice(d);
    }
    let mut b = Vec::new();
    b.extend_from_slice(b"MBUS");
    b.extend_from_slice(&2u16.to_le_bytes());
    b.extend_from_slice(&0u16.to_le_bytes());
    b.extend_from_slice(&(p.len() as u32).to_le_bytes());
    b.extend_from_slice(&p);
    b
}

// ───────────────────────────── per-work-item accumulator ─────────────────────────────

#[derive(Default)]
struct Acc {
    runs: u64,
    conflicts: u64,
    strict_ok: u64,
    dup_rejected: u64,
    multi_channel_cases: u64,
    rekey_classes_multi: u64,
    digest_slice_perms: u64,
    viol: Vec<(String, Value)>,
    outputs: BTreeMap<usize, BTreeSet<u64>>, // policy option -> distinct output fingerprints
    nontrivial: Vec<u128>,
    mach: Vec<String>,
}

impl Acc {
    fn v(&mut self, sig: String, detail: Value) {
        if self.viol.len() < 4 || !self.viol.iter().any(|(s, _)| *s == sig) {
            if self.viol.len() < 64 {
                self.viol.push((sig, detail));
            }
        }
    }
    fn out(&mut self, pol: usize, data: &[u8]) {
        let mut a = [0u8; 8];
        a.copy_from_slice(&blake3::hash(data).as_bytes()[..8]);
        self.outputs.entry(pol).or_default().insert(u64::from_le_bytes(a));
    }
    fn merge(&mut self, o: Acc) {
        self.runs += o.runs;
        self.conflicts += o.conflicts;
        self.strict_ok += o.strict_ok;
        self.dup_rejected += o.dup_rejected;
        self.multi_channel_cases += o.multi_channel_cases;
        self.rekey_classes_multi += o.rekey_classes_multi;
        self.digest_slice_perms += o.digest_slice_perms;
        self.viol.extend(o.viol);
        for (k, s) in o.outputs {
            self.outputs.entry(k).or_default().extend(s);
        }
        self.nontrivial.extend(o.nontrivial);
        self.mach.extend(o.mach);
    }
}

fn case_json(u: &U, ems: &[Em], order: &[usize], pol: (usize, usize)) -> Value {
    json!({
        "slots": ems.iter().map(|e| e.0).collect::<Vec<_>>(),
        "payloads": ems.iter().map(|e| e.1).collect::<Vec<_>>(),
        "order": order,
        "policy": [pol.0, pol.1],
        "readable": {
            "emissions_in_emit_order": order.iter().map(|&i| {
                let s = u.slots[ems[i].0];
                json!({"channel": CHN[s.ch], "scope": mc::hex(&u.scopes[s.scope][..2]).to_string() + "..", "rule": u.rules[s.rule], "subkey": u.subs[s.sub], "payload": mc::hex(&u.payloads[ems[i].1])})
            }).collect::<Vec<_>>(),
            "policy": [policy_name(pol.0), policy_name(pol.1)],
        }
    })
}

fn pol_for_channel(u: &U, ch: &[u8; 32], pol: (usize, usize)) -> usize {
    if *ch == u.channels[0].0 {
        pol.0
    } else {
        pol.1
    }
}

/// Name the policy of the first channel on which two observations differ.
fn differing_policy(u: &U, a: &Outcome, b: &Outcome, pol: (usize, usize)) -> String {
    for c in &u.channels {
        let fa = a.channels.iter().find(|x| x.0 == c.0);
        let fb = b.channels.iter().find(|x| x.0 == c.0);
        let ea = a.errors.iter().find(|x| x.0 == c.0);
        let eb = b.errors.iter().find(|x| x.0 == c.0);
        if fa != fb || ea != eb {
            return policy_name(pol_for_channel(u, &c.0, pol));
        }
    }
    "channel-order".into()
}

/// Compare an observation with the reference; records violations.
fn check_against_reference(u: &U, acc: &mut Acc, o: &Outcome, ems: &[Em], order: &[usize], pol: (usize, usize), light: bool) {
    let r = reference_finalize(u, ems, pol);
    if o.channels != r.channels || o.errors != r.errors {
        let ro = Outcome { channels: r.channels.clone(), errors: r.errors.clone(), digest: [0; 32], frames: vec![], v2: vec![] };
        let p = differing_policy(u, o, &ro, pol);
        acc.v(
            format!("finalize differs from key-order reference fold: {p}"),
            json!({"case": case_json(u, ems, order, pol),
                   "got": fmt_out(o), "want_channels": fmt_ch(&r.channels), "want_errors": format!("{:?}", r.errors.iter().map(|e| (mc::hex(&e.0[..4]), e.1, e.2.clone())).collect::<Vec<_>>())}),
        );
        return;
    }
    if o.digest != ref_digest(&r.channels) {
        acc.v("compute_emissions_digest differs from documented wire format".into(), json!({"case": case_json(u, ems, order, pol)}));
    }
    if !light {
        if o.frames != ref_frames(&r.channels) {
            acc.v("encode_frames differs from documented MBUS v1 format".into(), json!({"case": case_json(u, ems, order, pol)}));
        }
        if o.v2 != ref_v2(u, &r.channels) {
            acc.v("encode_v2_packet differs from documented MBUS v2 format".into(), json!({"case": case_json(u, ems, order, pol)}));
        }
    }
}

fn fmt_ch(c: &[([u8; 32], Vec<u8>)]) -> Value {
    json!(c.iter().map(|(c, d)| json!({"channel": mc::hex(&c[..4]), "data": mc::hex(d)})).collect::<Vec<_>>())
}
fn fmt_out(o: &Outcome) -> Value {
    json!({"channels": fmt_ch(&o.channels), "errors": o.errors.iter().map(|e| json!({"channel": mc::hex(&e.0[..4]), "emission_count": e.1, "kind": e.2})).collect::<Vec<_>>(), "digest": mc::hex(&o.digest)})
}

fn record_outputs(u: &U, acc: &mut Acc, o: &Outcome, pol: (usize, usize)) {
    for (c, d) in &o.channels {
        let p = pol_for_channel(u, c, pol);
        acc.out(p, d);
        if p == 2 {
            acc.strict_ok += 1;
        }
    }
    acc.conflicts += o.errors.len() as u64;
}

fn policy_pairs(touches: (bool, bool)) -> Vec<(usize, usize)> {
    let mut v = Vec::new();
    match touches {
        (true, true) => {
            for a in 0..N_POL {
                for b in 0..N_POL {
                    v.push((a, b));
                }
            }
        }
        (true, false) => (0..N_POL).for_each(|a| v.push((a, 0))),
        (false, true) => (0..N_POL).for_each(|b| v.push((0, b))),
        (false, false) => v.push((0, 0)),
    }
    v
}

fn touches(u: &U, slots: &[usize]) -> (bool, bool) {
    (
        slots.iter().any(|&s| u.slots[s].ch == 0),
        slots.iter().any(|&s| u.slots[s].ch == 1),
    )
}

fn has_multi(u: &U, slots: &[usize]) -> bool {
    let a = slots.iter().filter(|&&s| u.slots[s].ch == 0).count();
    let b = slots.len() - a;
    a >= 2 || b >= 2
}

fn case_key(ems: &[Em]) -> u128 {
    let mut k = Vec::with_capacity(ems.len() * 2 + 1);
    for e in ems {
        k.push(e.0 as u8);
        k.push(e.1 as u8);
    }
    Report::key(&k)
}

// ───────────────────────────── phase A ─────────────────────────────

/// Payload assignment family of phase A: 6 rotations and 6 reflected rotations of the payload
/// list over the set's slots (injective for k ≤ 6, so every slot is distinguishable).
fn family_a(k: usize, reflected: bool) -> Vec<Vec<usize>> {
    let mut f = Vec::new();
    for r in 0..6usize {
        f.push((0..k).map(|i| (i + r) % 6).collect());
    }
    for r in 0..(if reflected { 6usize } else { 0 }) {
        f.push((0..k).map(|i| (r + 6 * k - i) % 6).collect());
    }
    f
}

fn phase_a_item(u: &U, slots: &[usize], pays: &[usize]) -> Acc {
    let mut acc = Acc::default();
    let k = slots.len();
    let ems: Vec<Em> = slots.iter().copied().zip(pays.iter().copied()).collect();
    if has_multi(u, slots) {
        acc.nontrivial.push(case_key(&ems));
        acc.multi_channel_cases += 1;
    }
    let perms = mc::enumerate::all_permutations(k);
    for pol in policy_pairs(touches(u, slots)) {
        let mut first: Option<Outcome> = None;
        for (pi, order) in perms.iter().enumerate() {
            // alternate the two public emission paths so both are covered for every case
            let scoped = pi % 2 == 0;
            acc.runs += 1;
            let (o, fin) = match run(u, &ems, order, pol, scoped, false) {
                Ok(x) => x,
                Err(e) => {
                    acc.v(format!("emit/finalize protocol: {}", e.split(':').next().unwrap_or("")), json!({"case": case_json(u, &ems, order, pol), "error": e}));
                    continue;
                }
            };
            match &first {
                None => {
                    check_against_reference(u, &mut acc, &o, &ems, order, pol, false);
                    record_outputs(u, &mut acc, &o, pol);
                    // digest must not depend on the order of the finalized-channel slice either
                    let n = fin.len();
                    mc::enumerate::permutations(n, |p| {
                        let shuffled: Vec<FinalizedChannel> = p.iter().map(|&i| fin[i].clone()).collect();
                        acc.digest_slice_perms += 1;
                        if compute_emissions_digest(&shuffled) != o.digest {
                            acc.v("compute_emissions_digest depends on the order of the channel slice".into(),
                                json!({"case": case_json(u, &ems, order, pol), "slice_order": p}));
                        }
                    });
                    // decoders agree with what was encoded (frames carry exactly the finalized bytes)
                    let dec = decode_frames(&o.frames).map(|v| v.into_iter().map(|f| (f.channel.0, f.data)).collect::<Vec<_>>());
                    if dec.as_ref() != Some(&o.channels) {
                        acc.v("decode_frames(encode_frames(finalized)) != finalized".into(), json!({"case": case_json(u, &ems, order, pol)}));
                    }
                    let dec2 = decode_v2_packet(&o.v2).ok().map(|p| p.entries.into_iter().map(|e| (e.channel.0, e.value)).collect::<Vec<_>>());
                    if dec2.as_ref() != Some(&o.channels) {
                        acc.v("decode_v2_packet(encode_v2_packet(finalized)) != finalized".into(), json!({"case": case_json(u, &ems, order, pol)}));
                    }
                    // the port delivers exactly these frames
                    let mut port = MaterializationPort::new();
                    port.subscribe(u.channels[0]);
                    port.subscribe(u.channels[1]);
                    port.receive_finalized(fin.clone());
                    if port.drain_encoded() != o.frames {
                        acc.v("MaterializationPort::drain_encoded differs from encode_frames(finalized)".into(), json!({"case": case_json(u, &ems, order, pol)}));
                    }
                    first = Some(o);
                }
                Some(f) => {
                    if o != *f {
                        let what = if o.channels != f.channels || o.errors != f.errors {
                            format!("finalize depends on emission order: {}", differing_policy(u, &o, f, pol))
                        } else if o.digest != f.digest {
                            "emissions digest depends on emission order".to_string()
                        } else {
                            "frame encoding depends on emission order".to_string()
                        };
                        acc.v(what, json!({"case": case_json(u, &ems, order, pol), "got": fmt_out(&o), "first_order": perms[0], "first_got": fmt_out(f)}));
                    }
                }
            }
        }
    }
    acc
}

// ───────────────────────────── phase B ─────────────────────────────

fn phase_b_item(u: &U, slots: &[usize], both_orders: bool) -> Acc {
    let mut acc = Acc::default();
    let k = slots.len();
    let asc: Vec<usize> = (0..k).collect();
    let desc: Vec<usize> = (0..k).rev().collect();
    let multi = has_multi(u, slots);
    let t = touches(u, slots);
    // (policy, channel, sorted payload multiset) -> (output, number of arrangements seen)
    let mut classes: std::collections::HashMap<(usize, usize, u64), (Vec<u8>, u64, Vec<usize>)> = std::collections::HashMap::new();
    mc::enumerate::sequences(6, k, |pays| {
        let ems: Vec<Em> = slots.iter().copied().zip(pays.iter().copied()).collect();
        if multi {
            acc.nontrivial.push(case_key(&ems));
        }
        for p in 0..N_POL {
            let pol = (if t.0 { p } else { 0 }, if t.1 { p } else { 0 });
            let mut prev: Option<Outcome> = None;
            // quick: one non-canonical (descending slot) order against the order-free reference;
            // thorough: additionally the ascending order, compared with each other.
            for (oi, order) in [&desc, &asc].into_iter().enumerate() {
                if (k < 2 || !both_orders) && oi == 1 {
                    continue;
                }
                acc.runs += 1;
                let (o, _fin) = match run(u, &ems, order, pol, false, true) {
                    Ok(x) => x,
                    Err(e) => {
                        acc.v(format!("emit/finalize protocol: {}", e.split(':').next().unwrap_or("")), json!({"case": case_json(u, &ems, order, pol), "error": e}));
                        continue;
                    }
                };
                if let Some(f) = &prev {
                    if o != *f {
                        acc.v(format!("finalize depends on emission order: {}", differing_policy(u, &o, f, pol)),
                            json!({"case": case_json(u, &ems, order, pol), "got": fmt_out(&o), "first_order": desc, "first_got": fmt_out(f)}));
                    }
                    continue;
                }
                check_against_reference(u, &mut acc, &o, &ems, order, pol, true);
                record_outputs(u, &mut acc, &o, pol);
                // re-keying closure for reducers that DECLARE commutativity
                if let Some(ChannelPolicy::Reduce(op)) = policy_of(p) {
                    if op.is_commutative() {
                        for ch in 0..2usize {
                            let mut ms: Vec<usize> = ems.iter().filter(|e| u.slots[e.0].ch == ch).map(|e| e.1).collect();
                            if ms.is_empty() {
                                continue;
                            }
                            ms.sort();
                            let got = o.channels.iter().find(|c| c.0 == u.channels[ch].0).map(|c| c.1.clone()).unwrap_or_default();
                            let msk = ms.iter().fold(1u64, |a, x| a * 8 + *x as u64);
                            match classes.get_mut(&(p, ch, msk)) {
                                None => {
                                    classes.insert((p, ch, msk), (got, 1, pays.to_vec()));
                                }
                                Some(e) => {
                                    e.1 += 1;
                                    if e.0 != got {
                                        acc.v(format!("declared-commutative reducer not invariant under re-keying: {:?}", op),
                                            json!({"case": case_json(u, &ems, order, pol), "got": mc::hex(&got), "other_assignment_payloads": e.2, "other_got": mc::hex(&e.0), "channel": CHN[ch]}));
                                    }
                                }
                            }
                        }
                    }
                }
                prev = Some(o);
            }
        }
    });
    acc.rekey_classes_multi = classes.values().filter(|e| e.1 >= 2).count() as u64;
    acc
}

// ───────────────────────────── phase C ─────────────────────────────

fn phase_c_item(u: &U, slots: &[usize]) -> Acc {
    let mut acc = Acc::default();
    let k = slots.len();
    let pays: Vec<usize> = (0..k).map(|i| (i + 1) % 6).collect();
    let ems: Vec<Em> = slots.iter().copied().zip(pays.iter().copied()).collect();
    let perms = mc::enumerate::all_permutations(k);
    let t = touches(u, slots);
    for p in 0..N_POL {
        let pol = (if t.0 { p } else { 0 }, if t.1 { p } else { 0 });
        for order in &perms {
            let clean = match run(u, &ems, order, pol, false, true) {
                Ok(x) => x.0,
                Err(e) => {
                    acc.mach.push(e);
                    continue;
                }
            };
            acc.runs += 1;
            // duplicate of the emission at position i, re-emitted right after position j ≥ i, payload q
            for i in 0..k {
                for j in i..k {
                    for q in 0..6usize {
                        acc.runs += 1;
                        let bus = new_bus(u, pol);
                        let mut rejected = None;
                        for (pos, &e) in order.iter().enumerate() {
                            let _ = emit_one(u, &bus, ems[e], pos % 2 == 1);
                            if pos == j {
                                let d = (ems[order[i]].0, q);
                                rejected = Some(emit_one(u, &bus, d, q % 2 == 0));
                            }
                        }
                        let s = u.slots[ems[order[i]].0];
                        let same = if q == ems[order[i]].1 { "identical" } else { "different" };
                        let dupcase = || json!({"case": case_json(u, &ems, order, pol), "dup": {"of_position": i, "after_position": j, "payload": q}});
                        match rejected {
                            Some(Err((c, key))) => {
                                acc.dup_rejected += 1;
                                if c != u.channels[s.ch] || key != u.key(s) {
                                    acc.v("DuplicateEmission names the wrong channel/key".into(), dupcase());
                                }
                            }
                            Some(Ok(())) => {
                                acc.v(format!("repeated (channel,key) emission accepted ({same} payload)"), dupcase());
                            }
                            None => acc.mach.push("duplicate not attempted".into()),
                        }
                        let (o, _) = observe(u, &bus, true);
                        if o != clean {
                            acc.v(format!("duplicate emission altered earlier emissions ({same} payload): {}", differing_policy(u, &o, &clean, pol)),
                                { let d = dupcase(); json!({"case": d["case"], "dup": d["dup"], "got": fmt_out(&o), "want": fmt_out(&clean)}) });
                        }
                    }
                }
            }
        }
    }
    acc
}

// ───────────────────────────── replay ─────────────────────────────

fn replay(u: &U, r: &Report, path: &std::path::Path) {
    let txt = std::fs::read_to_string(path).unwrap_or_default();
    let v: Value = serde_json::from_str(&txt).unwrap_or(Value::Null);
    let c = &v["detail"]["case"];
    let us = |x: &Value| x.as_array().map(|a| a.iter().map(|y| y.as_u64().unwrap_or(0) as usize).collect::<Vec<_>>()).unwrap_or_default();
    let slots = us(&c["slots"]);
    let pays = us(&c["payloads"]);
    let order = us(&c["order"]);
    let polv = us(&c["policy"]);
    if slots.is_empty() || slots.len() != pays.len() || order.len() != slots.len() || polv.len() != 2 {
        r.machinery_error("replay file has no usable detail.case");
        return;
    }
    let pol = (polv[0], polv[1]);
    let ems: Vec<Em> = slots.iter().copied().zip(pays.iter().copied()).collect();
    let mut acc = Acc::default();
    let ident: Vec<usize> = (0..ems.len()).collect();
    let dup = &v["detail"]["dup"];
    if dup.is_object() {
        let (i, j, q) = (dup["of_position"].as_u64().unwrap_or(0) as usize, dup["after_position"].as_u64().unwrap_or(0) as usize, dup["payload"].as_u64().unwrap_or(0) as usize);
        let bus = new_bus(u, pol);
        let mut res = None;
        for (pos, &e) in order.iter().enumerate() {
            let _ = emit_one(u, &bus, ems[e], false);
            if pos == j {
                res = Some(emit_one(u, &bus, (ems[order[i]].0, q), false));
            }
        }
        let (o, _) = observe(u, &bus, true);
        let clean = run(u, &ems, &order, pol, false, true).map(|x| x.0);
        println!("[C18 replay] duplicate emit result: {:?}", res.map(|r| r.is_err()).map(|e| if e { "Err(DuplicateEmission)" } else { "Ok (ACCEPTED)" }));
        println!("[C18 replay] with dup:    {}", fmt_out(&o));
        if let Ok(cl) = &clean {
            println!("[C18 replay] without dup: {}", fmt_out(cl));
            if *cl != o || matches!(res, Some(Ok(()))) {
                acc.v(v["signature"].as_str().unwrap_or("replayed").to_string(), v["detail"].clone());
            }
        }
    } else {
        let a = run(u, &ems, &order, pol, false, false);
        let b = run(u, &ems, &ident, pol, false, false);
        match (a, b) {
            (Ok((oa, fin)), Ok((ob, _))) => {
                println!("[C18 replay] order {:?}: {}", order, fmt_out(&oa));
                println!("[C18 replay] order {:?}: {}", ident, fmt_out(&ob));
                let rf = reference_finalize(u, &ems, pol);
                println!("[C18 replay] reference channels: {}", fmt_ch(&rf.channels));
                check_against_reference(u, &mut acc, &oa, &ems, &order, pol, false);
                check_against_reference(u, &mut acc, &ob, &ems, &ident, pol, false);
                if oa != ob {
                    acc.v(format!("finalize depends on emission order: {}", differing_policy(u, &oa, &ob, pol)), v["detail"].clone());
                }
                let mut rev = fin.clone();
                rev.reverse();
                if compute_emissions_digest(&rev) != oa.digest {
                    acc.v("compute_emissions_digest depends on the order of the channel slice".into(), v["detail"].clone());
                }
            }
            (a, b) => println!("[C18 replay] run error: {:?} {:?}", a.err(), b.err()),
        }
    }
    r.eval(1);
    println!("[C18 replay] reproduced {} violation(s)", acc.viol.len());
    for (s, d) in acc.viol {
        r.violation(&s, d);
    }
}

// ───────────────────────────── main ─────────────────────────────

fn main() {
    let r = Report::new("C18", Level::Exploration);
    let u = U::new();
    if let Some(p) = r.replay.clone() {
        r.rule("replay of one recorded case");
        r.nontrivial(b"replay-a");
        r.nontrivial(b"replay-b");
        r.sample(json!({"replay": p.display().to_string()}));
        replay(&u, &r, &p);
        r.finish();
    }

    let k_max = r.pick(5usize, 7usize);
    let slots_a = r.pick(8usize, 10usize);
    let slots_b = 8usize;
    let k_dup = r.pick(4usize, 5usize);
    let fam_reflected = r.thorough();
    let fam_n = if fam_reflected { 12 } else { 6 };
    r.rule(&format!(
        "Universe: 2 channels; slot alphabet of {slots_a} (phase A) / {slots_b} (phases B, C) (channel,key) slots drawn from 3 scope hashes x rule ids {{1,256}} x subkeys {{0,0x01000000}}; \
         payloads {{'',01,FF,0102,FFx8,9 bytes}}; 11 policy options per channel (unregistered, Log, StrictSingle, Reduce x 8 ops). \
         Phase A: EVERY slot set of size 0..={k_max} x {fam_n} payload assignments (6 rotations of the payload list over the slots; thorough adds the 6 reflected rotations; injective for k<=6) x EVERY permutation of the emission order x every policy pair (121 when both channels are touched); \
         all observations (finalize channels+errors, emissions digest, v1 frames, v2 packet) must be identical across permutations and equal to a key-order reference fold; digest also under every order of the finalized slice. \
         Phase B: every slot set of size 0..={k_max} x ALL 6^k payload assignments x every policy (same on both channels), emitted in descending slot order (thorough: also ascending, compared with each other) and compared with the order-free reference fold; for reducers with is_commutative() every arrangement of a payload multiset on the keys of a channel must give the same bytes. \
         Phase B2: phase B again (both emission orders) over an algebraic payload alphabet {{F0F0F0, 0F0F0F, FF, 0000, FFFFFFFF, 00}} (operand pairs whose partial AND/OR reaches the absorbing element before a shorter operand arrives) for sets of 2..=3 slots. \
         Phase C: every slot set of size 1..={k_dup} x every permutation x every (emitted position i, later position j>=i, payload q of 6): re-emitting slot i after position j must be Err(DuplicateEmission) naming that (channel,key) and the finalized result must equal the run without the duplicate. \
         distinct_nontrivial = distinct (slot set, payload assignment) cases in which some channel received >= 2 emissions (order could matter)."
    ));
    r.assume("keys/payloads outside the stated alphabets are not explored; payloads > 9 bytes and the 4 GiB length limits are out of scope");
    r.assume("reference folds for the five documented commutative monoids operate on the sorted payload multiset; First/Last/Concat/Log on (scope bytes, rule, subkey) lexicographic order");
    r.assume("BLAKE3 and the documented wire layouts (snapshot.rs / frame.rs / frame_v2.rs doc comments) are the reference for digest and frames");

    // samples (deterministic, before the parallel sweep)
    {
        let ems: Vec<Em> = vec![(4, 5), (0, 1), (5, 2), (2, 3)];
        for (pol, order) in [((3usize, 10usize), vec![3usize, 1, 0, 2]), ((1, 2), vec![0, 1, 2, 3]), ((7, 2), vec![2, 0, 3, 1])] {
            if let Ok((o, _)) = run(&u, &ems, &order, pol, true, false) {
                r.sample(json!({"phase": "A", "case": case_json(&u, &ems, &order, pol)["readable"], "observed": fmt_out(&o), "frames_len": o.frames.len(), "v2_len": o.v2.len()}));
            }
        }
    }

    let declared: Vec<String> = OPS.iter().filter(|o| o.is_commutative()).map(|o| format!("{o:?}")).collect();
    r.note("declared_commutative", json!(declared));

    // wall caps: fractions of the global cap, and for thorough also absolute marks so that a loaded
    // machine ends the run inside ~27 min (an idle 16-core box needs ~3-4 min for all three phases)
    let over = |frac: f64, abs_s: f64| r.over_budget_frac(frac) || (r.thorough() && r.elapsed_s() > abs_s);
    let mut total = Acc::default();

    // Phase A
    let sets_a = mc::enumerate::subsets_range(slots_a, 0, k_max);
    let items_a: Vec<(Vec<usize>, Vec<usize>)> = sets_a
        .iter()
        .flat_map(|s| {
            let fam = if s.is_empty() { vec![vec![]] } else { family_a(s.len(), fam_reflected) };
            fam.into_iter().map(move |f| (s.clone(), f))
        })
        .collect();
    let mut capped = false;
    let res: Vec<Option<Acc>> = items_a
        .par_iter()
        .map(|(s, f)| if over(0.6, 1000.0) { None } else { Some(phase_a_item(&u, s, f)) })
        .collect();
    let mut a_runs = 0;
    for x in res {
        match x {
            Some(a) => {
                a_runs += a.runs;
                total.merge(a)
            }
            None => capped = true,
        }
    }
    if capped {
        r.cap_hit("phase A stopped by wall cap before all (set, payload family) items were done");
    }
    r.counter("phaseA_sets", sets_a.len() as u64);
    r.counter("phaseA_items", items_a.len() as u64);
    r.counter("phaseA_bus_runs", a_runs);
    println!("[C18] phase A done: {} sets, {} bus runs, {:.1}s", sets_a.len(), a_runs, r.elapsed_s());

    // Phase B
    let sets_b = mc::enumerate::subsets_range(slots_b, 0, k_max);
    let mut capped = false;
    let res: Vec<Option<Acc>> = sets_b
        .par_iter()
        .map(|s| if over(0.85, 1400.0) { None } else { Some(phase_b_item(&u, s, r.thorough())) })
        .collect();
    let mut b_runs = 0;
    for x in res {
        match x {
            Some(a) => {
                b_runs += a.runs;
                total.merge(a)
            }
            None => capped = true,
        }
    }
    if capped {
        r.cap_hit("phase B stopped by wall cap");
    }
    r.counter("phaseB_sets", sets_b.len() as u64);
    r.counter("phaseB_bus_runs", b_runs);
    println!("[C18] phase B done: {} sets, {} bus runs, {:.1}s", sets_b.len(), b_runs, r.elapsed_s());

    // Phase B2: the same algebra sweep over the algebraic payload alphabet (sets of 2..3 slots)
    {
        let ua = U::algebraic();
        let sets_b2 = mc::enumerate::subsets_range(slots_b, 2, k_max.min(3));
        let mut capped = false;
        let res: Vec<Option<Acc>> = sets_b2
            .par_iter()
            .map(|s| if over(0.9, 1500.0) { None } else { Some(phase_b_item(&ua, s, true)) })
            .collect();
        let mut b2_runs = 0;
        for x in res {
            match x {
                Some(a) => {
                    b2_runs += a.runs;
                    total.merge(a)
                }
                None => capped = true,
            }
        }
        if capped {
            r.cap_hit("phase B2 stopped by wall cap");
        }
        r.counter("phaseB2_sets", sets_b2.len() as u64);
        r.counter("phaseB2_bus_runs", b2_runs);
        println!("[C18] phase B2 done: {} sets, {} bus runs, {:.1}s", sets_b2.len(), b2_runs, r.elapsed_s());
    }

    // Phase C
    let sets_c = mc::enumerate::subsets_range(slots_b, 1, k_dup);
    let mut capped = false;
    let res: Vec<Option<Acc>> = sets_c
        .par_iter()
        .map(|s| if over(0.97, 1600.0) { None } else { Some(phase_c_item(&u, s)) })
        .collect();
    let mut c_runs = 0;
    for x in res {
        match x {
            Some(a) => {
                c_runs += a.runs;
                total.merge(a)
            }
            None => capped = true,
        }
    }
    if capped {
        r.cap_hit("phase C stopped by wall cap");
    }
    r.counter("phaseC_sets", sets_c.len() as u64);
    r.counter("phaseC_bus_runs", c_runs);
    println!("[C18] phase C done: {} sets, {} bus runs, {:.1}s", sets_c.len(), c_runs, r.elapsed_s());

    // merge into the report
    r.eval(total.runs);
    r.nontrivial_many(total.nontrivial.iter().copied());
    r.counter("strict_single_conflicts_seen", total.conflicts);
    r.counter("strict_single_ok_seen", total.strict_ok);
    r.counter("duplicate_rejections_seen", total.dup_rejected);
    r.counter("cases_with_two_emissions_on_a_channel", total.multi_channel_cases);
    r.counter("rekey_classes_with_2plus_arrangements", total.rekey_classes_multi);
    r.counter("digest_slice_orders_checked", total.digest_slice_perms);
    let mut per_policy = serde_json::Map::new();
    for p in 0..N_POL {
        let n = total.outputs.get(&p).map(|s| s.len()).unwrap_or(0);
        per_policy.insert(policy_name(p), json!(n));
        r.outcome_n(&format!("distinct_outputs:{}", policy_name(p)), n as u64);
        r.guard(&format!("policy_{}_produced_2plus_distinct_outputs", policy_name(p)), n >= 2);
    }
    r.note("distinct_outputs_per_policy", Value::Object(per_policy));
    r.outcome_n("channel_conflict:StrictSingleConflict", total.conflicts);
    r.outcome_n("emit:Err(DuplicateEmission)", total.dup_rejected);
    r.guard("saw_strict_single_conflicts", total.conflicts > 0);
    r.guard("saw_strict_single_success", total.strict_ok > 0);
    r.guard("saw_duplicate_rejections", total.dup_rejected > 0);
    r.guard("saw_rekey_classes_with_several_arrangements", total.rekey_classes_multi > 0);
    r.guard("five_reducers_declare_commutativity_or_fewer", declared.len() <= 8);
    for m in total.mach {
        r.machinery_error(&m);
    }
    for (s, d) in total.viol {
        r.violation(&s, d);
    }
    r.finish();
}
