#!/usr/bin/env python3
"""apply one named C18 mutant to the worktree given as argv[1]"""
import sys
wt, name = sys.argv[1], sys.argv[2]
M = wt + '/crates/warp-core/src/materialization/'
def sub(path, old, new, count=1):
    s = open(path).read()
    assert s.count(old) >= 1, (path, old)
    s = s.replace(old, new, count)
    open(path, 'w').write(s)

if name == 'm1_insertion_order':
    p = M + 'bus.rs'
    sub(p, "    policies: BTreeMap<ChannelId, ChannelPolicy>,\n}", "    policies: BTreeMap<ChannelId, ChannelPolicy>,\n    /// arrival order\n    arrival: RefCell<Vec<(ChannelId, EmitKey)>>,\n}")
    sub(p, "            Entry::Vacant(e) => {\n                e.insert(data);\n                Ok(())", "            Entry::Vacant(e) => {\n                e.insert(data);\n                self.arrival.borrow_mut().push((channel, emit_key));\n                Ok(())")
    sub(p, "            match Self::finalize_channel(channel, emissions, policy) {", "            let ordered: Vec<Vec<u8>> = self.arrival.borrow().iter().filter(|(c, _)| *c == channel).map(|(_, k)| emissions[k].clone()).collect();\n            match Self::finalize_channel(channel, &ordered, policy) {")
    sub(p, "        pending.clear();\n        report", "        pending.clear();\n        self.arrival.borrow_mut().clear();\n        report")
    sub(p, "        emissions: &BTreeMap<EmitKey, Vec<u8>>,\n        policy: ChannelPolicy,", "        emissions: &[Vec<u8>],\n        policy: ChannelPolicy,")
    sub(p, "for data in emissions.values() {", "for data in emissions.iter() {")
    sub(p, "Ok(emissions.values().next().cloned().unwrap_or_default())", "Ok(emissions.iter().next().cloned().unwrap_or_default())")
    sub(p, "Ok(op.apply(emissions.values().cloned()))", "Ok(op.apply(emissions.iter().cloned()))")
elif name == 'm2_concat_claims_commutative':
    sub(M + 'reduce_op.rs', "Self::Sum | Self::Max | Self::Min | Self::BitOr | Self::BitAnd\n        )", "Self::Sum | Self::Max | Self::Min | Self::BitOr | Self::BitAnd | Self::Concat\n        )")
elif name == 'm3_duplicate_overwrites':
    sub(M + 'bus.rs', "            Entry::Occupied(_) => Err(DuplicateEmission {\n                channel,\n                key: emit_key,\n            }),", "            Entry::Occupied(mut e) => {\n                e.insert(data);\n                Ok(())\n            }")
elif name == 'm4_digest_unsorted':
    sub(wt + '/crates/warp-core/src/snapshot.rs', "    sorted.sort_by(|a, b| a.channel.0.cmp(&b.channel.0));\n\n    // Number of channels", "\n    // Number of channels")
elif name == 'm5_key_order_rule_first':
    sub(M + 'emit_key.rs', "        self.scope_hash\n            .cmp(&other.scope_hash)\n            .then_with(|| self.rule_id.cmp(&other.rule_id))", "        self.rule_id\n            .cmp(&other.rule_id)\n            .then_with(|| self.scope_hash.cmp(&other.scope_hash))")
elif name == 'm6_bitand_padded':
    sub(M + 'reduce_op.rs', "    let len = a.len().min(b.len());\n    (0..len).map(|i| a[i] & b[i]).collect()", "    let len = a.len().max(b.len());\n    (0..len).map(|i| a.get(i).copied().unwrap_or(0) & b.get(i).copied().unwrap_or(0)).collect()")
elif name == 'm7_bitor_len_of_first':
    sub(M + 'reduce_op.rs', "    let len = a.len().max(b.len());\n    let mut result = vec![0u8; len];", "    let len = a.len();\n    let mut result = vec![0u8; len];")
elif name == 'm8_dup_identical_payload_ok':
    sub(M + 'bus.rs', "            Entry::Occupied(_) => Err(DuplicateEmission {", "            Entry::Occupied(e) if *e.get() == data => Ok(()),\n            Entry::Occupied(_) => Err(DuplicateEmission {")
else:
    sys.exit('unknown mutant ' + name)
print('applied', name)
