//! Uninterrupted runs of host workloads (shared by C10 and C11).

use crate::frame::{self, Rec};
use crate::host::{apply, fingerprint, open_host, ops_word, Known, Op, OpResult, Sub};
use crate::{fresh_dir, LEDGER_FILE, SEGMENT_REL};
use std::path::Path;
use warp_core::Hash;

/// Uninterrupted run of one workload on the real host.
#[derive(Clone, Debug)]
pub struct Run {
    pub ops: Vec<Op>,
    pub seg: Vec<u8>,
    /// `ends[i]` = segment length after i ops.
    pub ends: Vec<usize>,
    /// `ledgers[i]` = ledger bytes after i ops (0 = after `enable_runtime_wal` on the empty dir).
    pub ledgers: Vec<Vec<u8>>,
    /// `fps[i]` = fingerprint after i ops.
    pub fps: Vec<String>,
    pub results: Vec<OpResult>,
    pub synced: Vec<Option<u64>>,
    pub records: Vec<Rec>,
}

impl Run {
    pub fn word(&self) -> String {
        ops_word(&self.ops)
    }
    /// Number of complete commit markers inside the first `l` bytes.
    pub fn k_at(&self, l: usize) -> usize {
        frame::commits_within(&self.records, l)
    }
    /// Index i such that `fps[i]` is the state after exactly k committed transactions (the state
    /// after the op that committed transaction k; later non-appending ops must not change it).
    pub fn fp_index_for_k(&self, k: usize) -> usize {
        if k == 0 {
            return 0;
        }
        let commit_ends: Vec<usize> = self.records.iter().filter(|r| r.is_commit()).map(|r| r.end).collect();
        let target = commit_ends[k - 1];
        (1..self.ends.len()).find(|i| self.ends[*i] >= target).unwrap_or(self.ends.len() - 1)
    }
}

/// Submission ids are a function of the envelope; learn them once.
pub fn learn_ids(scratch: &Path) -> Result<Vec<(Sub, Hash)>, String> {
    let dir = fresh_dir(scratch, "ids");
    let mut host = open_host(&dir).map_err(|e| format!("{e:?}"))?;
    let mut known = Known::default();
    for s in [Sub::A, Sub::B] {
        apply(&mut host, &mut known, Op::Submit(s)).map_err(|e| format!("{e:?}"))?;
    }
    drop(host);
    let _ = std::fs::remove_dir_all(&dir);
    Ok(known.ids.into_iter().collect())
}

fn read_or_empty(p: &Path) -> Vec<u8> {
    std::fs::read(p).unwrap_or_default()
}

/// Run a workload without interruption and record everything.
pub fn run_uninterrupted(scratch: &Path, ops: &[Op], ids: &[(Sub, Hash)]) -> Result<Run, String> {
    let dir = fresh_dir(scratch, "hostrun");
    let seg_path = dir.join(SEGMENT_REL);
    let mut host = open_host(&dir).map_err(|e| format!("open: {e:?}"))?;
    let mut known = Known::default();
    let mut run = Run {
        ops: ops.to_vec(),
        seg: Vec::new(),
        ends: vec![read_or_empty(&seg_path).len()],
        ledgers: vec![read_or_empty(&dir.join(LEDGER_FILE))],
        fps: vec![fingerprint(&mut host, ids)],
        results: Vec::new(),
        synced: Vec::new(),
        records: Vec::new(),
    };
    let seg_canon = seg_path.canonicalize().unwrap_or(seg_path.clone());
    for op in ops {
        let (res, ev) = crate::syncspy::record(|| apply(&mut host, &mut known, *op));
        let res = res.map_err(|e| format!("op {} failed in uninterrupted run: {e:?}", op.letter()))?;
        let commits_now = frame::parse(&read_or_empty(&seg_path)).0.iter().filter(|r| r.is_commit()).count();
        let commits_before = run.results.iter().filter(|r| !matches!(r, OpResult::Acked { duplicate: true, .. })).count();
        let should_append = !matches!(res, OpResult::Acked { duplicate: true, .. });
        if should_append && commits_now != commits_before + 1 {
            return Err(format!(
                "ACK-VIOLATION: op {} ({}) returned Ok but the segment holds {commits_now} complete commit marker(s), expected {}",
                run.results.len(), op.letter(), commits_before + 1
            ));
        }
        run.results.push(res);
        run.synced.push(crate::syncspy::synced_len(&ev, &seg_canon).or_else(|| crate::syncspy::synced_len(&ev, &seg_path)));
        run.ends.push(read_or_empty(&seg_path).len());
        run.ledgers.push(read_or_empty(&dir.join(LEDGER_FILE)));
        run.fps.push(fingerprint(&mut host, ids));
    }
    drop(host);
    run.seg = read_or_empty(&seg_path);
    let (recs, stop) = frame::parse(&run.seg);
    if stop != run.seg.len() {
        return Err("framing parser did not consume the host segment".into());
    }
    run.records = recs;
    let _ = std::fs::remove_dir_all(&dir);
    Ok(run)
}

