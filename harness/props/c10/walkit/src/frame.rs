//! Independent reader of the documented segment framing:
//! `"ECWALR1!"` (8) · kind (1: 1=frame, 2=commit) · payload length u64 LE (8) · payload · BLAKE3 (32).
//! Used only to *locate* record boundaries and regions; never as an oracle for validity.

pub const MAGIC: &[u8; 8] = b"ECWALR1!";
pub const HEADER_LEN: usize = 8 + 1 + 8;
pub const DIGEST_LEN: usize = 32;

/// One disk record located in a segment.
#[derive(Clone, Copy, Debug, PartialEq, Eq)]
pub struct Rec {
    pub start: usize,
    pub end: usize,
    /// 1 = frame, 2 = commit marker.
    pub kind: u8,
}

impl Rec {
    pub fn payload_start(&self) -> usize {
        self.start + HEADER_LEN
    }
    pub fn payload_end(&self) -> usize {
        self.end - DIGEST_LEN
    }
    pub fn is_commit(&self) -> bool {
        self.kind == 2
    }
}

/// Byte region classes inside a record (for evidence histograms and signatures).
pub fn region_of(recs: &[Rec], off: usize) -> &'static str {
    for r in recs {
        if off >= r.start && off < r.end {
            let rel = off - r.start;
            let commit = r.is_commit();
            return if rel < 8 {
                if commit { "commit.magic" } else { "frame.magic" }
            } else if rel == 8 {
                if commit { "commit.kind" } else { "frame.kind" }
            } else if rel < HEADER_LEN {
                if commit { "commit.len" } else { "frame.len" }
            } else if off < r.payload_end() {
                if commit { "commit.payload" } else { "frame.payload" }
            } else if commit {
                "commit.digest"
            } else {
                "frame.digest"
            };
        }
    }
    "outside"
}

/// Parse complete records of a well-formed segment; stops at the first incomplete record.
/// Returns the records and the offset where parsing stopped.
pub fn parse(bytes: &[u8]) -> (Vec<Rec>, usize) {
    let mut out = Vec::new();
    let mut off = 0usize;
    while off + HEADER_LEN <= bytes.len() {
        if &bytes[off..off + 8] != MAGIC {
            break;
        }
        let kind = bytes[off + 8];
        let mut l = [0u8; 8];
        l.copy_from_slice(&bytes[off + 9..off + 17]);
        let len = u64::from_le_bytes(l);
        let Some(end) = (off + HEADER_LEN)
            .checked_add(len as usize)
            .and_then(|x| x.checked_add(DIGEST_LEN))
        else {
            break;
        };
        if end > bytes.len() {
            break;
        }
        out.push(Rec {
            start: off,
            end,
            kind,
        });
        off = end;
    }
    (out, off)
}

/// Number of commit markers that lie completely inside `bytes[..len]`.
pub fn commits_within(recs: &[Rec], len: usize) -> usize {
    recs.iter().filter(|r| r.is_commit() && r.end <= len).count()
}

/// Number of complete frame records inside `bytes[..len]`.
pub fn frames_within(recs: &[Rec], len: usize) -> usize {
    recs.iter().filter(|r| !r.is_commit() && r.end <= len).count()
}
