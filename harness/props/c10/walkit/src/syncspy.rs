//! `fsync` / `fdatasync` interposer.
//!
//! Rust's `File::sync_all` / `sync_data` call libc's `fsync` / `fdatasync`.  Defining those two
//! symbols in the executable makes the static linker bind std's references to *these* functions
//! (a definition in the executable wins over the one in `libc.so`).  Each call is forwarded to the
//! kernel with a raw `syscall`; when the calling thread has a recording open, the call is logged
//! with the path and the length the file had at that moment.  That is how the harness knows which
//! bytes were made durable before an operation returned.

use std::cell::RefCell;
use std::path::PathBuf;
use std::sync::atomic::{AtomicU64, Ordering};

/// One intercepted sync.
#[derive(Clone, Debug, PartialEq, Eq)]
pub struct SyncEvent {
    pub path: PathBuf,
    pub len: u64,
    pub is_dir: bool,
    pub data_only: bool,
    /// True for an intercepted `unlink` (then `len` is 0).
    pub unlink: bool,
    /// Bytes of the file at the moment of the sync, captured for publication temp files
    /// (`*.tmp`) only: that is the version a temp+rename publication is about to install.
    pub content: Option<Vec<u8>>,
}

static TOTAL: AtomicU64 = AtomicU64::new(0);

thread_local! {
    static REC: RefCell<Option<Vec<SyncEvent>>> = const { RefCell::new(None) };
}

fn note(fd: libc::c_int, data_only: bool) {
    TOTAL.fetch_add(1, Ordering::Relaxed);
    let active = REC.with(|r| r.try_borrow().map(|g| g.is_some()).unwrap_or(false));
    if !active {
        return;
    }
    // SAFETY: plain fstat/readlink on a descriptor owned by the caller.
    let (len, is_dir) = unsafe {
        let mut st: libc::stat = std::mem::zeroed();
        if libc::fstat(fd, &mut st) == 0 {
            (st.st_size as u64, (st.st_mode & libc::S_IFMT) == libc::S_IFDIR)
        } else {
            (0, false)
        }
    };
    let path = std::fs::read_link(format!("/proc/self/fd/{fd}")).unwrap_or_default();
    let content = if !is_dir && path.extension().is_some_and(|e| e == "tmp") {
        std::fs::read(&path).ok()
    } else {
        None
    };
    REC.with(|r| {
        if let Ok(mut g) = r.try_borrow_mut() {
            if let Some(v) = g.as_mut() {
                v.push(SyncEvent {
                    path,
                    len,
                    is_dir,
                    data_only,
                    unlink: false,
                    content,
                });
            }
        }
    });
}

/// Interposed `fsync(2)`.
///
/// # Safety
/// Same contract as libc's `fsync`.
#[no_mangle]
pub unsafe extern "C" fn fsync(fd: libc::c_int) -> libc::c_int {
    note(fd, false);
    libc::syscall(libc::SYS_fsync, fd) as libc::c_int
}

/// Interposed `fdatasync(2)`.
///
/// # Safety
/// Same contract as libc's `fdatasync`.
#[no_mangle]
pub unsafe extern "C" fn fdatasync(fd: libc::c_int) -> libc::c_int {
    note(fd, true);
    libc::syscall(libc::SYS_fdatasync, fd) as libc::c_int
}

/// Interposed `unlink(2)` (what `std::fs::remove_file` calls): recorded, then forwarded.
///
/// # Safety
/// Same contract as libc's `unlink`.
#[no_mangle]
pub unsafe extern "C" fn unlink(path: *const libc::c_char) -> libc::c_int {
    let active = REC.with(|r| r.try_borrow().map(|g| g.is_some()).unwrap_or(false));
    if active && !path.is_null() {
        let p = std::ffi::CStr::from_ptr(path).to_string_lossy().to_string();
        REC.with(|r| {
            if let Ok(mut g) = r.try_borrow_mut() {
                if let Some(v) = g.as_mut() {
                    v.push(SyncEvent {
                        path: PathBuf::from(p),
                        len: 0,
                        is_dir: false,
                        data_only: false,
                        unlink: true,
                        content: None,
                    });
                }
            }
        });
    }
    libc::syscall(libc::SYS_unlinkat, libc::AT_FDCWD, path, 0) as libc::c_int
}

/// Forces the interposer object into the link and returns the number of syncs seen so far.
pub fn init() -> u64 {
    let a = fsync as usize;
    let b = fdatasync as usize;
    let c = unlink as usize;
    std::hint::black_box((a, b, c));
    TOTAL.load(Ordering::Relaxed)
}

/// Total number of intercepted syncs in this process.
pub fn total() -> u64 {
    TOTAL.load(Ordering::Relaxed)
}

/// Run `f` while recording this thread's syncs.
pub fn record<R>(f: impl FnOnce() -> R) -> (R, Vec<SyncEvent>) {
    REC.with(|r| *r.borrow_mut() = Some(Vec::new()));
    let out = f();
    let ev = REC.with(|r| r.borrow_mut().take()).unwrap_or_default();
    (out, ev)
}

/// Length up to which `path` was synced by the last file sync on it in `events`.
pub fn synced_len(events: &[SyncEvent], path: &std::path::Path) -> Option<u64> {
    events
        .iter()
        .rev()
        .find(|e| !e.is_dir && !e.unlink && e.path == path)
        .map(|e| e.len)
}

/// Self-test: a real `File::sync_all` must be intercepted with the right length.
pub fn selftest(dir: &std::path::Path) -> Result<(), String> {
    use std::io::Write;
    init();
    let p = dir.join("syncspy-selftest");
    let (_, ev) = record(|| {
        let mut f = std::fs::File::create(&p).expect("create");
        f.write_all(b"12345").expect("write");
        f.sync_all().expect("sync");
        f.write_all(b"678").expect("write");
    });
    let _ = std::fs::remove_file(&p);
    let canon = p.canonicalize().unwrap_or(p.clone());
    match ev.iter().find(|e| !e.unlink && (e.path == p || e.path == canon)) {
        Some(e) if e.len == 5 => Ok(()),
        other => Err(format!(
            "fsync interposer did not see File::sync_all (events {ev:?}, match {other:?})"
        )),
    }
}
