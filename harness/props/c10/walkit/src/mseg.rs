//! Multi-segment store workloads over the real `FilesystemWalStore`.
//!
//! A second (third, …) segment file comes to exist in exactly two public ways, and both are used:
//! * `FilesystemWalStore::rotate_segment(epoch)` — seals the active segment and creates the next
//!   canonical segment file under the same writer epoch (`|` in a workload word);
//! * a new writer process: the store is dropped without `close_epoch` (a terminated process),
//!   `FilesystemWalStore::open(root, next_id)` creates the next segment file and
//!   `acquire_fresh_writer_epoch` fences a new epoch in the ledger (`/` in a workload word).
//!
//! While a workload runs, every durable mutation is recorded in program order as an [`Ev`]:
//! segment file creation, the byte range a transaction appended, and every ledger / manifest
//! version published through temp+rename (the versions are read off the temp file at the moment
//! the store fsyncs it, through the [`crate::syncspy`] interposer).  A crash image is "all events
//! before i complete + a stage of event i" ([`MPoint`]).

use crate::frame::{self, Rec};
use crate::store::{build_tx_on, tx_label, Chain, TxKind, KINDS};
use crate::{digest, syncspy, LEDGER_FILE, LEDGER_TMP, MANIFEST_FILE, MANIFEST_TMP};
use std::collections::BTreeMap;
use std::path::Path;
use warp_core::causal_wal::{
    recover_filesystem_store, FilesystemWalStore, Lsn, RecoveryAccessMode, WalCommittedTransaction,
    WalManifest, WalSegmentId, WalStorePort, WalWriterEpoch, WriterEpochId,
};

/// How the next segment comes to exist.
#[derive(Clone, Copy, Debug, PartialEq, Eq, PartialOrd, Ord, Hash)]
pub enum Bound {
    /// `rotate_segment` under the same writer epoch.
    Rotate,
    /// New writer: drop the store, `open(root, next id)`, `acquire_fresh_writer_epoch`.
    Reopen,
}

/// A multi-segment workload: transactions per segment and the boundary kinds between them.
#[derive(Clone, Debug, PartialEq, Eq, PartialOrd, Ord, Hash)]
pub struct MSpec {
    pub segs: Vec<Vec<TxKind>>,
    pub bounds: Vec<Bound>,
}

impl MSpec {
    /// `"ST|S/T"`: letters are transaction kinds, `|` = rotate, `/` = new writer on the next segment.
    pub fn parse(s: &str) -> Option<MSpec> {
        let mut segs = vec![Vec::new()];
        let mut bounds = Vec::new();
        for c in s.chars() {
            match c {
                '|' => {
                    bounds.push(Bound::Rotate);
                    segs.push(Vec::new());
                }
                '/' => {
                    bounds.push(Bound::Reopen);
                    segs.push(Vec::new());
                }
                c => segs.last_mut()?.push(KINDS.iter().copied().find(|k| k.letter() == c)?),
            }
        }
        Some(MSpec { segs, bounds })
    }
    pub fn word(&self) -> String {
        let mut s = String::new();
        for (i, seg) in self.segs.iter().enumerate() {
            if i > 0 {
                s.push(match self.bounds[i - 1] {
                    Bound::Rotate => '|',
                    Bound::Reopen => '/',
                });
            }
            s.extend(seg.iter().map(|k| k.letter()));
        }
        s
    }
    pub fn ntx(&self) -> usize {
        self.segs.iter().map(|s| s.len()).sum()
    }
}

/// Canonical relative path of segment `id`.
pub fn seg_rel(id: u64) -> String {
    format!("segments/segment-{id:020}.ecwal")
}

/// Durable image of a WAL root with any number of segment files.
#[derive(Clone, Debug, Default, PartialEq, Eq)]
pub struct MDirImage {
    /// Segment files by id (absent id = file absent).
    pub segs: BTreeMap<u64, Vec<u8>>,
    pub ledger: Option<Vec<u8>>,
    pub ledger_tmp: Option<Vec<u8>>,
    pub manifest: Option<Vec<u8>>,
    pub manifest_tmp: Option<Vec<u8>>,
}

fn parse_seg_name(name: &str) -> Option<u64> {
    name.strip_prefix("segment-")?.strip_suffix(".ecwal")?.parse().ok()
}

impl MDirImage {
    /// Make `root` equal to this image (files of the image are written, every other segment file,
    /// side file and the lock file are removed).
    pub fn materialise_over(&self, root: &Path) {
        let segdir = root.join("segments");
        std::fs::create_dir_all(&segdir).expect("segments dir");
        if let Ok(rd) = std::fs::read_dir(&segdir) {
            for e in rd.flatten() {
                let keep = e.file_name().to_str().and_then(parse_seg_name).is_some_and(|id| self.segs.contains_key(&id));
                if !keep {
                    let _ = std::fs::remove_file(e.path());
                }
            }
        }
        for (id, b) in &self.segs {
            std::fs::write(root.join(seg_rel(*id)), b).expect("segment");
        }
        let put = |rel: &str, b: &Option<Vec<u8>>| match b {
            Some(bytes) => std::fs::write(root.join(rel), bytes).expect("write image file"),
            None => {
                let _ = std::fs::remove_file(root.join(rel));
            }
        };
        put(LEDGER_FILE, &self.ledger);
        put(LEDGER_TMP, &self.ledger_tmp);
        put(MANIFEST_FILE, &self.manifest);
        put(MANIFEST_TMP, &self.manifest_tmp);
        let _ = std::fs::remove_file(root.join("writer-epoch.lock"));
    }

    /// Read the image back (every file in `segments/`, whatever its name parses to).
    pub fn read(root: &Path) -> MDirImage {
        let mut segs = BTreeMap::new();
        if let Ok(rd) = std::fs::read_dir(root.join("segments")) {
            for e in rd.flatten() {
                let id = e.file_name().to_str().and_then(parse_seg_name).unwrap_or(u64::MAX);
                segs.insert(id, std::fs::read(e.path()).unwrap_or_default());
            }
        }
        MDirImage {
            segs,
            ledger: std::fs::read(root.join(LEDGER_FILE)).ok(),
            ledger_tmp: std::fs::read(root.join(LEDGER_TMP)).ok(),
            manifest: std::fs::read(root.join(MANIFEST_FILE)).ok(),
            manifest_tmp: std::fs::read(root.join(MANIFEST_TMP)).ok(),
        }
    }
    pub fn last_seg_id(&self) -> Option<u64> {
        self.segs.keys().next_back().copied()
    }
}

/// One durable mutation, in the order the real store performed it.
#[derive(Clone, Debug, PartialEq, Eq)]
pub enum Ev {
    /// Segment file `seg` created (empty).
    SegCreate { seg: u64 },
    /// Transaction `tx` appended bytes `[from, to)` to segment `seg` (frames, then the synced commit marker).
    Append { seg: u64, tx: usize, from: usize, to: usize },
    /// Ledger version `v` published via temp+rename.
    Ledger { v: usize },
    /// Manifest version `v` published via temp+rename.
    Manifest { v: usize },
}

/// Stage of an event a crash can leave behind.
#[derive(Clone, Copy, Debug, PartialEq, Eq, PartialOrd, Ord, Hash)]
pub enum Stage {
    /// The event completed.
    Done,
    /// `Append` only: the segment file ends at this length (strictly inside the appended range).
    Byte(usize),
    /// `Ledger`/`Manifest` only: complete temp file present, not yet renamed.
    TmpFull,
    /// `Ledger`/`Manifest` only: half-written temp file present.
    TmpTorn,
}

/// A crash point: events `0..ev` complete, event `ev` at `stage`.
#[derive(Clone, Copy, Debug, PartialEq, Eq, PartialOrd, Ord, Hash)]
pub struct MPoint {
    pub ev: usize,
    pub stage: Stage,
}

/// A crash image with what the oracle needs to know about it.
#[derive(Clone, Debug)]
pub struct MState {
    pub img: MDirImage,
    /// Fully committed transactions in the image.
    pub k: usize,
    /// No torn record and no uncommitted frame anywhere.
    pub clean: bool,
    /// Segment that ends inside a transaction, if any.
    pub torn_seg: Option<u64>,
    /// Manifest version installed (index into `BuiltMulti::manifests`).
    pub manifest_v: Option<usize>,
}

/// Everything recorded while one multi-segment workload ran on the real store.
#[derive(Clone, Debug)]
pub struct BuiltMulti {
    pub spec: MSpec,
    pub variant: u8,
    /// Committed transactions in order.
    pub txs: Vec<WalCommittedTransaction>,
    /// Segment id each transaction was appended to.
    pub tx_seg: Vec<u64>,
    /// Final bytes of every segment file (index 0 = segment id 1).
    pub segments: Vec<Vec<u8>>,
    /// Record table of every segment (independent framing parser).
    pub records: Vec<Vec<Rec>>,
    /// Ledger versions in publication order.
    pub ledgers: Vec<Vec<u8>>,
    /// Manifest versions in publication order; `manifest_meta[v] = (commits covered, segment files declared)`.
    pub manifests: Vec<Vec<u8>>,
    pub manifest_meta: Vec<(usize, u64)>,
    /// Durable mutations in program order.
    pub events: Vec<Ev>,
    /// Segment length covered by an fsync when `append_transaction` number i returned.
    pub synced_at_ack: Vec<Option<u64>>,
    /// Per created segment: the `segments` directory was fsynced after the file was created and
    /// before the call that created it returned (its directory entry is durable before any
    /// transaction in it can be acknowledged).
    pub seg_dir_synced: Vec<bool>,
    /// Writer epoch of each segment.
    pub seg_epoch: Vec<WriterEpochId>,
    /// Writer-epoch evidence as the projection reader wants it (one entry per fenced epoch).
    pub writer_epochs: Vec<WalWriterEpoch>,
    /// Chain cursor after the last transaction.
    pub chain: Chain,
}

fn fname(p: &Path) -> String {
    p.file_name().map(|n| n.to_string_lossy().to_string()).unwrap_or_default()
}

struct Harvest<'a> {
    events: &'a mut Vec<Ev>,
    ledgers: &'a mut Vec<Vec<u8>>,
    manifests: &'a mut Vec<Vec<u8>>,
}

impl Harvest<'_> {
    /// Turn the temp-file syncs of one store call into publication events.
    fn side_files(&mut self, evs: &[syncspy::SyncEvent]) {
        for e in evs {
            let Some(c) = &e.content else { continue };
            let n = fname(&e.path);
            if n == LEDGER_TMP {
                self.ledgers.push(c.clone());
                self.events.push(Ev::Ledger { v: self.ledgers.len() - 1 });
            } else if n == MANIFEST_TMP {
                self.manifests.push(c.clone());
                self.events.push(Ev::Manifest { v: self.manifests.len() - 1 });
            }
        }
    }
}

/// True when `evs` contains a file sync of `seg_file` followed by a directory sync of `segments`.
fn created_and_dir_synced(evs: &[syncspy::SyncEvent], seg_file: &str) -> bool {
    let created = evs.iter().position(|e| !e.is_dir && !e.unlink && fname(&e.path) == seg_file);
    match created {
        Some(i) => evs[i + 1..].iter().any(|e| e.is_dir && fname(&e.path) == "segments"),
        None => false,
    }
}

/// Run a multi-segment workload on the real `FilesystemWalStore` in `root` (must be empty / absent).
pub fn build_multi(root: &Path, spec: &MSpec, variant: u8) -> Result<BuiltMulti, String> {
    let read = |p: &Path| std::fs::read(p).map_err(|e| format!("read {}: {e}", p.display()));
    let mut events = Vec::new();
    let mut ledgers = Vec::new();
    let mut manifests = Vec::new();
    let mut manifest_meta = Vec::new();
    let mut seg_dir_synced = Vec::new();
    let mut seg_epoch = Vec::new();
    let mut txs: Vec<WalCommittedTransaction> = Vec::new();
    let mut tx_seg = Vec::new();
    let mut synced_at_ack = Vec::new();

    let mut seg_id = 1u64;
    let (store, evs) = syncspy::record(|| FilesystemWalStore::open(root, WalSegmentId::from_raw(seg_id)));
    let mut store = store.map_err(|e| format!("open: {e:?}"))?;
    events.push(Ev::SegCreate { seg: seg_id });
    seg_dir_synced.push(created_and_dir_synced(&evs, &fname(Path::new(&seg_rel(seg_id)))));
    let (epoch, evs) = syncspy::record(|| store.acquire_fresh_writer_epoch(Lsn::from_raw(0)));
    let mut epoch = epoch.map_err(|e| format!("acquire epoch: {e:?}"))?;
    Harvest { events: &mut events, ledgers: &mut ledgers, manifests: &mut manifests }.side_files(&evs);
    seg_epoch.push(epoch.epoch_id);
    let mut writer_epochs = vec![WalWriterEpoch::from_writer_epoch(&epoch)];
    let mut chain = Chain::genesis();
    chain.next_lsn = epoch.started_at_lsn;

    for (si, words) in spec.segs.iter().enumerate() {
        if si > 0 {
            seg_id += 1;
            let file = fname(Path::new(&seg_rel(seg_id)));
            match spec.bounds[si - 1] {
                Bound::Rotate => {
                    let (res, evs) = syncspy::record(|| store.rotate_segment(epoch.epoch_id));
                    res.map_err(|e| format!("rotate_segment → {seg_id}: {e:?}"))?;
                    if store.active_segment_id().as_u64() != seg_id {
                        return Err("rotate_segment did not advance to the next canonical id".into());
                    }
                    seg_dir_synced.push(created_and_dir_synced(&evs, &file));
                    Harvest { events: &mut events, ledgers: &mut ledgers, manifests: &mut manifests }.side_files(&evs);
                }
                Bound::Reopen => {
                    drop(store);
                    let (s, evs) = syncspy::record(|| FilesystemWalStore::open(root, WalSegmentId::from_raw(seg_id)));
                    store = s.map_err(|e| format!("reopen on segment {seg_id}: {e:?}"))?;
                    seg_dir_synced.push(created_and_dir_synced(&evs, &file));
                    events.push(Ev::SegCreate { seg: seg_id });
                    let (ep, evs) = syncspy::record(|| store.acquire_fresh_writer_epoch(chain.next_lsn));
                    epoch = ep.map_err(|e| format!("acquire epoch on segment {seg_id}: {e:?}"))?;
                    writer_epochs.push(WalWriterEpoch::from_writer_epoch(&epoch));
                    Harvest { events: &mut events, ledgers: &mut ledgers, manifests: &mut manifests }.side_files(&evs);
                    if !txs.is_empty() && epoch.started_at_lsn != chain.next_lsn {
                        return Err(format!("new epoch starts at LSN {} but the log ends at {}", epoch.started_at_lsn.as_u64(), chain.next_lsn.as_u64()));
                    }
                    chain.next_lsn = epoch.started_at_lsn;
                }
            }
            if spec.bounds[si - 1] == Bound::Rotate {
                events.push(Ev::SegCreate { seg: seg_id });
            }
            if !root.join(seg_rel(seg_id)).exists() {
                return Err(format!("segment file {seg_id} does not exist after the boundary"));
            }
            seg_epoch.push(epoch.epoch_id);
        }
        let seg_path = root.join(seg_rel(seg_id));
        let seg_canon = seg_path.canonicalize().unwrap_or(seg_path.clone());
        for k in words {
            let i = txs.len();
            let tx = build_tx_on(*k, epoch.epoch_id, &chain, &tx_label(variant, i, *k), WalSegmentId::from_raw(seg_id))?;
            let from = read(&seg_path)?.len();
            let (res, evs) = syncspy::record(|| store.append_transaction(tx.clone()));
            res.map_err(|e| format!("append_transaction {i} on segment {seg_id}: {e:?}"))?;
            synced_at_ack.push(syncspy::synced_len(&evs, &seg_canon).or_else(|| syncspy::synced_len(&evs, &seg_path)));
            match recover_filesystem_store(root, RecoveryAccessMode::ReadOnly) {
                Ok(rep) if rep.transactions.len() == i + 1 && rep.transactions[i].commit == tx.commit && rep.transactions[i].frames == tx.frames => {}
                Ok(rep) => return Err(format!("ACK-VIOLATION: append_transaction {i} (segment {seg_id}) returned Ok but the directory recovers {} committed transaction(s)", rep.transactions.len())),
                Err(e) => return Err(format!("ACK-VIOLATION: append_transaction {i} (segment {seg_id}) returned Ok but the directory does not recover: {e:?}")),
            }
            let to = read(&seg_path)?.len();
            events.push(Ev::Append { seg: seg_id, tx: i, from, to });
            Harvest { events: &mut events, ledgers: &mut ledgers, manifests: &mut manifests }.side_files(&evs);
            chain = chain.after(&tx);
            let (res, evs) = syncspy::record(|| {
                store.publish_manifest(
                    epoch.epoch_id,
                    WalManifest {
                        manifest_digest: digest(&format!("walkit:manifest:v{variant}:{i}")),
                        last_committed_lsn: Some(tx.commit.last_lsn),
                        last_commit_digest: Some(tx.commit.commit_digest),
                        sealed_segment_count: seg_id,
                    },
                )
            });
            res.map_err(|e| format!("publish_manifest {i}: {e:?}"))?;
            Harvest { events: &mut events, ledgers: &mut ledgers, manifests: &mut manifests }.side_files(&evs);
            manifest_meta.push((i + 1, seg_id));
            txs.push(tx);
            tx_seg.push(seg_id);
        }
    }
    drop(store);
    if manifests.len() != manifest_meta.len() {
        return Err(format!("{} manifest publications observed, {} performed", manifests.len(), manifest_meta.len()));
    }
    if ledgers.last().map(|l| &l[..]) != Some(&read(&root.join(LEDGER_FILE))?[..]) {
        return Err("last observed ledger temp file differs from the installed ledger".into());
    }
    if let Some(m) = manifests.last() {
        if m[..] != read(&root.join(MANIFEST_FILE))?[..] {
            return Err("last observed manifest temp file differs from the installed manifest".into());
        }
    }
    let mut segments = Vec::new();
    let mut records = Vec::new();
    for id in 1..=seg_id {
        let b = read(&root.join(seg_rel(id)))?;
        let (recs, stop) = frame::parse(&b);
        if stop != b.len() {
            return Err(format!("independent framing parser stopped at {stop} of {} in segment {id}", b.len()));
        }
        segments.push(b);
        records.push(recs);
    }
    // cross-check the record tables with what was appended
    for id in 1..=seg_id {
        let mine: Vec<&WalCommittedTransaction> = txs.iter().zip(&tx_seg).filter(|(_, s)| **s == id).map(|(t, _)| t).collect();
        let recs = &records[id as usize - 1];
        if recs.iter().filter(|r| r.is_commit()).count() != mine.len()
            || recs.iter().filter(|r| !r.is_commit()).count() != mine.iter().map(|t| t.frames.len()).sum::<usize>()
        {
            return Err(format!("record table of segment {id} does not match appended transactions"));
        }
    }
    for e in &events {
        if let Ev::Append { seg, to, .. } = e {
            if !records[*seg as usize - 1].iter().any(|r| r.is_commit() && r.end == *to) {
                return Err("commit marker is not the last record of its transaction".into());
            }
        }
    }
    Ok(BuiltMulti {
        spec: spec.clone(),
        variant,
        txs,
        tx_seg,
        segments,
        records,
        ledgers,
        manifests,
        manifest_meta,
        events,
        synced_at_ack,
        seg_dir_synced,
        seg_epoch,
        writer_epochs,
        chain,
    })
}

impl BuiltMulti {
    pub fn word(&self) -> String {
        self.spec.word()
    }
    pub fn n(&self) -> usize {
        self.txs.len()
    }
    pub fn nseg(&self) -> usize {
        self.segments.len()
    }
    /// Transactions held by segment `id`, as a range of indices into `txs`.
    pub fn txs_of_seg(&self, id: u64) -> std::ops::Range<usize> {
        let first = self.tx_seg.iter().position(|s| *s == id);
        match first {
            Some(f) => f..f + self.tx_seg.iter().filter(|s| **s == id).count(),
            None => 0..0,
        }
    }
    /// Index of the event that creates segment 2 (the first segment boundary).
    pub fn first_boundary_event(&self) -> Option<usize> {
        self.events.iter().position(|e| matches!(e, Ev::SegCreate { seg } if *seg == 2))
    }
    /// The complete directory image.
    pub fn full_image(&self) -> MDirImage {
        self.state_at(&MPoint { ev: self.events.len() - 1, stage: Stage::Done }).img
    }
    /// Stages a crash can leave event `ev` in (`Done` last).
    pub fn stages_of(&self, ev: usize) -> Vec<Stage> {
        match &self.events[ev] {
            Ev::SegCreate { .. } => vec![Stage::Done],
            Ev::Append { from, to, .. } => {
                let mut v: Vec<Stage> = (from + 1..*to).map(Stage::Byte).collect();
                v.push(Stage::Done);
                v
            }
            Ev::Ledger { .. } | Ev::Manifest { .. } => vec![Stage::TmpFull, Stage::TmpTorn, Stage::Done],
        }
    }
    /// Every crash point from "event `first - 1` complete" on.
    pub fn points_from(&self, first: usize) -> Vec<MPoint> {
        let mut out = Vec::new();
        if first > 0 {
            out.push(MPoint { ev: first - 1, stage: Stage::Done });
        }
        for ev in first..self.events.len() {
            for stage in self.stages_of(ev) {
                out.push(MPoint { ev, stage });
            }
        }
        out
    }
    /// The crash image of a point.
    pub fn state_at(&self, p: &MPoint) -> MState {
        let mut img = MDirImage::default();
        let mut k = 0usize;
        let mut clean = true;
        let mut torn_seg = None;
        let mut ledger_v: Option<usize> = None;
        let mut manifest_v: Option<usize> = None;
        let mut lens: BTreeMap<u64, usize> = BTreeMap::new();
        for (i, e) in self.events.iter().enumerate().take(p.ev + 1) {
            let stage = if i == p.ev { p.stage } else { Stage::Done };
            match e {
                Ev::SegCreate { seg } => {
                    lens.insert(*seg, 0);
                }
                Ev::Append { seg, to, .. } => match stage {
                    Stage::Byte(l) => {
                        lens.insert(*seg, l);
                        clean = false;
                        torn_seg = Some(*seg);
                    }
                    _ => {
                        lens.insert(*seg, *to);
                        k += 1;
                    }
                },
                Ev::Ledger { v } => match stage {
                    Stage::TmpFull => img.ledger_tmp = Some(self.ledgers[*v].clone()),
                    Stage::TmpTorn => img.ledger_tmp = Some(self.ledgers[*v][..self.ledgers[*v].len() / 2].to_vec()),
                    _ => ledger_v = Some(*v),
                },
                Ev::Manifest { v } => match stage {
                    Stage::TmpFull => img.manifest_tmp = Some(self.manifests[*v].clone()),
                    Stage::TmpTorn => img.manifest_tmp = Some(self.manifests[*v][..self.manifests[*v].len() / 2].to_vec()),
                    _ => manifest_v = Some(*v),
                },
            }
        }
        for (id, l) in lens {
            img.segs.insert(id, self.segments[id as usize - 1][..l].to_vec());
        }
        img.ledger = ledger_v.map(|v| self.ledgers[v].clone());
        img.manifest = manifest_v.map(|v| self.manifests[v].clone());
        MState { img, k, clean, torn_seg, manifest_v }
    }
}

/// Quick workload set: both boundary kinds, 2 and 3 segments, several transactions per segment,
/// an empty middle segment (two rotations in a row) and an empty first segment.
pub fn specs_quick() -> Vec<MSpec> {
    ["S|S", "S/T", "ST|S|T", "S|T/S", "S||T", "|S"].iter().filter_map(|s| MSpec::parse(s)).collect()
}

/// Thorough workload set: every pair of one-transaction segments over the 4 kinds with both
/// boundary kinds, every 3-segment word over {S,T} with every boundary combination, two
/// transactions per segment, and the empty-segment layouts.
pub fn specs_thorough() -> Vec<MSpec> {
    let mut out: Vec<String> = Vec::new();
    let l = |k: &TxKind| k.letter();
    for a in &KINDS {
        for b in &KINDS {
            for s in ['|', '/'] {
                out.push(format!("{}{s}{}", l(a), l(b)));
            }
        }
    }
    let st = [TxKind::Submit, TxKind::Tick];
    for a in &st {
        for b in &st {
            for c in &st {
                for s1 in ['|', '/'] {
                    for s2 in ['|', '/'] {
                        out.push(format!("{}{s1}{}{s2}{}", l(a), l(b), l(c)));
                    }
                }
            }
        }
    }
    for s in ["ST|S|T", "ST/TS", "SS|TT", "TS|ST|S", "S||T", "S|/T", "S/|T", "|S", "/S", "S|T|", "RP|S", "P/R|T"] {
        out.push(s.to_string());
    }
    let mut seen = std::collections::BTreeSet::new();
    out.into_iter().filter(|s| seen.insert(s.clone())).filter_map(|s| MSpec::parse(&s)).collect()
}
