//! Store-layer workloads over the real `FilesystemWalStore`.

use crate::frame::{self, Rec};
use crate::{digest, syncspy, DirImage, LEDGER_FILE, MANIFEST_FILE, SEGMENT_REL};
use std::path::Path;
use warp_core::causal_wal::{
    build_retained_reading_transaction, build_submission_acceptance_transaction,
    build_tick_transaction, build_topology_intent_transaction, AffectedFrontier,
    AffectedFrontierKind, BraidShellRetentionRecord, EvidenceMaterialPosture, FilesystemWalStore,
    Lsn, PayloadCodecId, PayloadSchemaId, ReadingRefRecord, RetainedMaterialKind,
    RetainedMaterialRecord, StrandDropRecord, SubmissionAcceptanceRecord, TickReceiptRecord,
    TopologyImportOutcomeKind, TopologyIntentRecord, WalAppendAuthority, WalCommittedTransaction, WalWriterEpoch,
    WalDurabilityMode, WalManifest, WalReceiptCorrelationRecord, WalSegmentId, WalStorePort,
    WalTickDecision, WalTransactionBuilder, WalTransactionId, WalTransactionKind, WriterEpochId,
};
use warp_core::{
    make_strand_id, CausalTickReceiptRef, GlobalTick, Hash, WorldlineId, WorldlineTick,
};

/// Transaction kinds the public builders allow.
#[derive(Clone, Copy, Debug, PartialEq, Eq, PartialOrd, Ord, Hash)]
pub enum TxKind {
    /// Submission acceptance (2 frames: acceptance + ...) built by `build_submission_acceptance_transaction`.
    Submit,
    /// Scheduler tick (receipt + correlation + state-delta digest).
    Tick,
    /// Retained reading (one material ref + reading envelope).
    Reading,
    /// Topology intent (strand drop + braid shell).
    Topology,
}

pub const KINDS: [TxKind; 4] = [TxKind::Submit, TxKind::Tick, TxKind::Reading, TxKind::Topology];

impl TxKind {
    pub fn letter(self) -> char {
        match self {
            TxKind::Submit => 'S',
            TxKind::Tick => 'T',
            TxKind::Reading => 'R',
            TxKind::Topology => 'P',
        }
    }
}

pub fn word(kinds: &[TxKind]) -> String {
    kinds.iter().map(|k| k.letter()).collect()
}

/// Every word of length 1..=depth over `alphabet` (shorter words first, lexicographic by alphabet index).
pub fn words_over(alphabet: &[TxKind], depth: usize) -> Vec<Vec<TxKind>> {
    let mut out: Vec<Vec<TxKind>> = Vec::new();
    let mut level: Vec<Vec<TxKind>> = vec![Vec::new()];
    for _ in 0..depth {
        let mut next = Vec::new();
        for w in &level {
            for k in alphabet {
                let mut x = w.clone();
                x.push(*k);
                next.push(x);
            }
        }
        out.extend(next.iter().cloned());
        level = next;
    }
    out
}

/// The quick workload set shared by C10 and C11: every word of ≤2 transactions over the 4 kinds
/// plus every word of exactly 3 transactions over {Submit, Tick}.
pub fn words_quick() -> Vec<Vec<TxKind>> {
    let mut w = words_over(&KINDS, 2);
    w.extend(words_over(&[TxKind::Submit, TxKind::Tick], 3).into_iter().filter(|x| x.len() == 3));
    w
}

/// Chain cursor a writer carries from one transaction to the next.
#[derive(Clone, Copy, Debug, PartialEq, Eq)]
pub struct Chain {
    pub next_lsn: Lsn,
    pub prev_frame: Hash,
    pub prev_commit: Hash,
}

impl Chain {
    pub fn genesis() -> Chain {
        Chain {
            next_lsn: Lsn::from_raw(0),
            prev_frame: digest("walkit:previous-frame:genesis"),
            prev_commit: digest("walkit:previous-commit:genesis"),
        }
    }
    pub fn after(&self, tx: &WalCommittedTransaction) -> Chain {
        Chain {
            next_lsn: Lsn::from_raw(tx.commit.last_lsn.as_u64() + 1),
            prev_frame: tx.frames.last().map(|f| f.digest()).unwrap_or(self.prev_frame),
            prev_commit: tx.commit.commit_digest,
        }
    }
}

fn frontier(label: &str, kind: AffectedFrontierKind) -> AffectedFrontier {
    AffectedFrontier {
        kind,
        before_digest: digest(&format!("walkit:frontier:{label}:before")),
        after_digest: digest(&format!("walkit:frontier:{label}:after")),
    }
}

fn builder(
    epoch: WriterEpochId,
    seg: WalSegmentId,
    chain: &Chain,
    label: &str,
    authority: WalAppendAuthority,
    kind: WalTransactionKind,
) -> WalTransactionBuilder {
    WalTransactionBuilder::new(
        epoch,
        seg,
        // the transaction id depends on position and kind only, not on the payload family, so a
        // second log ("v1:…") has the same ids, LSNs and epoch and differs in payload content only
        WalTransactionId::from_hash(digest(&format!(
            "walkit:tx:{}",
            label.split_once(':').filter(|(v, _)| v.starts_with('v')).map(|(_, r)| r).unwrap_or(label)
        ))),
        kind,
        authority,
        chain.next_lsn,
        chain.prev_frame,
        chain.prev_commit,
        WalDurabilityMode::StrictFilesystem,
        PayloadCodecId::from_hash(digest("walkit:codec")),
        PayloadSchemaId::from_hash(digest("walkit:schema")),
        1,
        1,
        digest("walkit:domain"),
    )
}

/// Build one transaction of `kind` with payloads derived from `label` (frames declare segment 1).
pub fn build_tx(
    kind: TxKind,
    epoch: WriterEpochId,
    chain: &Chain,
    label: &str,
) -> Result<WalCommittedTransaction, String> {
    build_tx_on(kind, epoch, chain, label, WalSegmentId::from_raw(1))
}

/// Build one transaction of `kind` whose frames declare segment `seg`.
pub fn build_tx_on(
    kind: TxKind,
    epoch: WriterEpochId,
    chain: &Chain,
    label: &str,
    seg: WalSegmentId,
) -> Result<WalCommittedTransaction, String> {
    let r = match kind {
        TxKind::Submit => build_submission_acceptance_transaction(
            builder(
                epoch,
                seg,
                chain,
                label,
                WalAppendAuthority::SubmissionIntake,
                WalTransactionKind::SubmissionIntake,
            ),
            SubmissionAcceptanceRecord {
                submission_id: digest(&format!("walkit:submission:{label}")),
                canonical_envelope_digest: digest(&format!("walkit:envelope:{label}")),
                idempotency_key_digest: None,
                acceptance_evidence_digest: digest(&format!("walkit:acceptance:{label}")),
            },
            vec![frontier(label, AffectedFrontierKind::SubmissionQueue)],
        ),
        TxKind::Tick => {
            let receipt_ref = CausalTickReceiptRef {
                worldline_id: WorldlineId::from_bytes(digest(&format!("walkit:worldline:{label}"))),
                worldline_tick_after: WorldlineTick::from_raw(1),
                commit_global_tick: GlobalTick::from_raw(1),
                commit_hash: digest(&format!("walkit:commit:{label}")),
                submission_id: digest(&format!("walkit:submission:{label}")),
                ticket_digest: digest(&format!("walkit:ticket:{label}")),
                receipt_content_digest: digest(&format!("walkit:receipt:{label}")),
            };
            build_tick_transaction(
                builder(
                    epoch,
                    seg,
                    chain,
                    label,
                    WalAppendAuthority::TrustedScheduler,
                    WalTransactionKind::SchedulerTick,
                ),
                TickReceiptRecord {
                    receipt_ref,
                    decision: WalTickDecision::Applied,
                },
                WalReceiptCorrelationRecord {
                    receipt_ref,
                    causal_parent_receipts: Vec::new(),
                },
                digest(&format!("walkit:state-delta:{label}")),
                vec![frontier(label, AffectedFrontierKind::RuntimeState)],
            )
        }
        TxKind::Reading => build_retained_reading_transaction(
            builder(
                epoch,
                seg,
                chain,
                label,
                WalAppendAuthority::TrustedScheduler,
                WalTransactionKind::SchedulerTick,
            ),
            &[RetainedMaterialRecord {
                material_digest: digest(&format!("walkit:material:{label}")),
                semantic_coordinate_digest: digest(&format!("walkit:coordinate:{label}")),
                kind: RetainedMaterialKind::ReadingPayload,
                posture: EvidenceMaterialPosture::Present,
            }],
            ReadingRefRecord {
                reading_id: digest(&format!("walkit:reading:{label}")),
                semantic_coordinate_digest: digest(&format!("walkit:coordinate:{label}")),
                payload_digest: digest(&format!("walkit:material:{label}:payload")),
                envelope_digest: digest(&format!("walkit:material:{label}:envelope")),
                posture: EvidenceMaterialPosture::Present,
            },
            vec![frontier(label, AffectedFrontierKind::ReadingIndex)],
        ),
        TxKind::Topology => {
            let strand_id = make_strand_id(&format!("walkit:strand:{label}"));
            let records = vec![
                TopologyIntentRecord::StrandDrop(StrandDropRecord {
                    topology_intent_id: digest(&format!("walkit:topology:drop:{label}")),
                    strand_id,
                    child_worldline_id: WorldlineId::from_bytes(digest(&format!(
                        "walkit:child:{label}"
                    ))),
                    final_tick: WorldlineTick::from_raw(11),
                    drop_receipt_digest: digest(&format!("walkit:drop-receipt:{label}")),
                    issuer_evidence_digest: digest(&format!("walkit:issuer:{label}")),
                    idempotency_key_digest: Some(digest(&format!("walkit:idem:{label}"))),
                }),
                TopologyIntentRecord::BraidShell(BraidShellRetentionRecord {
                    topology_intent_id: digest(&format!("walkit:topology:shell:{label}")),
                    braid_id: digest(&format!("walkit:braid:{label}")),
                    shell_digest: digest(&format!("walkit:shell:{label}")),
                    material_digest: digest(&format!("walkit:shell-material:{label}")),
                    basis_digest: digest(&format!("walkit:shell-basis:{label}")),
                    outcome_kind: TopologyImportOutcomeKind::Plural,
                    retention_posture_digest: digest(&format!("walkit:shell-retention:{label}")),
                    witness_digest: digest(&format!("walkit:shell-witness:{label}")),
                    idempotency_key_digest: None,
                }),
            ];
            build_topology_intent_transaction(
                builder(
                    epoch,
                    seg,
                    chain,
                    label,
                    WalAppendAuthority::TrustedScheduler,
                    WalTransactionKind::TopologyIntent,
                ),
                &records,
                vec![frontier(label, AffectedFrontierKind::TopologyIndex)],
            )
        }
    };
    r.map_err(|e| format!("build {kind:?} {label}: {e:?}"))
}

/// Everything recorded while one workload ran on the real store.
#[derive(Clone, Debug)]
pub struct BuiltLog {
    pub kinds: Vec<TxKind>,
    pub variant: u8,
    pub epoch: WriterEpochId,
    /// Writer-epoch evidence as the projection reader wants it (one entry per fenced epoch).
    pub writer_epochs: Vec<WalWriterEpoch>,
    /// Committed transactions in order.
    pub txs: Vec<WalCommittedTransaction>,
    /// Final segment bytes.
    pub segment: Vec<u8>,
    /// `ends[c]` = segment length after commit c (c = 0 → 0).
    pub ends: Vec<usize>,
    /// `ledgers[c]` = ledger file bytes after commit c (c = 0 → after epoch acquisition).
    pub ledgers: Vec<Vec<u8>>,
    /// `manifests[c]` = manifest file bytes after the publish that followed commit c (c = 0 → none).
    pub manifests: Vec<Option<Vec<u8>>>,
    /// Segment length covered by an fsync when `append_transaction` number c returned (index c-1).
    pub synced_at_ack: Vec<Option<u64>>,
    /// Record table of the final segment (independent framing parser).
    pub records: Vec<Rec>,
    /// Chain cursor after the last transaction.
    pub chain: Chain,
}

impl BuiltLog {
    pub fn word(&self) -> String {
        word(&self.kinds)
    }
    pub fn n(&self) -> usize {
        self.txs.len()
    }
    /// The durable image right after commit c was acknowledged and its manifest published.
    pub fn image_after(&self, c: usize) -> DirImage {
        DirImage {
            segment: Some(self.segment[..self.ends[c]].to_vec()),
            ledger: Some(self.ledgers[c].clone()),
            ledger_tmp: None,
            manifest: self.manifests[c].clone(),
            manifest_tmp: None,
        }
    }
}

/// Label of transaction `i` of a workload (depends only on position, kind and payload family, so
/// the log of `w` is a byte prefix of the log of `w·x`).
pub fn tx_label(variant: u8, i: usize, kind: TxKind) -> String {
    format!("v{variant}:{i}:{}", kind.letter())
}

/// Run a workload on the real `FilesystemWalStore` in `root` (must be empty / absent).
pub fn build_log(root: &Path, kinds: &[TxKind], variant: u8, publish_manifest: bool) -> Result<BuiltLog, String> {
    let seg_path = root.join(SEGMENT_REL);
    let mut store = FilesystemWalStore::open(root, WalSegmentId::from_raw(1))
        .map_err(|e| format!("open: {e:?}"))?;
    let epoch = store
        .acquire_fresh_writer_epoch(Lsn::from_raw(0))
        .map_err(|e| format!("acquire epoch: {e:?}"))?;
    let read = |p: &Path| std::fs::read(p).map_err(|e| format!("read {}: {e}", p.display()));
    let mut chain = Chain::genesis();
    chain.next_lsn = epoch.started_at_lsn;
    let mut out = BuiltLog {
        kinds: kinds.to_vec(),
        variant,
        epoch: epoch.epoch_id,
        writer_epochs: vec![WalWriterEpoch::from_writer_epoch(&epoch)],
        txs: Vec::new(),
        segment: Vec::new(),
        ends: vec![read(&seg_path)?.len()],
        ledgers: vec![read(&root.join(LEDGER_FILE))?],
        manifests: vec![None],
        synced_at_ack: Vec::new(),
        records: Vec::new(),
        chain,
    };
    if out.ends[0] != 0 {
        return Err("segment not empty after open".into());
    }
    let seg_canon = seg_path.canonicalize().unwrap_or(seg_path.clone());
    for (i, k) in kinds.iter().enumerate() {
        let tx = build_tx(*k, epoch.epoch_id, &chain, &tx_label(variant, i, *k))?;
        let (res, events) = syncspy::record(|| store.append_transaction(tx.clone()));
        res.map_err(|e| format!("append_transaction {i}: {e:?}"))?;
        out.synced_at_ack.push(
            syncspy::synced_len(&events, &seg_canon).or_else(|| syncspy::synced_len(&events, &seg_path)),
        );
        // acknowledged ⇒ recoverable from the directory as it is right now
        match warp_core::causal_wal::recover_filesystem_store(root, warp_core::causal_wal::RecoveryAccessMode::ReadOnly) {
            Ok(rep) if rep.transactions.len() == i + 1 && rep.transactions[i].commit == tx.commit && rep.transactions[i].frames == tx.frames => {}
            Ok(rep) => {
                return Err(format!(
                    "ACK-VIOLATION: append_transaction {i} returned Ok but the directory recovers {} committed transaction(s)",
                    rep.transactions.len()
                ))
            }
            Err(e) => return Err(format!("ACK-VIOLATION: append_transaction {i} returned Ok but the directory does not recover: {e:?}")),
        }
        chain = chain.after(&tx);
        out.ends.push(read(&seg_path)?.len());
        out.ledgers.push(read(&root.join(LEDGER_FILE))?);
        if publish_manifest {
            store
                .publish_manifest(
                    epoch.epoch_id,
                    WalManifest {
                        manifest_digest: digest(&format!("walkit:manifest:v{variant}:{i}")),
                        last_committed_lsn: Some(tx.commit.last_lsn),
                        last_commit_digest: Some(tx.commit.commit_digest),
                        sealed_segment_count: 1,
                    },
                )
                .map_err(|e| format!("publish_manifest {i}: {e:?}"))?;
            out.manifests.push(Some(read(&root.join(MANIFEST_FILE))?));
        } else {
            out.manifests.push(None);
        }
        out.txs.push(tx);
    }
    out.segment = read(&seg_path)?;
    out.chain = chain;
    let (recs, stop) = frame::parse(&out.segment);
    if stop != out.segment.len() {
        return Err(format!(
            "independent framing parser stopped at {stop} of {} — documented framing does not match",
            out.segment.len()
        ));
    }
    // cross-check the record table with what was appended
    let frames: usize = out.txs.iter().map(|t| t.frames.len()).sum();
    if recs.iter().filter(|r| !r.is_commit()).count() != frames
        || recs.iter().filter(|r| r.is_commit()).count() != out.txs.len()
    {
        return Err("record table does not match appended transactions".into());
    }
    for (c, end) in out.ends.iter().enumerate().skip(1) {
        let commit_ends: Vec<usize> = recs.iter().filter(|r| r.is_commit()).map(|r| r.end).collect();
        if commit_ends[c - 1] != *end {
            return Err("commit marker is not the last record of its transaction".into());
        }
    }
    out.records = recs;
    drop(store);
    Ok(out)
}
