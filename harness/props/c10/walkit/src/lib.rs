//! Shared workload builders for C10 (crash recovery) and C11 (corruption rejection).
//!
//! * [`syncspy`] — link-time interposer of `fsync`/`fdatasync`: records, per thread and on demand,
//!   which file was synced at which length (so "acknowledged" can be compared with "durable").
//! * [`store`] — store-layer workloads: sequences of transactions appended through the real
//!   `FilesystemWalStore`, with the segment/ledger/manifest bytes snapshotted after every commit.
//! * [`frame`] — independent parser of the documented disk framing (magic, kind, length, payload,
//!   digest) used to locate record boundaries.
//! * [`mseg`] — multi-segment store workloads (segment rotation and new-writer segments) with an
//!   event-ordered timeline of durable mutations for crash-image enumeration.
//! * [`host`] — host-layer fixtures: a `TrustedRuntimeHost` with a contract package, the op
//!   alphabet {submit A, submit B, retry A, tick}, and the application-visible fingerprint.

pub mod frame;
pub mod host;
pub mod hostrun;
pub mod mseg;
pub mod store;
pub mod syncspy;

use std::path::{Path, PathBuf};
use std::sync::atomic::{AtomicU64, Ordering};

/// BLAKE3 of a label.
pub fn digest(label: &str) -> [u8; 32] {
    *blake3::hash(label.as_bytes()).as_bytes()
}

static DIR_COUNTER: AtomicU64 = AtomicU64::new(0);

/// Fresh, empty sub-directory of `base` (names are only scratch locations, never part of a verdict).
pub fn fresh_dir(base: &Path, tag: &str) -> PathBuf {
    let n = DIR_COUNTER.fetch_add(1, Ordering::Relaxed);
    let p = base.join(format!("{tag}-{n}"));
    let _ = std::fs::remove_dir_all(&p);
    std::fs::create_dir_all(&p).expect("scratch dir");
    p
}

pub const SEGMENT_REL: &str = "segments/segment-00000000000000000001.ecwal";
pub const LEDGER_FILE: &str = "writer-epochs.ecwal";
pub const LEDGER_TMP: &str = ".writer-epochs.ecwal.tmp";
pub const MANIFEST_FILE: &str = "manifest.ecwal";
pub const MANIFEST_TMP: &str = ".manifest.ecwal.tmp";

/// Durable image of a WAL root directory (what a crash leaves behind).
#[derive(Clone, Debug, Default, PartialEq, Eq)]
pub struct DirImage {
    /// Segment file bytes (`None` = file absent).
    pub segment: Option<Vec<u8>>,
    pub ledger: Option<Vec<u8>>,
    pub ledger_tmp: Option<Vec<u8>>,
    pub manifest: Option<Vec<u8>>,
    pub manifest_tmp: Option<Vec<u8>>,
}

impl DirImage {
    /// Write the image into an empty directory.
    pub fn materialise(&self, root: &Path) {
        std::fs::create_dir_all(root.join("segments")).expect("segments dir");
        if let Some(b) = &self.segment {
            std::fs::write(root.join(SEGMENT_REL), b).expect("segment");
        }
        if let Some(b) = &self.ledger {
            std::fs::write(root.join(LEDGER_FILE), b).expect("ledger");
        }
        if let Some(b) = &self.ledger_tmp {
            std::fs::write(root.join(LEDGER_TMP), b).expect("ledger tmp");
        }
        if let Some(b) = &self.manifest {
            std::fs::write(root.join(MANIFEST_FILE), b).expect("manifest");
        }
        if let Some(b) = &self.manifest_tmp {
            std::fs::write(root.join(MANIFEST_TMP), b).expect("manifest tmp");
        }
    }

    /// Make an existing WAL root directory equal to this image without re-creating it: files of
    /// the image are overwritten, files the image does not have are removed (also the lock file).
    pub fn materialise_over(&self, root: &Path) {
        if !root.join("segments").is_dir() {
            let _ = std::fs::remove_dir_all(root);
            self.materialise(root);
            return;
        }
        let put = |rel: &str, b: &Option<Vec<u8>>| match b {
            Some(bytes) => std::fs::write(root.join(rel), bytes).expect("write image file"),
            None => {
                let _ = std::fs::remove_file(root.join(rel));
            }
        };
        // stray segment files (a recovery may have produced other names) are removed first
        if let Ok(rd) = std::fs::read_dir(root.join("segments")) {
            for e in rd.flatten() {
                if e.path() != root.join(SEGMENT_REL) {
                    let _ = std::fs::remove_file(e.path());
                }
            }
        }
        put(SEGMENT_REL, &self.segment);
        put(LEDGER_FILE, &self.ledger);
        put(LEDGER_TMP, &self.ledger_tmp);
        put(MANIFEST_FILE, &self.manifest);
        put(MANIFEST_TMP, &self.manifest_tmp);
        let _ = std::fs::remove_file(root.join("writer-epoch.lock"));
    }

    /// Read the image back from a directory.
    pub fn read(root: &Path) -> DirImage {
        DirImage {
            segment: std::fs::read(root.join(SEGMENT_REL)).ok(),
            ledger: std::fs::read(root.join(LEDGER_FILE)).ok(),
            ledger_tmp: std::fs::read(root.join(LEDGER_TMP)).ok(),
            manifest: std::fs::read(root.join(MANIFEST_FILE)).ok(),
            manifest_tmp: std::fs::read(root.join(MANIFEST_TMP)).ok(),
        }
    }
}
