//! Host-layer fixtures: a `TrustedRuntimeHost` with one worldline, one writer head and a contract
//! package whose mutation handler accepts two distinct intents A and B.  Every application callback
//! (matcher, footprint, executor, query observer) bumps a harness counter, so "recovery runs no
//! application callback" is observable.

use std::path::Path;
use std::sync::atomic::{AtomicU64, Ordering};

use echo_registry_api::{
    ArgDef, ContractArtifactVerificationPolicy, ObjectDef, OpDef, OpKind, RegistryInfo,
    RegistryProvider,
};
use warp_core::causal_wal::FilesystemWalFaultPlan;
use warp_core::{
    ProvenanceStore,
    make_head_id, make_intent_kind, make_node_id, make_type_id, AuthoredObserverPlan,
    ContractMutationHandler, ContractPackageIdentity, ContractQueryObserver,
    ContractQueryObserverResult, EngineBuilder, GraphStore, GraphView, Hash, InboxPolicy,
    IngressEnvelope, IngressTarget, IntentOutcome, NodeId, NodeRecord, ObserverPlanId,
    OpticAdmissionTicket, OpticArtifactHandle, PatternGraph, PlaybackMode, SchedulerKind,
    TickDelta, TrustedRuntimeHost, TrustedRuntimeHostError, TrustedRuntimeWalConfig, WarpOp,
    WorldlineId, WorldlineRuntime, WorldlineState, WriterHead, WriterHeadKey,
    OPTIC_ADMISSION_TICKET_KIND, OPTIC_ARTIFACT_HANDLE_KIND,
};

const SCHEMA_SHA256_HEX: &str = "0123456789abcdef0123456789abcdef0123456789abcdef0123456789abcdef";
const MUTATION_OP_ID: u32 = 6001;
const QUERY_OP_ID: u32 = 6002;
const VARS_A: &[u8] = b"amount=7";
const VARS_B: &[u8] = b"amount=8";
const RESULT_TYPE: &str = "verif/c10/result";
const MUTATION_RULE_NAME: &str =
    "cmd/contract/0123456789abcdef0123456789abcdef0123456789abcdef0123456789abcdef/6001/increment";
const MUTATION_RULE_ID_LABEL: &str =
    "rule:cmd/contract/0123456789abcdef0123456789abcdef0123456789abcdef0123456789abcdef/6001/increment";

/// Application callback counters (matcher + footprint + executor + query observer).
pub static CALLBACKS: AtomicU64 = AtomicU64::new(0);
thread_local! {
    /// Per-thread callback counter (parallel sweeps look at their own thread only).
    pub static CALLBACKS_TL: std::cell::Cell<u64> = const { std::cell::Cell::new(0) };
}
fn bump() {
    CALLBACKS.fetch_add(1, Ordering::Relaxed);
    CALLBACKS_TL.with(|c| c.set(c.get() + 1));
}
/// Callbacks observed on this thread so far.
pub fn callbacks_here() -> u64 {
    CALLBACKS_TL.with(|c| c.get())
}

static INCREMENT_ARGS: &[ArgDef] = &[ArgDef {
    name: "input",
    ty: "IncrementInput",
    required: true,
    list: false,
}];

static OPS: &[OpDef] = &[
    OpDef {
        kind: OpKind::Mutation,
        name: "increment",
        op_id: MUTATION_OP_ID,
        args: INCREMENT_ARGS,
        result_ty: "CounterValue",
        directives_json: "{}",
        footprint_certificate: None,
    },
    OpDef {
        kind: OpKind::Query,
        name: "counterWindow",
        op_id: QUERY_OP_ID,
        args: INCREMENT_ARGS,
        result_ty: "CounterWindow",
        directives_json: "{}",
        footprint_certificate: None,
    },
];

struct StaticRegistry;

impl RegistryProvider for StaticRegistry {
    fn info(&self) -> RegistryInfo {
        RegistryInfo {
            echo_abi_version: 1,
            codec_id: "cbor-canon-v1",
            registry_version: 1,
            schema_sha256_hex: SCHEMA_SHA256_HEX,
            wesley_generator_version: "echo-wesley-gen/0.1.0",
            helper_api_version: 1,
        }
    }
    fn op_by_id(&self, op_id: u32) -> Option<&'static OpDef> {
        OPS.iter().find(|op| op.op_id == op_id)
    }
    fn all_ops(&self) -> &'static [OpDef] {
        OPS
    }
    fn all_enums(&self) -> &'static [echo_registry_api::EnumDef] {
        &[]
    }
    fn all_objects(&self) -> &'static [ObjectDef] {
        &[]
    }
}

fn vars_of<'a>(view: GraphView<'a>, scope: &NodeId) -> Option<&'a [u8]> {
    warp_core::eint_vars_for_op(view, scope, MUTATION_OP_ID)
}

fn result_node_id(scope: &NodeId) -> NodeId {
    let mut hasher = blake3::Hasher::new();
    hasher.update(b"verif.c10.result-node");
    hasher.update(scope.as_bytes());
    NodeId(hasher.finalize().into())
}

fn contract_execute(view: GraphView<'_>, scope: &NodeId, delta: &mut TickDelta) {
    bump();
    let Some(vars) = vars_of(view, scope) else {
        return;
    };
    if vars != VARS_A && vars != VARS_B {
        return;
    }
    let warp_id = view.warp_id();
    let result = result_node_id(scope);
    delta.push(WarpOp::UpsertNode {
        node: warp_core::NodeKey {
            warp_id,
            local_id: result,
        },
        record: NodeRecord {
            ty: make_type_id(RESULT_TYPE),
        },
    });
    delta.push(WarpOp::SetAttachment {
        key: warp_core::AttachmentKey::node_alpha(warp_core::NodeKey {
            warp_id,
            local_id: result,
        }),
        value: Some(warp_core::AttachmentValue::Atom(warp_core::AtomPayload::new(
            make_type_id(RESULT_TYPE),
            bytes::Bytes::copy_from_slice(vars),
        ))),
    });
}

fn contract_matches(view: GraphView<'_>, scope: &NodeId) -> bool {
    bump();
    matches!(vars_of(view, scope), Some(v) if v == VARS_A || v == VARS_B)
}

fn contract_footprint(view: GraphView<'_>, scope: &NodeId) -> warp_core::Footprint {
    bump();
    let mut footprint = warp_core::runtime_ingress_eint_read_footprint(view, scope);
    let warp_id = view.warp_id();
    let result = result_node_id(scope);
    footprint.n_write.insert_with_warp(warp_id, result);
    footprint
        .a_write
        .insert(warp_core::AttachmentKey::node_alpha(warp_core::NodeKey {
            warp_id,
            local_id: result,
        }));
    footprint
}

fn contract_rule() -> warp_core::RewriteRule {
    warp_core::RewriteRule {
        id: make_type_id(MUTATION_RULE_ID_LABEL).0,
        name: MUTATION_RULE_NAME,
        left: PatternGraph { nodes: vec![] },
        matcher: contract_matches,
        executor: contract_execute,
        compute_footprint: contract_footprint,
        factor_mask: 0,
        conflict_policy: warp_core::ConflictPolicy::Abort,
        join_fn: None,
    }
}

fn observer_plan() -> AuthoredObserverPlan {
    AuthoredObserverPlan {
        plan_id: ObserverPlanId::from_bytes([11; 32]),
        artifact_hash: [12; 32],
        schema_hash: [13; 32],
        state_schema_hash: [14; 32],
        update_law_hash: [15; 32],
        emission_law_hash: [16; 32],
    }
}

fn package() -> warp_core::InstalledContractPackage<'static> {
    static REGISTRY: StaticRegistry = StaticRegistry;
    warp_core::InstalledContractPackage {
        identity: ContractPackageIdentity {
            package_name: "verif-c10-counter",
            package_version: "0.1.0",
            artifact_hash_hex: "bbbbbbbbbbbbbbbbbbbbbbbbbbbbbbbbbbbbbbbbbbbbbbbbbbbbbbbbbbbbbbbb",
        },
        registry: &REGISTRY,
        verification_policy: ContractArtifactVerificationPolicy {
            echo_abi_version: 1,
            codec_id: "cbor-canon-v1",
            registry_version: 1,
            schema_sha256_hex: SCHEMA_SHA256_HEX,
            wesley_generator_version: "echo-wesley-gen/0.1.0",
            helper_api_version: 1,
            footprint_certificates: &[],
            require_mutation_footprint_certificates: false,
        },
        mutation_handlers: vec![ContractMutationHandler {
            op_id: MUTATION_OP_ID,
            rule: contract_rule(),
        }],
        inverse_handlers: vec![],
        query_observers: vec![ContractQueryObserver::new(QUERY_OP_ID, observer_plan(), |_context| {
            bump();
            Ok(ContractQueryObserverResult::complete(b"window".to_vec()))
        })],
    }
}

/// The worldline every workload runs on.
pub fn worldline() -> WorldlineId {
    WorldlineId::from_bytes([1; 32])
}

/// Fresh host: one registered worldline + writer head, empty engine, contract package installed.
pub fn fresh_host() -> Result<TrustedRuntimeHost, String> {
    let mut runtime = WorldlineRuntime::new();
    let worldline_id = worldline();
    runtime
        .register_worldline(worldline_id, WorldlineState::empty())
        .map_err(|e| format!("register worldline: {e:?}"))?;
    runtime
        .register_writer_head(WriterHead::with_routing(
            WriterHeadKey {
                worldline_id,
                head_id: make_head_id("default"),
            },
            PlaybackMode::Play,
            InboxPolicy::AcceptAll,
            None,
            true,
        ))
        .map_err(|e| format!("register head: {e:?}"))?;
    let mut store = GraphStore::default();
    let root = make_node_id("root");
    store.insert_node(
        root,
        NodeRecord {
            ty: make_type_id("world"),
        },
    );
    let engine = EngineBuilder::new(store, root)
        .scheduler(SchedulerKind::Radix)
        .workers(1)
        .build();
    let mut host = TrustedRuntimeHost::new(runtime, engine).map_err(|e| format!("host: {e:?}"))?;
    host.register_contract_package(package())
        .map_err(|e| format!("register package: {e:?}"))?;
    Ok(host)
}

/// Fresh host with the filesystem runtime WAL at `root` enabled (this is "recovery" when the
/// directory already holds a log).
pub fn open_host(root: &Path) -> Result<TrustedRuntimeHost, (String, String)> {
    let mut host = fresh_host().map_err(|e| ("fixture".to_string(), e))?;
    host.enable_runtime_wal(TrustedRuntimeWalConfig::filesystem(root))
        .map_err(|e| ("enable_runtime_wal".to_string(), format!("{e:?}")))?;
    Ok(host)
}

/// Submission letters.
#[derive(Clone, Copy, Debug, PartialEq, Eq, PartialOrd, Ord, Hash)]
pub enum Sub {
    A,
    B,
}

impl Sub {
    pub fn envelope(self) -> IngressEnvelope {
        let vars = match self {
            Sub::A => VARS_A,
            Sub::B => VARS_B,
        };
        IngressEnvelope::local_intent(
            IngressTarget::DefaultWriter {
                worldline_id: worldline(),
            },
            make_intent_kind("echo.intent/eint-v1"),
            echo_wasm_abi::pack_intent_v1(MUTATION_OP_ID, vars).expect("EINT packs"),
        )
    }
    pub fn ticket(self) -> OpticAdmissionTicket {
        let seed: u8 = match self {
            Sub::A => 55,
            Sub::B => 77,
        };
        OpticAdmissionTicket {
            kind: OPTIC_ADMISSION_TICKET_KIND.to_owned(),
            artifact_handle: OpticArtifactHandle {
                kind: OPTIC_ARTIFACT_HANDLE_KIND.to_owned(),
                id: format!("verif-c10-{seed}"),
            },
            artifact_hash: format!("artifact-hash-{seed}"),
            operation_id: format!("operation-{seed}"),
            requirements_digest: format!("requirements-{seed}"),
            canonical_variables_digest: vec![seed],
            basis_request_digest: [seed; 32],
            aperture_request_digest: [seed.wrapping_add(1); 32],
            budget_request_digest: [seed.wrapping_add(2); 32],
            law_witness_digest: [seed.wrapping_add(3); 32],
            ticket_digest: [seed.wrapping_add(4); 32],
        }
    }
    pub fn letter(self) -> char {
        match self {
            Sub::A => 'a',
            Sub::B => 'b',
        }
    }
}

/// Host operations of the workload alphabet.
#[derive(Clone, Copy, Debug, PartialEq, Eq, PartialOrd, Ord, Hash)]
pub enum Op {
    /// First submission of an intent through `submit_intent_with_runtime_wal_ack`.
    Submit(Sub),
    /// Re-submission of an already acknowledged intent (must de-duplicate, appends nothing).
    Retry(Sub),
    /// Stage every acknowledged, undecided submission (in-memory) and run `tick_once`.
    Tick,
}

impl Op {
    pub fn letter(self) -> String {
        match self {
            Op::Submit(s) => s.letter().to_uppercase().to_string(),
            Op::Retry(s) => format!("r{}", s.letter()),
            Op::Tick => "t".into(),
        }
    }
}

pub fn ops_word(ops: &[Op]) -> String {
    ops.iter().map(|o| o.letter()).collect::<Vec<_>>().join(".")
}

/// What the harness knows about the submissions it made (ids are returned by the host).
#[derive(Clone, Debug, Default, PartialEq, Eq)]
pub struct Known {
    pub ids: std::collections::BTreeMap<Sub, Hash>,
}

/// Result of applying one op.
#[derive(Clone, Debug, PartialEq, Eq)]
pub enum OpResult {
    Acked { duplicate: bool, submission_id: Hash },
    Ticked { steps: usize },
}

/// Stage all acknowledged submissions that are still pending; returns how many were staged now.
pub fn stage_pending(host: &mut TrustedRuntimeHost, known: &Known) -> Result<usize, String> {
    let mut staged = 0;
    for (sub, id) in &known.ids {
        let pending = matches!(host.app().observe_intent_outcome(id), IntentOutcome::Pending { .. });
        if pending {
            host.stage_installed_contract_submission(*id, &sub.ticket())
                .map_err(|e| format!("stage {sub:?}: {e:?}"))?;
            staged += 1;
        }
    }
    Ok(staged)
}

/// Apply one op to a live host.
pub fn apply(host: &mut TrustedRuntimeHost, known: &mut Known, op: Op) -> Result<OpResult, TrustedRuntimeHostError> {
    match op {
        Op::Submit(s) | Op::Retry(s) => {
            let h = host.app().submit_intent_with_runtime_wal_ack(s.envelope())?;
            known.ids.insert(s, h.submission_id);
            Ok(OpResult::Acked {
                duplicate: h.duplicate,
                submission_id: h.submission_id,
            })
        }
        Op::Tick => {
            if let Err(e) = stage_pending(host, known) {
                // staging is in-memory admission; a refusal is reported as a tick that did nothing
                let _ = e;
            }
            let steps = host.tick_once()?;
            Ok(OpResult::Ticked { steps: steps.len() })
        }
    }
}

/// Inject a one-shot store fault into the live host's filesystem WAL.
pub fn inject(host: &mut TrustedRuntimeHost, plan: FilesystemWalFaultPlan) -> Result<(), String> {
    host.inject_runtime_wal_filesystem_fault_for_test(plan)
        .map_err(|e| format!("{e:?}"))
}

fn h6(h: &Hash) -> String {
    h[..6].iter().map(|b| format!("{b:02x}")).collect()
}

/// Application-visible durable state of a host, as text.  Staging (in-memory admission) is
/// deliberately excluded: `Pending` outcomes are printed without their ticketed-ingress id.
pub fn fingerprint(host: &mut TrustedRuntimeHost, ids: &[(Sub, Hash)]) -> String {
    let mut out = fingerprint_live(host, ids);
    out.push_str(&fingerprint_wal(host, ids));
    out
}

/// The in-memory, application-visible part of the fingerprint (no WAL read).
pub fn fingerprint_live(host: &mut TrustedRuntimeHost, ids: &[(Sub, Hash)]) -> String {
    let mut out = String::new();
    let wl = worldline();
    out.push_str(&format!("global_tick={}\n", host.runtime().global_tick().as_u64()));
    match host.runtime().worldlines().get(&wl) {
        Some(f) => out.push_str(&format!(
            "frontier_tick={:?} state_root={}\n",
            f.frontier_tick(),
            h6(&f.state().state_root())
        )),
        None => out.push_str("worldline missing\n"),
    }
    let plen = host.provenance().len(wl).map_err(|e| format!("{e:?}"));
    out.push_str(&format!("provenance_len={plen:?}\n"));
    if let Ok(n) = plen {
        if n > 0 {
            let tip = host
                .provenance()
                .entry(wl, warp_core::WorldlineTick::from_raw(n as u64 - 1))
                .map(|e| h6(&mc_hash(format!("{e:?}").as_bytes())))
                .map_err(|e| format!("{e:?}"));
            out.push_str(&format!("provenance_tip={tip:?}\n"));
        }
    }
    out.push_str(&format!(
        "witnessed_submissions={} receipt_correlations={}\n",
        host.runtime().witnessed_submission_count(),
        host.runtime().receipt_correlation_count()
    ));
    for (sub, id) in ids {
        let witnessed = host
            .runtime()
            .witnessed_submission(id)
            .map(|w| h6(&mc_hash(format!("{w:?}").as_bytes())));
        let outcome = match host.app().observe_intent_outcome(id) {
            IntentOutcome::Pending {
                submission_id,
                submission_generation,
                ..
            } => format!("Pending({} gen={submission_generation:?})", h6(&submission_id)),
            other => format!("{}#{}", variant_name(&format!("{other:?}")), h6(&mc_hash(format!("{other:?}").as_bytes()))),
        };
        let corr = host
            .runtime()
            .receipt_correlation_for_submission(id)
            .map(|c| h6(&mc_hash(format!("{c:?}").as_bytes())));
        out.push_str(&format!(
            "{sub:?} id={} witnessed={witnessed:?} outcome={outcome} correlation={corr:?}\n",
            h6(id)
        ));
    }
    out
}

/// What read-only recovery of the host's own WAL reports (committed count, index root, postures).
pub fn fingerprint_wal(host: &mut TrustedRuntimeHost, ids: &[(Sub, Hash)]) -> String {
    let mut out = String::new();
    match host.runtime_wal().map(|w| w.recover_read_only()) {
        Some(Ok(rec)) => {
            out.push_str(&format!(
                "wal committed={} obstructions={} index_root={} submissions={:?}\n",
                rec.certificate.committed_transactions_replayed,
                rec.certificate.obstruction_count,
                h6(&rec.certificate.recovered_indexes_root),
                ids.iter()
                    .map(|(s, id)| (s.letter(), rec.submissions.get(id).map(|e| format!("{:?}", e.posture))))
                    .collect::<Vec<_>>()
            ));
        }
        Some(Err(e)) => out.push_str(&format!("wal recover_read_only error {e:?}\n")),
        None => out.push_str("wal none\n"),
    }
    out
}

fn variant_name(dbg: &str) -> String {
    dbg.chars().take_while(|c| c.is_ascii_alphanumeric()).collect()
}

fn mc_hash(b: &[u8]) -> Hash {
    *blake3::hash(b).as_bytes()
}

/// Number of submission-acceptance / scheduler-tick transactions in the host's WAL.
pub fn wal_counts(host: &TrustedRuntimeHost) -> (usize, usize) {
    host.runtime_wal()
        .map(|w| (w.submission_acceptance_count(), w.scheduler_tick_count()))
        .unwrap_or((0, 0))
}
