//! C10 crash–recover–crash–recover–continue with an epoch that commits nothing in between.
//!
//! A writer that fences a fresh epoch and stops before its first commit (a process that starts and
//! dies, or a host that is opened and closed without any operation) leaves a commit-less epoch in
//! the ledger.  Enumerated here: every complete workload image × 1..=2 such idle fences, then a
//! real continuation (fence again, append at the LSN the store hands out, as the host does), then
//! recovery.  Store level on every multi-segment log plus the single-segment logs `S`, `ST`;
//! host level on `A` and `A.t`.

use crate::store_layer::with_workdir;
use crate::util::{errkind, Stats};
use mc::{json, Report};
use walkit::host::{apply, fingerprint, open_host, Known, Op, Sub};
use walkit::hostrun::learn_ids;
use walkit::mseg::{build_multi, BuiltMulti, MDirImage, MSpec};
use walkit::store::{build_tx_on, Chain, TxKind};
use walkit::fresh_dir;
use warp_core::causal_wal::{
    recover_filesystem_store, FilesystemWalStore, Lsn, RecoveryAccessMode, WalSegmentId,
};

pub const SIG_STORE: &str = "store:fence-after-commitless-epoch-skips-lsn:acknowledged-log-unrecoverable";
pub const SIG_HOST: &str = "host:reopen-after-commitless-epoch-skips-lsn:acknowledged-log-unrecoverable";

fn ek(e: &impl std::fmt::Debug) -> String {
    errkind(&format!("{e:?}"))
}

/// One store-level case.
pub fn store_case(dir: &std::path::Path, log: &BuiltMulti, idle: usize, st: &mut Stats) {
    st.evals += 1;
    let case = json!({"layer": "store-refence", "word": log.word(), "idle_fences": idle});
    let img: MDirImage = log.full_image();
    img.materialise_over(dir);
    let seg = WalSegmentId::from_raw(img.last_seg_id().unwrap_or(1));
    let end = log.txs.last().map(|t| t.commit.last_lsn.as_u64() + 1).unwrap_or(0);
    let mut starts = Vec::new();
    for _ in 0..idle {
        let r = mc::catch(|| -> Result<u64, String> {
            let mut s = FilesystemWalStore::open(dir, seg).map_err(|e| format!("open:{}", ek(&e)))?;
            let e = s.acquire_fresh_writer_epoch(Lsn::from_raw(end)).map_err(|e| format!("acquire:{}", ek(&e)))?;
            Ok(e.started_at_lsn.as_u64())
        });
        match r {
            Ok(Ok(s)) => starts.push(s),
            other => {
                st.viol(format!("store-refence:idle-fence:{}", match &other { Ok(Err(e)) => e.clone(), _ => "panic".into() }), json!({"case": case, "observed": format!("{other:?}")}));
                return;
            }
        }
    }
    let appended = mc::catch(|| -> Result<(u64, warp_core::causal_wal::WalCommittedTransaction), String> {
        let mut s = FilesystemWalStore::open(dir, seg).map_err(|e| format!("open:{}", ek(&e)))?;
        let e = s.acquire_fresh_writer_epoch(Lsn::from_raw(end)).map_err(|e| format!("acquire:{}", ek(&e)))?;
        let mut chain = log.txs.iter().fold(Chain::genesis(), |c, t| c.after(t));
        // the writer appends where the store tells it to (TrustedRuntimeWal::from_config does the same)
        chain.next_lsn = e.started_at_lsn;
        let tx = build_tx_on(TxKind::Submit, e.epoch_id, &chain, &format!("refence:{}:{idle}", log.word()), seg)?;
        s.append_transaction(tx.clone()).map_err(|e| format!("append:{}", ek(&e)))?;
        Ok((e.started_at_lsn.as_u64(), tx))
    });
    let (start, tx) = match appended {
        Ok(Ok(x)) => x,
        other => {
            st.viol("store-refence:continue-failed".into(), json!({"case": case, "observed": format!("{:?}", other.map(|r| r.map(|x| x.0)))}));
            return;
        }
    };
    starts.push(start);
    st.outcome(&format!("refence.store:epoch-start-minus-log-end={}", start as i64 - end as i64));
    st.nontrivial.push(Report::key(format!("refence:store:{}:{idle}", log.word()).as_bytes()));
    match mc::catch(|| recover_filesystem_store(dir, RecoveryAccessMode::ReadOnly)) {
        Ok(Ok(rep)) => {
            let n = log.n();
            let ok = rep.transactions.len() == n + 1
                && rep.transactions.iter().zip(&log.txs).all(|(g, w)| g.commit == w.commit && g.frames == w.frames)
                && rep.transactions[n].commit == tx.commit;
            if ok {
                st.outcome("refence.store:recovered-history-plus-continuation");
            } else {
                st.viol("store-refence:history-after-continuation".into(), json!({"case": case, "recovered": rep.transactions.len(), "expected": n + 1}));
            }
        }
        Ok(Err(e)) => {
            let sig = if start != end && log.n() > 0 { SIG_STORE.to_string() } else { format!("store-refence:recovery-after-continuation:err:{}", ek(&e)) };
            st.viol(sig, json!({"case": case, "log_ends_at_lsn": end.checked_sub(1), "epoch_start_lsns_handed_out": starts,
                "acknowledged_transactions": log.n() + 1, "recovery_error": format!("{e:?}")}));
        }
        Err(p) => st.viol("store-refence:recovery-after-continuation:panic".into(), json!({"case": case, "panic": p})),
    }
}

/// One host-level case: `ops`, then `idle` hosts opened and dropped without any operation, then a
/// host that submits B, then recovery.
pub fn host_case(ops: &[Op], idle: usize, ids: &[(Sub, warp_core::Hash)], st: &mut Stats) {
    st.evals += 1;
    let word = walkit::host::ops_word(ops);
    let case = json!({"layer": "host-refence", "ops": word, "idle_reopens": idle});
    let dir = fresh_dir(&mc::scratch_root(), "refence-host");
    let fail = |st: &mut Stats, step: &str, e: String| {
        let sig = if e.contains("LsnContinuityMismatch") && step == "reopen-after-continuation" { SIG_HOST.to_string() } else { format!("host-refence:{step}:{}", errkind(&e)) };
        st.viol(sig, json!({"case": case, "step": step, "error": e}));
    };
    let mut known = Known::default();
    let fp0 = {
        let mut h = match open_host(&dir) {
            Ok(h) => h,
            Err(e) => return fail(st, "open", format!("{e:?}")),
        };
        for op in ops {
            if let Err(e) = apply(&mut h, &mut known, *op) {
                return fail(st, "workload", format!("{e:?}"));
            }
        }
        fingerprint(&mut h, ids)
    };
    for i in 0..idle {
        match open_host(&dir) {
            Ok(mut h) => {
                if fingerprint(&mut h, ids) != fp0 {
                    return fail(st, "idle-reopen-fingerprint", format!("Differs({i})"));
                }
            }
            Err(e) => return fail(st, "idle-reopen", e.1),
        }
    }
    let fp1 = match open_host(&dir) {
        Ok(mut h) => {
            if fingerprint(&mut h, ids) != fp0 {
                return fail(st, "reopen-fingerprint", "Differs".into());
            }
            match apply(&mut h, &mut known, Op::Submit(Sub::B)) {
                Ok(_) => fingerprint(&mut h, ids),
                Err(e) => return fail(st, "continue-submit", format!("{e:?}")),
            }
        }
        Err(e) => return fail(st, "reopen", e.1),
    };
    st.nontrivial.push(Report::key(format!("refence:host:{word}:{idle}").as_bytes()));
    match open_host(&dir) {
        Ok(mut h) => {
            if fingerprint(&mut h, ids) == fp1 {
                st.outcome("refence.host:recovered-acknowledged-state-after-continuation");
            } else {
                fail(st, "fingerprint-after-continuation", "Differs".into());
            }
        }
        Err(e) => fail(st, "reopen-after-continuation", e.1),
    }
    let _ = std::fs::remove_dir_all(&dir);
}

pub fn run(r: &Report, mlogs: &[BuiltMulti]) {
    let scratch = mc::scratch_root();
    let mut st = Stats::default();
    let mut singles = Vec::new();
    for w in ["S", "ST"] {
        let d = fresh_dir(&scratch, "refence-build");
        match MSpec::parse(w).ok_or("spec".to_string()).and_then(|s| build_multi(&d, &s, 0)) {
            Ok(l) => singles.push(l),
            Err(e) => r.machinery_error(&format!("refence build {w}: {e}")),
        }
    }
    let mut cases = 0u64;
    for log in singles.iter().chain(mlogs.iter()) {
        if log.n() == 0 {
            continue;
        }
        for idle in 1..=2 {
            with_workdir(|d| store_case(d, log, idle, &mut st));
            cases += 1;
        }
    }
    match learn_ids(&scratch) {
        Ok(ids) => {
            for ops in [vec![Op::Submit(Sub::A)], vec![Op::Submit(Sub::A), Op::Tick]] {
                for idle in 1..=2 {
                    host_case(&ops, idle, &ids, &mut st);
                    cases += 1;
                }
            }
        }
        Err(e) => r.machinery_error(&format!("refence host fixture: {e}")),
    }
    r.counter("refence.cases", cases);
    st.flush(r, "");
    r.guard("refence.cases_ran", cases >= 8);
}

/// Replay one case.
pub fn replay(case: &mc::Value, st: &mut Stats) -> Result<(), String> {
    let idle = case["idle_fences"].as_u64().or(case["idle_reopens"].as_u64()).ok_or("idle")? as usize;
    match case["layer"].as_str() {
        Some("store-refence") => {
            let spec = MSpec::parse(case["word"].as_str().ok_or("word")?).ok_or("bad word")?;
            let d = fresh_dir(&mc::scratch_root(), "replay-refence");
            let log = build_multi(&d, &spec, 0)?;
            with_workdir(|d| store_case(d, &log, idle, st));
        }
        _ => {
            let ids = learn_ids(&mc::scratch_root())?;
            let ops: Vec<Op> = case["ops"].as_str().ok_or("ops")?.split('.').filter_map(|t| match t {
                "A" => Some(Op::Submit(Sub::A)),
                "B" => Some(Op::Submit(Sub::B)),
                "t" => Some(Op::Tick),
                _ => None,
            }).collect();
            host_case(&ops, idle, &ids, st);
        }
    }
    Ok(())
}
