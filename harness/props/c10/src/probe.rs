//! Exploratory probe (not part of the check): prints what the host does for a few op sequences.
use walkit::host::*;
use walkit::{fresh_dir, SEGMENT_REL};

pub fn run() {
    let scratch = mc::scratch_root();
    for ops in [
        vec![Op::Submit(Sub::A), Op::Tick, Op::Retry(Sub::A)],
        vec![Op::Submit(Sub::A), Op::Submit(Sub::B), Op::Tick],
        vec![Op::Submit(Sub::A), Op::Tick, Op::Tick],
        vec![Op::Tick, Op::Submit(Sub::B), Op::Tick],
    ] {
        println!("=== {}", ops_word(&ops));
        let dir = fresh_dir(&scratch, "probe");
        let mut host = match open_host(&dir) {
            Ok(h) => h,
            Err(e) => {
                println!("open failed {e:?}");
                continue;
            }
        };
        let mut known = Known::default();
        for op in &ops {
            let cb = callbacks_here();
            let (res, ev) = walkit::syncspy::record(|| apply(&mut host, &mut known, *op));
            let seg = std::fs::read(dir.join(SEGMENT_REL)).map(|b| b.len()).unwrap_or(0);
            println!("op {} -> {:?}  seg_len={} syncs={:?} callbacks+{}", op.letter(), res.map_err(|e| format!("{e:?}")), seg,
                ev.iter().map(|e| (e.path.file_name().map(|n| n.to_string_lossy().to_string()), e.len)).collect::<Vec<_>>(), callbacks_here() - cb);
            let ids: Vec<_> = known.ids.iter().map(|(s, i)| (*s, *i)).collect();
            println!("{}", fingerprint(&mut host, &ids));
        }
        let ids: Vec<_> = known.ids.iter().map(|(s, i)| (*s, *i)).collect();
        drop(host);
        let seg = std::fs::read(dir.join(SEGMENT_REL)).unwrap_or_default();
        let (recs, stop) = walkit::frame::parse(&seg);
        println!("records {:?} stop {stop}", recs.iter().map(|r| (r.start, r.end, r.kind)).collect::<Vec<_>>());
        let cb = callbacks_here();
        match open_host(&dir) {
            Ok(mut h2) => {
                println!("recovered (callbacks+{}):\n{}", callbacks_here() - cb, fingerprint(&mut h2, &ids));
                let mut k2 = Known::default();
                for (s, _) in &ids {
                    let r = apply(&mut h2, &mut k2, Op::Retry(*s));
                    println!("retry {s:?} -> {:?}", r.map_err(|e| format!("{e:?}")));
                }
                let r = apply(&mut h2, &mut k2, Op::Tick);
                println!("tick after recovery -> {:?}", r.map_err(|e| format!("{e:?}")));
                println!("{}", fingerprint(&mut h2, &ids));
            }
            Err(e) => println!("recover failed {e:?}"),
        }
    }
}

/// Exploratory probe (not part of the check): two writer epochs in a row, the first of which
/// commits nothing, then an append — at host level and at store level.
pub fn epoch_gap() {
    use warp_core::causal_wal::{recover_filesystem_store, FilesystemWalStore, Lsn, RecoveryAccessMode, WalSegmentId};
    let scratch = mc::scratch_root();
    println!("=== host: submit A | reopen (nothing) | reopen, submit B | reopen");
    let dir = fresh_dir(&scratch, "probe-gap-host");
    let mut known = Known::default();
    {
        let mut h = open_host(&dir).expect("open 1");
        println!("submit A -> {:?}", apply(&mut h, &mut known, Op::Submit(Sub::A)).map_err(|e| format!("{e:?}")));
    }
    {
        let _h = open_host(&dir).expect("open 2");
        println!("second host opened and dropped without any operation");
    }
    {
        match open_host(&dir) {
            Ok(mut h) => println!("submit B on third host -> {:?}", apply(&mut h, &mut known, Op::Submit(Sub::B)).map_err(|e| format!("{e:?}"))),
            Err(e) => println!("third open failed {e:?}"),
        }
    }
    println!("store-level recovery now: {:?}", recover_filesystem_store(&dir, RecoveryAccessMode::ReadOnly).map(|r| r.transactions.len()).map_err(|e| format!("{e:?}")));
    match open_host(&dir) {
        Ok(_) => println!("fourth open: Ok"),
        Err(e) => println!("fourth open FAILED: {e:?}"),
    }
    println!("=== store: append S | reopen+fence (nothing) | reopen+fence, append S | recover");
    let dir = fresh_dir(&scratch, "probe-gap-store");
    let seg1 = WalSegmentId::from_raw(1);
    let mut chain = walkit::store::Chain::genesis();
    {
        let mut s = FilesystemWalStore::open(&dir, seg1).expect("open");
        let e = s.acquire_fresh_writer_epoch(Lsn::from_raw(0)).expect("epoch");
        let tx = walkit::store::build_tx(walkit::store::TxKind::Submit, e.epoch_id, &chain, "gap:0").expect("tx");
        s.append_transaction(tx.clone()).expect("append");
        chain = chain.after(&tx);
        println!("epoch 1 starts at {}, log ends at LSN {}", e.started_at_lsn.as_u64(), tx.commit.last_lsn.as_u64());
    }
    {
        let mut s = FilesystemWalStore::open(&dir, seg1).expect("open");
        let e = s.acquire_fresh_writer_epoch(chain.next_lsn).expect("epoch");
        println!("epoch 2 starts at {} (commits nothing)", e.started_at_lsn.as_u64());
    }
    {
        let mut s = FilesystemWalStore::open(&dir, seg1).expect("open");
        let e = s.acquire_fresh_writer_epoch(chain.next_lsn).expect("epoch");
        println!("epoch 3 starts at {} (log ends at {})", e.started_at_lsn.as_u64(), chain.next_lsn.as_u64() - 1);
        chain.next_lsn = e.started_at_lsn;
        let tx = walkit::store::build_tx(walkit::store::TxKind::Submit, e.epoch_id, &chain, "gap:1").expect("tx");
        println!("append at the epoch's start LSN -> {:?}", s.append_transaction(tx).map_err(|e| format!("{e:?}")));
    }
    println!("recovery: {:?}", recover_filesystem_store(&dir, RecoveryAccessMode::ReadOnly).map(|r| r.transactions.len()).map_err(|e| format!("{e:?}")));
}

/// Exploratory probe (not part of the check): a crash tears the second transaction of segment 1 at
/// every byte; a NEW WRITER then opens segment 2 and fences an epoch WITHOUT a truncating recovery
/// in between, appends one transaction where the store tells it to, and the directory is recovered.
/// Prints, per position class of the tear, what recovery returns.
pub fn new_writer_without_truncation() {
    use crate::store_layer::pos_class;
    use std::collections::BTreeMap;
    use walkit::mseg::{build_multi, MDirImage, MSpec};
    use walkit::store::{build_tx_on, Chain, TxKind};
    use warp_core::causal_wal::{recover_filesystem_store, FilesystemWalStore, Lsn, RecoveryAccessMode, WalSegmentId};
    let scratch = mc::scratch_root();
    let log = build_multi(&fresh_dir(&scratch, "probe-nw-build"), &MSpec::parse("SS").expect("spec"), 0).expect("build");
    let dir = fresh_dir(&scratch, "probe-nw").join("wal");
    let tx0_end = log.records[0].iter().filter(|r| r.is_commit()).map(|r| r.end).next().expect("commit");
    // ledger version current right after transaction 0 was acknowledged
    let ledger = log.events.iter().filter_map(|e| if let walkit::mseg::Ev::Ledger { v } = e { Some(*v) } else { None }).nth(1).expect("ledger");
    let mut hist: BTreeMap<String, u64> = BTreeMap::new();
    for l in tx0_end..log.segments[0].len() {
        let mut img = MDirImage::default();
        img.segs.insert(1, log.segments[0][..l].to_vec());
        img.ledger = Some(log.ledgers[ledger].clone());
        img.materialise_over(&dir);
        let cls = if l == tx0_end { "clean(no tear)" } else { pos_class(&log.records[0], l) };
        let res = mc::catch(|| -> Result<String, String> {
            let mut s = FilesystemWalStore::open(&dir, WalSegmentId::from_raw(2)).map_err(|e| format!("open:{e:?}"))?;
            let e = s.acquire_fresh_writer_epoch(Lsn::from_raw(0)).map_err(|e| format!("acquire:{e:?}"))?;
            let mut chain = Chain::genesis().after(&log.txs[0]);
            let handed = e.started_at_lsn.as_u64();
            let expected = chain.next_lsn.as_u64();
            chain.next_lsn = e.started_at_lsn;
            let tx = build_tx_on(TxKind::Submit, e.epoch_id, &chain, "probe:nw", WalSegmentId::from_raw(2))?;
            s.append_transaction(tx.clone()).map_err(|e| format!("append:{e:?}"))?;
            drop(s);
            let rep = recover_filesystem_store(&dir, RecoveryAccessMode::ReadOnly).map_err(|e| format!("recover:{e:?}"))?;
            let ok = rep.transactions.len() == 2 && rep.transactions[0].commit == log.txs[0].commit && rep.transactions[1].commit == tx.commit;
            Ok(format!("recovered {} tx ({}), tail {:?}, epoch start {}", rep.transactions.len(), if ok { "tx0 + new" } else { "OTHER" },
                std::mem::discriminant(&rep.tail_posture) == std::mem::discriminant(&warp_core::causal_wal::RecoveryTailPosture::Clean), handed as i64 - expected as i64))
        });
        let out = match res {
            Ok(Ok(s)) => s,
            Ok(Err(e)) => format!("ERR {}", e.split('(').take(3).collect::<Vec<_>>().join("(")),
            Err(p) => format!("PANIC {p}"),
        };
        *hist.entry(format!("{cls:<22} -> {out}")).or_insert(0) += 1;
    }
    for (k, v) in hist {
        println!("{v:5}  {k}");
    }
}
