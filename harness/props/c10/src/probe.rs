//! Exploratory probe (not part of the check): prints what the host does for a few op sequences.
use walkit::host::*;
use walkit::{fresh_dir, SEGMENT_REL};

pub fn run() {
    let scratch = mc::scratch_root();
    for ops in [
        vec![Op::Submit(Sub::A), Op::Tick, Op::Retry(Sub::A)],
        vec![Op::Submit(Sub::A), Op::Submit(Sub::B), Op::Tick],
        vec![Op::Submit(Sub::A), Op::Tick, Op::Tick],
        vec![Op::Tick, Op::Submit(Sub::B), Op::Tick],
    ] {
        println!("=== {}", ops_word(&ops));
        let dir = fresh_dir(&scratch, "probe");
        let mut host = match open_host(&dir) {
            Ok(h) => h,
            Err(e) => {
                println!("open failed {e:?}");
                continue;
            }
        };
        let mut known = Known::default();
        for op in &ops {
            let cb = callbacks_here();
            let (res, ev) = walkit::syncspy::record(|| apply(&mut host, &mut known, *op));
            let seg = std::fs::read(dir.join(SEGMENT_REL)).map(|b| b.len()).unwrap_or(0);
            println!("op {} -> {:?}  seg_len={} syncs={:?} callbacks+{}", op.letter(), res.map_err(|e| format!("{e:?}")), seg,
                ev.iter().map(|e| (e.path.file_name().map(|n| n.to_string_lossy().to_string()), e.len)).collect::<Vec<_>>(), callbacks_here() - cb);
            let ids: Vec<_> = known.ids.iter().map(|(s, i)| (*s, *i)).collect();
            println!("{}", fingerprint(&mut host, &ids));
        }
        let ids: Vec<_> = known.ids.iter().map(|(s, i)| (*s, *i)).collect();
        drop(host);
        let seg = std::fs::read(dir.join(SEGMENT_REL)).unwrap_or_default();
        let (recs, stop) = walkit::frame::parse(&seg);
        println!("records {:?} stop {stop}", recs.iter().map(|r| (r.start, r.end, r.kind)).collect::<Vec<_>>());
        let cb = callbacks_here();
        match open_host(&dir) {
            Ok(mut h2) => {
                println!("recovered (callbacks+{}):\n{}", callbacks_here() - cb, fingerprint(&mut h2, &ids));
                let mut k2 = Known::default();
                for (s, _) in &ids {
                    let r = apply(&mut h2, &mut k2, Op::Retry(*s));
                    println!("retry {s:?} -> {:?}", r.map_err(|e| format!("{e:?}")));
                }
                let r = apply(&mut h2, &mut k2, Op::Tick);
                println!("tick after recovery -> {:?}", r.map_err(|e| format!("{e:?}")));
                println!("{}", fingerprint(&mut h2, &ids));
            }
            Err(e) => println!("recover failed {e:?}"),
        }
    }
}
