//! C10 host layer: `TrustedRuntimeHost` with the filesystem runtime WAL; every valid op sequence over
//! {submit A, submit B, retry A, tick}; crash at byte prefixes of the segment; recover with a fresh
//! host; compare the application-visible fingerprint with the one recorded when the covering
//! transaction was acknowledged; continue the workload and compare the final fingerprint.

use crate::store_layer::{pos_class, with_workdir};
use crate::util::{errkind, Stats};
use mc::{json, Report, Value};
use rayon::prelude::*;
use std::collections::{BTreeMap, BTreeSet};
use std::path::Path;
use walkit::frame::{self, Rec};
use walkit::host::{
    apply, callbacks_here, fingerprint, open_host, ops_word, wal_counts, Known, Op, OpResult, Sub,
};
pub use walkit::hostrun::{learn_ids, run_uninterrupted, Run};
use walkit::{fresh_dir, DirImage, LEDGER_FILE, SEGMENT_REL};
use warp_core::causal_wal::{recover_filesystem_store, RecoveryAccessMode};
use warp_core::{Hash, IntentOutcome, TrustedRuntimeHost};

/// Valid op sequences: submit X only once, retry A only after A was submitted, tick only when an
/// acknowledged submission is still undecided (an idle scheduler pass appends nothing).
pub fn valid_words(depth: usize) -> Vec<Vec<Op>> {
    fn rec(cur: &mut Vec<Op>, submitted: BTreeSet<Sub>, pending: BTreeSet<Sub>, depth: usize, out: &mut Vec<Vec<Op>>) {
        if !cur.is_empty() {
            out.push(cur.clone());
        }
        if cur.len() == depth {
            return;
        }
        for op in [Op::Submit(Sub::A), Op::Submit(Sub::B), Op::Retry(Sub::A), Op::Tick] {
            let (mut s2, mut p2) = (submitted.clone(), pending.clone());
            let ok = match op {
                Op::Submit(s) => {
                    let fresh = !submitted.contains(&s);
                    s2.insert(s);
                    p2.insert(s);
                    fresh
                }
                Op::Retry(s) => submitted.contains(&s),
                Op::Tick => {
                    let any = !pending.is_empty();
                    p2.clear();
                    any
                }
            };
            if ok {
                cur.push(op);
                rec(cur, s2, p2, depth, out);
                cur.pop();
            }
        }
    }
    let mut out = Vec::new();
    rec(&mut Vec::new(), BTreeSet::new(), BTreeSet::new(), depth, &mut out);
    out
}

fn read_or_empty(p: &Path) -> Vec<u8> {
    std::fs::read(p).unwrap_or_default()
}

#[derive(Clone, Copy, Debug)]
pub struct HPoint {
    pub run: usize,
    /// Index of the op in flight (the op whose bytes contain `l`, or that just completed at `l`).
    pub op: usize,
    pub l: usize,
    /// Ledger version = number of ops after which the ledger was snapshotted.
    pub ledger: usize,
}

fn himage(run: &Run, p: &HPoint) -> DirImage {
    DirImage {
        segment: Some(run.seg[..p.l].to_vec()),
        ledger: Some(run.ledgers[p.ledger].clone()),
        ..DirImage::default()
    }
}

fn hcase(run: &Run, p: &HPoint) -> Value {
    json!({"layer": "host", "ops": run.word(), "op_index": p.op, "prefix_len": p.l, "segment_len": run.seg.len(), "ledger_version": p.ledger})
}

fn reset_dir(dir: &Path, img: &DirImage) {
    img.materialise_over(dir);
}

fn commit_digests(dir: &Path) -> Result<Vec<Hash>, String> {
    recover_filesystem_store(dir, RecoveryAccessMode::ReadOnly)
        .map(|r| r.transactions.iter().map(|t| t.commit.commit_digest).collect())
        .map_err(|e| format!("{e:?}"))
}

/// Recover a crashed directory with a fresh host; the application callbacks must stay silent.
fn recover_host(dir: &Path) -> Result<(TrustedRuntimeHost, u64), (String, String)> {
    let cb = callbacks_here();
    let host = mc::catch(|| open_host(dir)).map_err(|p| ("panic".to_string(), p))??;
    Ok((host, callbacks_here() - cb))
}

/// Phase 1 of one host crash point.  Returns the hash of the directory after the first recovery.
pub fn check_hpoint(dir: &Path, run: &Run, p: &HPoint, ids: &[(Sub, Hash)], st: &mut Stats) -> Option<[u8; 32]> {
    let k = run.k_at(p.l);
    let cls = pos_class(&run.records, p.l);
    let case = hcase(run, p);
    st.evals += 1;
    st.outcome(&format!("k={k}"));
    st.outcome(&format!("pos:{cls}"));
    let want_fp = &run.fps[run.fp_index_for_k(k)];
    let fail = |st: &mut Stats, step: &str, what: String, extra: Value| {
        st.viol(format!("host:{step}:{cls}:{what}"), json!({"case": case, "expected_k": k, "observed": extra}));
    };
    reset_dir(dir, &himage(run, p));
    let (mut host, cbs) = match recover_host(dir) {
        Ok(x) => x,
        Err((stage, e)) => {
            fail(st, "recover", format!("{stage}:{}", errkind(&e)), json!(e));
            return None;
        }
    };
    if cbs != 0 {
        fail(st, "recover", "application-callback-ran".into(), json!(cbs));
    }
    let fp = fingerprint(&mut host, ids);
    if &fp != want_fp {
        fail(st, "recover", "fingerprint-differs-from-acknowledged-state".into(), json!({"got": fp, "want": want_fp}));
    }
    let commits1 = commit_digests(dir);
    drop(host);
    let img1 = DirImage::read(dir);
    // second recovery of the same directory
    match recover_host(dir) {
        Err((stage, e)) => fail(st, "recover2", format!("{stage}:{}", errkind(&e)), json!(e)),
        Ok((mut h2, cbs2)) => {
            if cbs2 != 0 {
                fail(st, "recover2", "application-callback-ran".into(), json!(cbs2));
            }
            let fp2 = fingerprint(&mut h2, ids);
            if fp2 != fp {
                fail(st, "recover2", "fingerprint-not-idempotent".into(), json!({"first": fp, "second": fp2}));
            }
            let commits2 = commit_digests(dir);
            if commits1 != commits2 {
                fail(st, "recover2", "committed-list-changed".into(), json!(null));
            }
            drop(h2);
            if DirImage::read(dir).segment != img1.segment {
                fail(st, "recover2", "segment-changed".into(), json!(null));
            }
        }
    }
    if p.l != run.ends[p.op + 1] && p.l != run.ends[p.op] {
        st.nontrivial.push(Report::key(format!("host:{}:{}", run.word(), p.l).as_bytes()));
    }
    Some(mc::h(format!("{:?}{:?}", img1.segment, img1.ledger).as_bytes()))
}

fn any_pending(host: &mut TrustedRuntimeHost, known: &Known) -> bool {
    known.ids.values().any(|id| matches!(host.app().observe_intent_outcome(id), IntentOutcome::Pending { .. }))
}

/// Apply `ops` on a (recovered or live) host the way a client would: a tick is only run when some
/// acknowledged submission is undecided.
pub fn apply_all(host: &mut TrustedRuntimeHost, known: &mut Known, ops: &[Op]) -> Result<(), String> {
    for op in ops {
        if *op == Op::Tick && !any_pending(host, known) {
            continue;
        }
        apply(host, known, *op).map_err(|e| format!("op {}: {}", op.letter(), errkind(&format!("{e:?}"))))?;
    }
    Ok(())
}

/// Phase 2: recover the crash image and finish workload `target` (an extension of the run the point
/// belongs to).  `acked` tells whether the client saw the op in flight acknowledged.
pub fn continue_hpoint(dir: &Path, run: &Run, p: &HPoint, target: &Run, acked: bool, ids: &[(Sub, Hash)], st: &mut Stats) {
    let case = json!({"layer": "host-continue", "crash": hcase(run, p), "finish": target.word(), "op_in_flight_acked": acked});
    let cls = pos_class(&run.records, p.l);
    st.evals += 1;
    let fail = |st: &mut Stats, step: &str, what: String, extra: Value| {
        st.viol(format!("host:{step}:{cls}:{what}"), json!({"case": case, "observed": extra}));
    };
    reset_dir(dir, &himage(run, p));
    let Ok((mut host, _)) = recover_host(dir) else {
        return; // reported in phase 1
    };
    let idmap: BTreeMap<Sub, Hash> = ids.iter().copied().collect();
    let done = if acked { p.op + 1 } else { p.op };
    let mut known = Known::default();
    for op in &target.ops[..done] {
        if let Op::Submit(s) | Op::Retry(s) = op {
            known.ids.insert(*s, idmap[s]);
        }
    }
    // retries of everything the client had acknowledged: must de-duplicate and append nothing
    let seg_before = read_or_empty(&dir.join(SEGMENT_REL)).len();
    for s in known.ids.keys().copied().collect::<Vec<_>>() {
        match apply(&mut host, &mut known, Op::Retry(s)) {
            Ok(OpResult::Acked { duplicate: true, submission_id }) if submission_id == idmap[&s] => {}
            other => fail(st, "continue", "retry-of-acknowledged-submission-not-deduplicated".into(),
                json!(format!("{:?}", other.map_err(|e| format!("{e:?}"))))),
        }
    }
    if read_or_empty(&dir.join(SEGMENT_REL)).len() != seg_before {
        fail(st, "continue", "retry-of-acknowledged-submission-appended".into(), json!(null));
    }
    if let Err(e) = mc::catch(|| apply_all(&mut host, &mut known, &target.ops[done..])).unwrap_or_else(|p| Err(format!("panic:{p}"))) {
        fail(st, "continue", format!("op-failed:{e}"), json!(e));
        return;
    }
    let want = target.fps.last().cloned().unwrap_or_default();
    let fp = fingerprint(&mut host, ids);
    if fp != want {
        fail(st, "continue", "final-fingerprint-differs-from-uninterrupted-run".into(), json!({"got": fp, "want": want}));
    } else {
        st.outcome("continued:same-final-fingerprint");
    }
    let subs: BTreeSet<Sub> = target.ops.iter().filter_map(|o| if let Op::Submit(s) | Op::Retry(s) = o { Some(*s) } else { None }).collect();
    let ticks = target.ops.iter().filter(|o| **o == Op::Tick).count();
    let (acc, tk) = wal_counts(&host);
    if acc != subs.len() || tk != ticks {
        fail(st, "continue", "acceptance-or-tick-record-count".into(), json!({"acceptances": acc, "ticks": tk, "want": [subs.len(), ticks]}));
    }
    drop(host);
    match recover_host(dir) {
        Err((stage, e)) => fail(st, "continue-recover", format!("{stage}:{}", errkind(&e)), json!(e)),
        Ok((mut h, _)) => {
            let fp = fingerprint(&mut h, ids);
            if fp != want {
                fail(st, "continue-recover", "fingerprint-differs".into(), json!({"got": fp, "want": want}));
            }
        }
    }
}

/// Crash offsets enumerated for one op's byte range `(lo, hi]`.
pub fn offsets(run: &Run, lo: usize, hi: usize, every_byte: bool) -> Vec<usize> {
    if every_byte {
        return (lo + 1..=hi).collect();
    }
    let mut set = BTreeSet::new();
    for r in run.records.iter().filter(|r| r.end > lo && r.start < hi) {
        for b in [r.start, r.start + frame::HEADER_LEN, r.payload_end(), r.end] {
            for d in 0..=2usize {
                for x in [b + d, b.saturating_sub(d)] {
                    if x > lo && x <= hi {
                        set.insert(x);
                    }
                }
            }
        }
    }
    let mut x = lo + 1;
    while x <= hi {
        if (x - lo) % 7 == 0 {
            set.insert(x);
        }
        x += 1;
    }
    set.into_iter().collect()
}

/// Observation recorded in the evidence (not an oracle): a scheduler pass with no admitted work
/// advances the in-memory global tick but appends nothing, so it is not recovered.
fn idle_tick_observation(scratch: &Path, ids: &[(Sub, Hash)]) -> Result<Value, String> {
    let dir = fresh_dir(scratch, "idle");
    let mut host = open_host(&dir).map_err(|e| format!("{e:?}"))?;
    let mut known = Known::default();
    apply(&mut host, &mut known, Op::Submit(Sub::A)).map_err(|e| format!("{e:?}"))?;
    apply(&mut host, &mut known, Op::Tick).map_err(|e| format!("{e:?}"))?;
    let before = host.runtime().global_tick().as_u64();
    let steps = host.tick_once().map_err(|e| format!("{e:?}"))?.len();
    let live = host.runtime().global_tick().as_u64();
    drop(host);
    let mut h2 = open_host(&dir).map_err(|e| format!("{e:?}"))?;
    let recovered = h2.runtime().global_tick().as_u64();
    let _ = fingerprint(&mut h2, ids);
    let _ = std::fs::remove_dir_all(&dir);
    Ok(json!({"workload": "A.t.<idle tick_once>", "idle_pass_steps": steps, "global_tick_before_idle_pass": before,
        "global_tick_live_after_idle_pass": live, "global_tick_after_recovery": recovered,
        "note": "idle passes are excluded from the op alphabet: they publish no outcome and append no transaction"}))
}

pub struct HostData {
    pub runs: Vec<Run>,
    pub ids: Vec<(Sub, Hash)>,
}

pub fn run(r: &Report) -> Option<HostData> {
    let scratch = mc::scratch_root();
    let depth = r.pick(3, 4);
    let every_byte = r.thorough();
    let ids = match learn_ids(&scratch) {
        Ok(i) => i,
        Err(e) => {
            r.machinery_error(&format!("host fixture: {e}"));
            return None;
        }
    };
    let words = valid_words(depth);
    let runs: Vec<Run> = match words.par_iter().map(|w| run_uninterrupted(&scratch, w, &ids)).collect::<Result<Vec<_>, _>>() {
        Ok(r) => r,
        Err(e) if e.contains("ACK-VIOLATION") => {
            r.violation(
                "host:ack-not-durable:acknowledged-op-has-no-commit-marker-on-disk",
                json!({"case": {"layer": "host-ack"}, "observed": e}),
            );
            return None;
        }
        Err(e) => {
            r.machinery_error(&format!("host workload failed on the unchanged path: {e}"));
            return None;
        }
    };
    r.counter("host.workloads", runs.len() as u64);
    match idle_tick_observation(&scratch, &ids) {
        Ok(v) => r.note("observation_idle_scheduler_pass", v),
        Err(e) => r.note("observation_idle_scheduler_pass", json!({"error": e})),
    }
    r.counter("host.segment_bytes_max", runs.iter().map(|x| x.seg.len() as u64).max().unwrap_or(0));
    let index: BTreeMap<String, usize> = runs.iter().enumerate().map(|(i, x)| (x.word(), i)).collect();

    // live-host invariants of the uninterrupted runs
    let mut prefix_closed = true;
    for run in &runs {
        for (i, op) in run.ops.iter().enumerate() {
            r.eval(1);
            let appended = run.ends[i + 1] > run.ends[i];
            match (op, &run.results[i]) {
                (Op::Submit(_), OpResult::Acked { duplicate: false, .. }) if appended => {}
                (Op::Retry(_), OpResult::Acked { duplicate: true, .. }) if !appended && run.fps[i + 1] == run.fps[i] => {
                    r.outcome("host.live:retry-deduplicated");
                }
                (Op::Tick, OpResult::Ticked { steps }) if appended && *steps > 0 => {}
                other => r.violation(
                    "host:live:unexpected-op-result",
                    json!({"case": {"layer": "host-live", "ops": run.word(), "op_index": i}, "observed": format!("{other:?}"), "appended": appended}),
                ),
            }
            if appended {
                match run.synced[i] {
                    Some(s) if s as usize >= run.ends[i + 1] => r.outcome("host.ack:transaction-synced-before-return"),
                    other => r.violation(
                        "host:ack-not-durable:segment-not-covered-by-fsync-when-op-returned",
                        json!({"case": {"layer": "host-ack", "ops": run.word(), "op_index": i}, "synced_len": other, "needed": run.ends[i + 1]}),
                    ),
                }
            }
        }
        if run.ops.len() > 1 {
            let parent = &runs[index[&ops_word(&run.ops[..run.ops.len() - 1])]];
            if run.seg[..parent.seg.len()] != parent.seg[..] || run.fps[..run.ops.len()] != parent.fps[..] || run.ledgers[..run.ops.len()] != parent.ledgers[..] {
                prefix_closed = false;
            }
        }
    }
    r.guard("host.runs_are_prefix_closed", prefix_closed);

    // crash points: owned by the run whose LAST op wrote the bytes
    let mut points: Vec<HPoint> = Vec::new();
    let mut all_bytes = 0u64;
    for (ri, run) in runs.iter().enumerate() {
        let n = run.ops.len();
        let first = if prefix_closed { n - 1 } else { 0 };
        for j in first..n {
            let (lo, hi) = (run.ends[j], run.ends[j + 1]);
            if prefix_closed && n == 1 && ri == 0 {
                points.push(HPoint { run: ri, op: 0, l: 0, ledger: 0 });
            }
            if hi == lo {
                continue;
            }
            all_bytes += (hi - lo) as u64;
            for l in offsets(run, lo, hi, every_byte) {
                // ledger j (before the op) coexists with every prefix; ledger j+1 only with the full commit
                points.push(HPoint { run: ri, op: j, l, ledger: j });
                if l == hi {
                    points.push(HPoint { run: ri, op: j, l, ledger: j + 1 });
                }
            }
        }
    }
    r.counter("host.crash_offsets_in_space", all_bytes);
    r.counter("host.crash_points_evaluated", points.len() as u64);
    if !every_byte {
        r.not_exhaustive();
        r.note("host_layer_exhaustive", json!(false));
        r.note("host_layer_stride", json!("every record boundary / header end / payload end ±{0,1,2} bytes plus every 7th byte of each transaction"));
    } else {
        r.note("host_layer_exhaustive", json!(true));
    }

    let capped = std::sync::atomic::AtomicBool::new(false);
    let (mut stats, images) = points
        .par_iter()
        .enumerate()
        .fold(
            || (Stats::default(), Vec::<([u8; 32], usize)>::new()),
            |(mut st, mut imgs), (i, p)| {
                if r.over_budget_frac(0.8) {
                    capped.store(true, std::sync::atomic::Ordering::Relaxed);
                    st.count("crash_points_skipped_by_cap", 1);
                    return (st, imgs);
                }
                if let Some(h) = with_workdir(|d| check_hpoint(d, &runs[p.run], p, &ids, &mut st)) {
                    imgs.push((h, i));
                }
                (st, imgs)
            },
        )
        .reduce(
            || (Stats::default(), Vec::new()),
            |(a, mut ia), (b, ib)| {
                ia.extend(ib);
                (a.merge(b), ia)
            },
        );
    if capped.load(std::sync::atomic::Ordering::Relaxed) {
        r.cap_hit("host layer: wall cap reached before all crash points were evaluated");
    }
    // phase 2: continuation once per distinct recovered image × every workload extending the crashed one
    let mut reps: BTreeMap<([u8; 32], usize, bool), usize> = BTreeMap::new();
    for (h, i) in images {
        let p = &points[i];
        let at_end = p.l == runs[p.run].ends[p.op + 1];
        let e = reps.entry((h, p.run, at_end)).or_insert(i);
        if i < *e {
            *e = i;
        }
    }
    let mut jobs: Vec<(usize, usize, bool)> = Vec::new();
    for ((_, _, at_end), i) in &reps {
        let p = &points[*i];
        let w = runs[p.run].word();
        for (ti, t) in runs.iter().enumerate() {
            if t.word() == w || t.word().starts_with(&format!("{w}.")) {
                if *at_end {
                    jobs.push((*i, ti, true));
                }
                jobs.push((*i, ti, false));
            }
        }
    }
    stats.count("recovered_images_distinct", reps.len() as u64);
    stats.count("continuations", jobs.len() as u64);
    let st2 = jobs
        .par_iter()
        .fold(Stats::default, |mut st, (i, ti, acked)| {
            let p = &points[*i];
            with_workdir(|d| continue_hpoint(d, &runs[p.run], p, &runs[*ti], *acked, &ids, &mut st));
            st
        })
        .reduce(Stats::default, Stats::merge);
    let stats = stats.merge(st2);
    let oc = stats.outcomes.clone();
    stats.flush(r, "host.");
    let seen = |k: &str| oc.get(k).copied().unwrap_or(0) > 0;
    for k in 0..=3 {
        r.guard(&format!("host.saw_recovery_k={k}"), seen(&format!("k={k}")));
    }
    r.guard("host.crash_points_inside_frame", seen("pos:in-frame:payload") && seen("pos:in-frame:header"));
    r.guard("host.crash_points_inside_commit_marker", seen("pos:in-commit:payload") && seen("pos:in-commit:header"));
    r.guard("host.crash_points_at_boundaries", seen("pos:boundary:commit-end") && seen("pos:boundary:frame-end"));
    r.guard("host.continuations_reached_final_fingerprint", seen("continued:same-final-fingerprint"));
    r.guard("host.live_retry_deduplicated", r.outcome_count("host.live:retry-deduplicated") > 0);
    if let Some(x) = runs.iter().find(|x| x.word() == "A.t.ra").or(runs.first()) {
        r.sample(json!({"layer": "host", "workload": x.word(), "segment_len": x.seg.len(), "op_ends": x.ends,
            "records": x.records.iter().map(|q| json!([q.start, q.end, q.kind])).collect::<Vec<_>>(),
            "fingerprint_after_last_op": x.fps.last()}));
    }
    Some(HostData { runs, ids })
}

/// Replay one host crash point.
pub fn replay(case: &Value, st: &mut Stats) -> Result<(), String> {
    let scratch = mc::scratch_root();
    let ids = learn_ids(&scratch)?;
    let c = if case["layer"] == "host-continue" { &case["crash"] } else { case };
    let parse = |w: &str| -> Result<Vec<Op>, String> {
        w.split('.')
            .map(|t| match t {
                "A" => Ok(Op::Submit(Sub::A)),
                "B" => Ok(Op::Submit(Sub::B)),
                "ra" => Ok(Op::Retry(Sub::A)),
                "rb" => Ok(Op::Retry(Sub::B)),
                "t" => Ok(Op::Tick),
                x => Err(format!("bad op {x}")),
            })
            .collect()
    };
    let run = run_uninterrupted(&scratch, &parse(c["ops"].as_str().ok_or("ops")?)?, &ids)?;
    let p = HPoint {
        run: 0,
        op: c["op_index"].as_u64().ok_or("op_index")? as usize,
        l: c["prefix_len"].as_u64().ok_or("prefix_len")? as usize,
        ledger: c["ledger_version"].as_u64().ok_or("ledger_version")? as usize,
    };
    with_workdir(|d| {
        check_hpoint(d, &run, &p, &ids, st);
        if case["layer"] == "host-continue" {
            if let Ok(t) = parse(case["finish"].as_str().unwrap_or("")).and_then(|w| run_uninterrupted(&scratch, &w, &ids)) {
                continue_hpoint(d, &run, &p, &t, case["op_in_flight_acked"].as_bool().unwrap_or(false), &ids, st);
            }
        }
    });
    Ok(())
}
