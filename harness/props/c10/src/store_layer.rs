//! C10 store layer: every byte-prefix crash point of every ≤N-transaction workload on the real
//! `FilesystemWalStore`, combined with the ledger / manifest versions that can coexist with it.

use crate::util::{errkind, Stats};
use mc::{json, Report, Value};
use rayon::prelude::*;
use std::path::Path;
use walkit::frame::{self, Rec};
use walkit::store::{build_log, build_tx, word, BuiltLog, Chain, TxKind, KINDS};
use walkit::{fresh_dir, DirImage};
use warp_core::causal_wal::{
    doctor_filesystem_store, recover_filesystem_store, recover_wal_segment_bytes,
    validate_filesystem_manifest, FilesystemWalStore, Lsn, RecoveryAccessMode, RecoveryScanReport,
    RecoveryTailPosture, WalCommittedTransaction, WalDoctorPosture, WalSegmentId, WalStoreError,
    WalStorePort,
};

#[derive(Clone, Copy, Debug, PartialEq, Eq)]
pub enum Tmp {
    None,
    Full(usize),
    Torn(usize),
}

impl Tmp {
    fn bytes(self, versions: &[Vec<u8>]) -> Option<Vec<u8>> {
        match self {
            Tmp::None => None,
            Tmp::Full(v) => Some(versions[v].clone()),
            Tmp::Torn(v) => Some(versions[v][..versions[v].len() / 2].to_vec()),
        }
    }
    fn js(self) -> Value {
        match self {
            Tmp::None => json!(null),
            Tmp::Full(v) => json!({"full": v}),
            Tmp::Torn(v) => json!({"torn": v}),
        }
    }
    fn from_js(v: &Value) -> Tmp {
        if let Some(x) = v.get("full").and_then(|x| x.as_u64()) {
            Tmp::Full(x as usize)
        } else if let Some(x) = v.get("torn").and_then(|x| x.as_u64()) {
            Tmp::Torn(x as usize)
        } else {
            Tmp::None
        }
    }
}

/// Side files coexisting with a segment prefix.
#[derive(Clone, Copy, Debug, PartialEq, Eq)]
pub struct Side {
    pub ledger: Option<usize>,
    pub ledger_tmp: Tmp,
    pub manifest: Option<usize>,
    pub manifest_tmp: Tmp,
}

#[derive(Clone, Copy, Debug)]
pub struct Point {
    pub log: usize,
    pub l: usize,
    pub side: Side,
}

/// Side-file combinations that can coexist with segment length `l` of `log`.
///
/// Write order of the real store per transaction c: frames (unsynced) → commit marker (fsync) →
/// ledger c via temp+rename → [harness] manifest c via temp+rename.  Hence strictly inside
/// transaction c only (ledger c-1, manifest c-1) exists; exactly at the end of commit marker c every
/// intermediate stage of the two temp+rename publications is possible.
pub fn sides_for(log: &BuiltLog, l: usize) -> Vec<Side> {
    let k = frame::commits_within(&log.records, l);
    let man = |v: usize| if log.manifests[v].is_some() { Some(v) } else { None };
    let mut out = Vec::new();
    if l == log.ends[k] && k > 0 {
        let c = k;
        out.push(Side { ledger: Some(c - 1), ledger_tmp: Tmp::None, manifest: man(c - 1), manifest_tmp: Tmp::None });
        out.push(Side { ledger: Some(c - 1), ledger_tmp: Tmp::Full(c), manifest: man(c - 1), manifest_tmp: Tmp::None });
        out.push(Side { ledger: Some(c - 1), ledger_tmp: Tmp::Torn(c), manifest: man(c - 1), manifest_tmp: Tmp::None });
        out.push(Side { ledger: Some(c), ledger_tmp: Tmp::None, manifest: man(c - 1), manifest_tmp: Tmp::None });
        if log.manifests[c].is_some() {
            out.push(Side { ledger: Some(c), ledger_tmp: Tmp::None, manifest: man(c - 1), manifest_tmp: Tmp::Full(c) });
            out.push(Side { ledger: Some(c), ledger_tmp: Tmp::None, manifest: man(c - 1), manifest_tmp: Tmp::Torn(c) });
            out.push(Side { ledger: Some(c), ledger_tmp: Tmp::None, manifest: man(c), manifest_tmp: Tmp::None });
        }
    } else if l == 0 {
        // before / during / after the initial epoch acquisition
        out.push(Side { ledger: None, ledger_tmp: Tmp::None, manifest: None, manifest_tmp: Tmp::None });
        out.push(Side { ledger: None, ledger_tmp: Tmp::Full(0), manifest: None, manifest_tmp: Tmp::None });
        out.push(Side { ledger: None, ledger_tmp: Tmp::Torn(0), manifest: None, manifest_tmp: Tmp::None });
        out.push(Side { ledger: Some(0), ledger_tmp: Tmp::None, manifest: None, manifest_tmp: Tmp::None });
    } else {
        out.push(Side { ledger: Some(k), ledger_tmp: Tmp::None, manifest: man(k), manifest_tmp: Tmp::None });
    }
    out
}

fn image(log: &BuiltLog, p: &Point) -> DirImage {
    let manifests: Vec<Vec<u8>> = log.manifests.iter().map(|m| m.clone().unwrap_or_default()).collect();
    DirImage {
        segment: Some(log.segment[..p.l].to_vec()),
        ledger: p.side.ledger.map(|v| log.ledgers[v].clone()),
        ledger_tmp: p.side.ledger_tmp.bytes(&log.ledgers),
        manifest: p.side.manifest.map(|v| manifests[v].clone()),
        manifest_tmp: p.side.manifest_tmp.bytes(&manifests),
    }
}

pub fn pos_class(recs: &[Rec], l: usize) -> &'static str {
    if l == 0 {
        return "boundary:empty";
    }
    for r in recs {
        if l == r.end {
            return if r.is_commit() { "boundary:commit-end" } else { "boundary:frame-end" };
        }
        if l > r.start && l < r.end {
            let rel = l - r.start;
            let part = if rel < frame::HEADER_LEN {
                "header"
            } else if l <= r.payload_end() {
                "payload"
            } else {
                "digest"
            };
            return match (r.is_commit(), part) {
                (true, "header") => "in-commit:header",
                (true, "payload") => "in-commit:payload",
                (true, _) => "in-commit:digest",
                (false, "header") => "in-frame:header",
                (false, "payload") => "in-frame:payload",
                (false, _) => "in-frame:digest",
            };
        }
    }
    "beyond"
}

fn same_history(report: &RecoveryScanReport, want: &[WalCommittedTransaction]) -> Result<(), String> {
    if report.transactions.len() != want.len() {
        return Err(format!("count {} != {}", report.transactions.len(), want.len()));
    }
    for (i, (got, w)) in report.transactions.iter().zip(want).enumerate() {
        if got.commit != w.commit {
            return Err(format!("commit {i} differs"));
        }
        if got.frames != w.frames {
            return Err(format!("frames of transaction {i} differ"));
        }
    }
    Ok(())
}

fn case_json(log: &BuiltLog, p: &Point) -> Value {
    json!({"layer": "store", "word": log.word(), "prefix_len": p.l, "segment_len": log.segment.len(),
        "ledger": p.side.ledger, "ledger_tmp": p.side.ledger_tmp.js(),
        "manifest": p.side.manifest, "manifest_tmp": p.side.manifest_tmp.js()})
}

/// Context shared by the steps of one crash point.
struct Ctx<'a> {
    log: &'a BuiltLog,
    p: &'a Point,
    k: usize,
    cls: &'static str,
    clean: bool,
    case: Value,
}

impl<'a> Ctx<'a> {
    fn new(log: &'a BuiltLog, p: &'a Point) -> Self {
        let k = frame::commits_within(&log.records, p.l);
        Ctx { log, p, k, cls: pos_class(&log.records, p.l), clean: p.l == log.ends[k], case: case_json(log, p) }
    }
    fn want(&self) -> &'a [WalCommittedTransaction] {
        &self.log.txs[..self.k]
    }
    fn last_lsn(&self) -> Option<Lsn> {
        self.want().last().map(|t| t.commit.last_lsn)
    }
    fn fail(&self, st: &mut Stats, step: &str, what: String, extra: Value) {
        st.viol(
            format!("store:{step}:{}:{what}", self.cls),
            json!({"case": self.case, "expected_k": self.k, "step": step, "observed": extra}),
        );
    }
}

fn ek(e: &impl std::fmt::Debug) -> String {
    errkind(&format!("{e:?}"))
}

/// Reset `dir` to exactly the crash image (directory is reused by one worker thread).
fn reset_dir(dir: &Path, img: &DirImage) {
    img.materialise_over(dir);
}

/// Phase 1 for one crash point: pure-bytes recovery in both modes, read-only and writable
/// filesystem recovery on the materialised image, open, manifest validation.  Returns the hash of
/// the directory image left behind by writable recovery (None when recovery failed).
pub fn check_point(dir: &Path, log: &BuiltLog, p: &Point, st: &mut Stats) -> Option<[u8; 32]> {
    let cx = Ctx::new(log, p);
    let (k, clean, want, last_lsn) = (cx.k, cx.clean, cx.want(), cx.last_lsn());
    st.evals += 1;
    st.outcome(&format!("k={k}"));
    st.outcome(&format!("pos:{}", cx.cls));
    let seg1 = WalSegmentId::from_raw(1);
    let prefix = &log.segment[..p.l];

    // (a) pure-bytes recovery, both modes
    for (mode, mname) in [(RecoveryAccessMode::ReadOnly, "ro"), (RecoveryAccessMode::Writable, "rw")] {
        let step = format!("bytes-{mname}");
        match mc::catch(|| recover_wal_segment_bytes(seg1, prefix, mode)) {
            Err(pm) => cx.fail(st, &step, "panic".into(), json!(pm)),
            Ok(Err(e)) => cx.fail(st, &step, format!("err:{}", ek(&e)), json!(format!("{e:?}"))),
            Ok(Ok(rec)) => {
                if let Err(why) = same_history(&rec.report, want) {
                    cx.fail(st, &step, "history".into(), json!(why));
                }
                let want_tail = expected_tail(mode, clean, last_lsn);
                if rec.report.tail_posture != want_tail {
                    cx.fail(st, &step, "tail-posture".into(),
                        json!({"got": format!("{:?}", rec.report.tail_posture), "want": format!("{want_tail:?}")}));
                }
            }
        }
    }

    // (b) materialise the crashed directory
    let img = image(log, p);
    reset_dir(dir, &img);

    // (c) read-only filesystem recovery; must not touch the directory
    match mc::catch(|| recover_filesystem_store(dir, RecoveryAccessMode::ReadOnly)) {
        Err(pm) => cx.fail(st, "fs-ro", "panic".into(), json!(pm)),
        Ok(Err(e)) => cx.fail(st, "fs-ro", format!("err:{}", ek(&e)), json!(format!("{e:?}"))),
        Ok(Ok(rep)) => {
            if let Err(why) = same_history(&rep, want) {
                cx.fail(st, "fs-ro", "history".into(), json!(why));
            }
            let want_tail = expected_tail(RecoveryAccessMode::ReadOnly, clean, last_lsn);
            if rep.tail_posture != want_tail {
                cx.fail(st, "fs-ro", "tail-posture".into(),
                    json!({"got": format!("{:?}", rep.tail_posture), "want": format!("{want_tail:?}")}));
            }
            st.outcome(&format!("tail:{}", ek(&rep.tail_posture)));
        }
    }
    if DirImage::read(dir) != img {
        cx.fail(st, "fs-ro", "mutated-directory".into(), json!(null));
    }

    // (d) manifest validation: Ok exactly when the manifest version equals k and there is no tail.
    // Strictly inside a transaction the answer is the torn-tail refusal; it is evaluated on every
    // boundary image (where the side files vary) and on every 16th interior byte.
    if clean || p.l % 16 == 0 {
        match mc::catch(|| validate_filesystem_manifest(dir)) {
            Err(pm) => cx.fail(st, "manifest", "panic".into(), json!(pm)),
            Ok(res) => {
                let want_ok = p.side.manifest == Some(k) && clean && k > 0;
                match (&res, want_ok) {
                    (Ok(rep), true) => {
                        if rep.last_commit_digest != want.last().map(|t| t.commit.commit_digest) {
                            cx.fail(st, "manifest", "wrong-digest".into(), json!(null));
                        }
                        st.outcome("manifest:ok");
                    }
                    (Err(e), false) => {
                        let kind = ek(e);
                        let lawful = match e {
                            WalStoreError::MissingManifest => p.side.manifest.is_none(),
                            WalStoreError::ManifestCannotValidateUncommittedTail => !clean,
                            WalStoreError::ManifestLastCommittedLsnMismatch { .. }
                            | WalStoreError::ManifestLastCommitDigestMismatch { .. } => {
                                p.side.manifest.is_some() && p.side.manifest != Some(k)
                            }
                            _ => false,
                        };
                        if !lawful {
                            cx.fail(st, "manifest", format!("unexpected-err:{kind}"), json!(format!("{e:?}")));
                        }
                        st.outcome(&format!("manifest:{kind}"));
                    }
                    (Ok(_), false) => cx.fail(st, "manifest", "accepted-stale-or-tail".into(), json!(null)),
                    (Err(e), true) => cx.fail(st, "manifest", format!("rejected-current:{}", ek(e)), json!(format!("{e:?}"))),
                }
            }
        }
    }

    // (e) open the crashed directory as a store (ledger is read and reconciled with the commits);
    // what it reconciles depends on (ledger version, k) only: every boundary image + every 16th interior byte
    if clean || p.l % 16 == 0 {
    match mc::catch(|| FilesystemWalStore::open(dir, seg1).map(|s| s.read_commits().len())) {
        Err(pm) => cx.fail(st, "open", "panic".into(), json!(pm)),
        Ok(Err(e)) => cx.fail(st, "open", format!("err:{}", ek(&e)), json!(format!("{e:?}"))),
        Ok(Ok(n)) => {
            if n != k {
                cx.fail(st, "open", "commit-count".into(), json!(n));
            }
        }
    }
    }

    // (f) writable recovery
    let mut out = None;
    match mc::catch(|| recover_filesystem_store(dir, RecoveryAccessMode::Writable)) {
        Err(pm) => cx.fail(st, "fs-rw", "panic".into(), json!(pm)),
        Ok(Err(e)) => cx.fail(st, "fs-rw", format!("err:{}", ek(&e)), json!(format!("{e:?}"))),
        Ok(Ok(rep)) => {
            if let Err(why) = same_history(&rep, want) {
                cx.fail(st, "fs-rw", "history".into(), json!(why));
            }
            let want_tail = expected_tail(RecoveryAccessMode::Writable, clean, last_lsn);
            if rep.tail_posture != want_tail {
                cx.fail(st, "fs-rw", "tail-posture".into(),
                    json!({"got": format!("{:?}", rep.tail_posture), "want": format!("{want_tail:?}")}));
            }
            // (g) nothing of transaction k+1 is left behind
            let after = DirImage::read(dir);
            let seg_after = after.segment.clone().unwrap_or_default();
            let (recs_after, stop) = frame::parse(&seg_after);
            let want_frames: usize = want.iter().map(|t| t.frames.len()).sum();
            let got_frames = recs_after.iter().filter(|r| !r.is_commit()).count();
            let got_commits = recs_after.iter().filter(|r| r.is_commit()).count();
            if stop != seg_after.len() || got_frames != want_frames || got_commits != k {
                cx.fail(st, "fs-rw", "residue-after-truncation".into(),
                    json!({"frames": got_frames, "commits": got_commits, "parsed_to": stop, "len": seg_after.len()}));
            }
            if after.ledger != img.ledger {
                cx.fail(st, "fs-rw", "ledger-changed-by-recovery".into(), json!(null));
            }
            out = Some(mc::h(format!("{after:?}").as_bytes()));
        }
    }
    if !clean {
        st.nontrivial.push(Report::key(format!("store:{}:{}", log.word(), p.l).as_bytes()));
    }
    out
}

/// Phase 2, once per distinct recovered directory image (re-created from its first crash point):
/// second recovery is identical and rewrites nothing; a new epoch can be fenced and a transaction
/// appended; the log then recovers to k+1 transactions with the first k unchanged; one more
/// open+fence changes nothing but the ledger.
pub fn continue_point(dir: &Path, log: &BuiltLog, p: &Point, st: &mut Stats) {
    let cx = Ctx::new(log, p);
    let (k, want, last_lsn) = (cx.k, cx.want(), cx.last_lsn());
    let seg1 = WalSegmentId::from_raw(1);
    st.evals += 1;
    reset_dir(dir, &image(log, p));
    if recover_filesystem_store(dir, RecoveryAccessMode::Writable).is_err() {
        return; // already reported in phase 1
    }
    let seg_after = DirImage::read(dir).segment.unwrap_or_default();
    match mc::catch(|| recover_filesystem_store(dir, RecoveryAccessMode::Writable)) {
        Err(pm) => cx.fail(st, "fs-rw2", "panic".into(), json!(pm)),
        Ok(Err(e)) => cx.fail(st, "fs-rw2", format!("err:{}", ek(&e)), json!(format!("{e:?}"))),
        Ok(Ok(rep)) => {
            if let Err(why) = same_history(&rep, want) {
                cx.fail(st, "fs-rw2", "history".into(), json!(why));
            }
            if rep.tail_posture != RecoveryTailPosture::Clean {
                cx.fail(st, "fs-rw2", "tail-posture".into(), json!(format!("{:?}", rep.tail_posture)));
            }
            if DirImage::read(dir).segment.unwrap_or_default() != seg_after {
                cx.fail(st, "fs-rw2", "segment-changed".into(), json!(null));
            }
        }
    }
    let appended = mc::catch(|| -> Result<WalCommittedTransaction, String> {
        let mut store = FilesystemWalStore::open(dir, seg1).map_err(|e| format!("open:{}", ek(&e)))?;
        let min = last_lsn.map_or(Lsn::from_raw(0), |l| Lsn::from_raw(l.as_u64() + 1));
        let epoch = store.acquire_fresh_writer_epoch(min).map_err(|e| format!("acquire:{}", ek(&e)))?;
        let mut chain = want.iter().fold(Chain::genesis(), |c, t| c.after(t));
        if k > 0 && epoch.started_at_lsn != chain.next_lsn {
            return Err(format!("epoch-start-lsn:{}!={}", epoch.started_at_lsn.as_u64(), chain.next_lsn.as_u64()));
        }
        chain.next_lsn = epoch.started_at_lsn;
        let tx = build_tx(TxKind::Submit, epoch.epoch_id, &chain, &format!("appended:{}:{k}", log.word()))?;
        store.append_transaction(tx.clone()).map_err(|e| format!("append:{}", ek(&e)))?;
        Ok(tx)
    });
    match appended {
        Err(pm) => cx.fail(st, "continue", "panic".into(), json!(pm)),
        Ok(Err(e)) => cx.fail(st, "continue", e.clone(), json!(e)),
        Ok(Ok(tx)) => {
            st.outcome("continued:appended-transaction-k+1");
            let mut want2 = want.to_vec();
            want2.push(tx);
            for round in 0..2 {
                match mc::catch(|| recover_filesystem_store(dir, RecoveryAccessMode::ReadOnly)) {
                    Err(pm) => cx.fail(st, "after-append", "panic".into(), json!(pm)),
                    Ok(Err(e)) => cx.fail(st, "after-append", format!("err:{}", ek(&e)), json!(format!("{e:?}"))),
                    Ok(Ok(rep)) => {
                        if let Err(why) = same_history(&rep, &want2) {
                            cx.fail(st, "after-append", "history".into(), json!({"round": round, "why": why}));
                        }
                        if rep.tail_posture != RecoveryTailPosture::Clean {
                            cx.fail(st, "after-append", "tail-posture".into(), json!(format!("{:?}", rep.tail_posture)));
                        }
                    }
                }
                if round == 0 {
                    let before = DirImage::read(dir);
                    let r2 = mc::catch(|| -> Result<(), String> {
                        let mut s = FilesystemWalStore::open(dir, seg1).map_err(|e| format!("{e:?}"))?;
                        s.acquire_fresh_writer_epoch(Lsn::from_raw(0)).map_err(|e| format!("{e:?}"))?;
                        Ok(())
                    });
                    match r2 {
                        Err(pm) => cx.fail(st, "reopen", "panic".into(), json!(pm)),
                        Ok(Err(e)) => cx.fail(st, "reopen", format!("err:{}", errkind(&e)), json!(e)),
                        Ok(Ok(())) => {
                            let after2 = DirImage::read(dir);
                            if after2.segment != before.segment {
                                cx.fail(st, "reopen", "segment-changed".into(), json!(null));
                            }
                            if after2.ledger == before.ledger {
                                cx.fail(st, "reopen", "no-new-epoch-fenced".into(), json!(null));
                            }
                        }
                    }
                }
            }
        }
    }
}

fn expected_tail(mode: RecoveryAccessMode, clean: bool, last: Option<Lsn>) -> RecoveryTailPosture {
    if clean {
        return RecoveryTailPosture::Clean;
    }
    match (mode, last) {
        (RecoveryAccessMode::ReadOnly, Some(l)) => RecoveryTailPosture::WouldTruncateAfter(l),
        (RecoveryAccessMode::ReadOnly, None) => RecoveryTailPosture::WouldTruncateAll,
        (RecoveryAccessMode::Writable, Some(l)) => RecoveryTailPosture::TruncatedAfter(l),
        (RecoveryAccessMode::Writable, None) => RecoveryTailPosture::TruncatedAll,
    }
}

pub use walkit::store::words_over;

/// quick: every word of ≤2 transactions over the 4 kinds plus every word of 3 transactions over
/// {Submit, Tick}; thorough: every word of ≤4 transactions over the 4 kinds.
pub fn words(quick: bool) -> Vec<Vec<TxKind>> {
    if quick {
        walkit::store::words_quick()
    } else {
        words_over(&KINDS, 4)
    }
}

thread_local! {
    static WORKDIR: std::cell::RefCell<Option<std::path::PathBuf>> = const { std::cell::RefCell::new(None) };
}

/// Per-thread scratch directory (re-created for every case by `reset_dir`).
pub fn with_workdir<R>(f: impl FnOnce(&Path) -> R) -> R {
    WORKDIR.with(|w| {
        let mut g = w.borrow_mut();
        if g.is_none() {
            *g = Some(fresh_dir(&mc::scratch_root(), "worker").join("wal"));
        }
        f(g.as_ref().unwrap())
    })
}

pub fn build_all(scratch: &Path, quick: bool, variant: u8) -> Result<Vec<BuiltLog>, String> {
    words(quick)
        .par_iter()
        .map(|w| {
            let d = fresh_dir(scratch, "build");
            let r = build_log(&d, w, variant, true);
            let _ = std::fs::remove_dir_all(&d);
            r.map_err(|e| format!("{}: {e}", word(w)))
        })
        .collect()
}

pub fn run(r: &Report) -> Vec<BuiltLog> {
    let scratch = mc::scratch_root();
    let depth = r.pick(3, 4);
    let logs = match build_all(&scratch, r.quick(), 0) {
        Ok(l) => l,
        Err(e) if e.contains("ACK-VIOLATION") => {
            r.violation(
                "store:ack-not-durable:acknowledged-transaction-not-recoverable-from-live-directory",
                json!({"case": {"layer": "store-ack"}, "observed": e}),
            );
            return Vec::new();
        }
        Err(e) => {
            r.machinery_error(&format!("store workload build failed: {e}"));
            return Vec::new();
        }
    };
    r.counter("store.workloads", logs.len() as u64);
    r.counter("store.workload_max_txs", depth as u64);
    r.counter("store.segment_bytes_total", logs.iter().map(|l| l.segment.len() as u64).sum());
    r.counter("store.segment_bytes_max", logs.iter().map(|l| l.segment.len() as u64).max().unwrap_or(0));

    // acknowledged ⇒ covered by an fsync at the moment append_transaction returned
    for log in &logs {
        for c in 1..=log.n() {
            r.eval(1);
            match log.synced_at_ack[c - 1] {
                Some(s) if s as usize >= log.ends[c] => r.outcome("store.ack:commit-marker-synced-before-return"),
                other => r.violation(
                    "store:ack-not-durable:commit-marker-not-covered-by-fsync-when-append_transaction-returned",
                    json!({"case": {"layer": "store-ack", "word": log.word(), "commit": c}, "synced_len": other, "needed": log.ends[c]}),
                ),
            }
        }
    }

    // prefix-closure: the log of w is a byte prefix of the log of w·x, so the crash points of a
    // word are owned by its longest proper prefix up to that prefix's length.
    let index: std::collections::BTreeMap<String, usize> =
        logs.iter().enumerate().map(|(i, l)| (l.word(), i)).collect();
    let mut prefix_closed = true;
    for log in &logs {
        if log.n() > 1 {
            let parent = &logs[index[&word(&log.kinds[..log.n() - 1])]];
            let cut = parent.segment.len();
            if log.segment[..cut] != parent.segment[..]
                || log.ledgers[..log.n()] != parent.ledgers[..]
                || log.manifests[..log.n()] != parent.manifests[..]
            {
                prefix_closed = false;
            }
        }
    }
    r.guard("store.logs_are_prefix_closed", prefix_closed);

    let mut points: Vec<Point> = Vec::new();
    let mut raw_points = 0u64;
    for (i, log) in logs.iter().enumerate() {
        let n = log.n();
        let lo = if n == 1 { 1 } else { log.ends[n - 1] + 1 };
        for l in 0..=log.segment.len() {
            let sides = sides_for(log, l);
            raw_points += sides.len() as u64;
            // points up to the parent's length are evaluated on the parent word (identical bytes);
            // the empty-segment states are shared by every word: evaluated once.
            let owned = if !prefix_closed {
                true
            } else if l == 0 {
                i == 0
            } else {
                l >= lo
            };
            if !owned {
                continue;
            }
            for side in sides {
                points.push(Point { log: i, l, side });
            }
        }
    }
    r.counter("store.crash_points_raw", raw_points);
    r.counter("store.crash_points_distinct", points.len() as u64);

    let cap_frac = 0.45;
    let capped = std::sync::atomic::AtomicBool::new(false);
    let (mut stats, images) = points
        .par_iter()
        .enumerate()
        .fold(
            || (Stats::default(), Vec::<([u8; 32], usize)>::new()),
            |(mut st, mut imgs), (i, p)| {
                if r.over_budget_frac(cap_frac) {
                    capped.store(true, std::sync::atomic::Ordering::Relaxed);
                    st.count("crash_points_skipped_by_cap", 1);
                    return (st, imgs);
                }
                if let Some(h) = with_workdir(|d| check_point(d, &logs[p.log], p, &mut st)) {
                    imgs.push((h, i));
                }
                (st, imgs)
            },
        )
        .reduce(
            || (Stats::default(), Vec::new()),
            |(a, mut ia), (b, ib)| {
                ia.extend(ib);
                (a.merge(b), ia)
            },
        );
    if capped.load(std::sync::atomic::Ordering::Relaxed) {
        r.cap_hit("store layer: wall cap reached before all crash points were evaluated");
    }
    // phase 2: one continuation per distinct recovered directory image (first crash point that led to it)
    let mut reps: std::collections::BTreeMap<[u8; 32], usize> = std::collections::BTreeMap::new();
    for (h, i) in images {
        let e = reps.entry(h).or_insert(i);
        if i < *e {
            *e = i;
        }
    }
    let rep_points: Vec<usize> = reps.values().copied().collect();
    stats.count("recovered_images_distinct", rep_points.len() as u64);
    let st2 = rep_points
        .par_iter()
        .fold(Stats::default, |mut st, i| {
            let p = &points[*i];
            with_workdir(|d| continue_point(d, &logs[p.log], p, &mut st));
            st
        })
        .reduce(Stats::default, Stats::merge);
    let stats = stats.merge(st2);
    let oc = stats.outcomes.clone();
    stats.flush(r, "store.");
    let seen = |k: &str| oc.get(k).copied().unwrap_or(0) > 0;
    for k in 0..=depth {
        r.guard(&format!("store.saw_recovery_k={k}"), seen(&format!("k={k}")));
    }
    r.guard("store.crash_points_inside_frame", seen("pos:in-frame:payload") && seen("pos:in-frame:header") && seen("pos:in-frame:digest"));
    r.guard("store.crash_points_inside_commit_marker", seen("pos:in-commit:payload") && seen("pos:in-commit:header") && seen("pos:in-commit:digest"));
    r.guard("store.crash_points_at_boundaries", seen("pos:boundary:commit-end") && seen("pos:boundary:frame-end") && seen("pos:boundary:empty"));
    r.guard("store.continuations_appended", seen("continued:appended-transaction-k+1"));
    r.guard("store.manifest_ok_and_stale_seen", seen("manifest:ok") && seen("manifest:ManifestLastCommittedLsnMismatch") && seen("manifest:MissingManifest"));
    r.guard("store.fsync_interposer_active", walkit::syncspy::total() > 0);
    if let Some(l) = logs.iter().find(|l| l.n() == 2) {
        r.sample(json!({"layer": "store", "workload": l.word(), "segment_len": l.segment.len(), "commit_ends": l.ends,
            "records": l.records.iter().map(|x| json!([x.start, x.end, x.kind])).collect::<Vec<_>>(),
            "ledger_lens": l.ledgers.iter().map(|b| b.len()).collect::<Vec<_>>(),
            "synced_len_at_ack": l.synced_at_ack}));
    }
    logs
}

/// Crash *during* writable recovery (second crash of a crash→recover→crash cycle).
///
/// The truncation performed by `recover_filesystem_store(Writable)` is observed through the
/// interposer: if the segment file is unlinked and a new one is written and fsynced only at the end,
/// then between the unlink and the final fsync the durable segment is absent or a byte prefix of the
/// rewritten content.  Each such state is recovered again; the k transactions that had been
/// acknowledged before the first crash must still be there.
pub fn crash_during_recovery(r: &Report, logs: &[BuiltLog]) {
    let seg1 = WalSegmentId::from_raw(1);
    let mut seen: std::collections::BTreeSet<[u8; 32]> = std::collections::BTreeSet::new();
    let mut jobs: Vec<(usize, usize)> = Vec::new();
    for (i, log) in logs.iter().enumerate() {
        for k in 1..log.n() {
            if seen.insert(mc::h(&log.segment[..log.ends[k]])) {
                jobs.push((i, k));
            }
        }
    }
    r.counter("cycle2.truncating_recoveries", jobs.len() as u64);
    let st = jobs
        .par_iter()
        .fold(Stats::default, |mut st, (i, k)| {
            let log = &logs[*i];
            let (k, l) = (*k, log.ends[*k] + 1);
            let want = &log.txs[..k];
            let p = Point { log: *i, l, side: Side { ledger: Some(k), ledger_tmp: Tmp::None, manifest: None, manifest_tmp: Tmp::None } };
            let case = json!({"layer": "store-cycle2", "word": log.word(), "first_crash_prefix_len": l, "acknowledged": k});
            with_workdir(|dir| {
                let img = image(log, &p);
                reset_dir(dir, &img);
                let seg_path = dir.join(walkit::SEGMENT_REL);
                let (res, events) = walkit::syncspy::record(|| recover_filesystem_store(dir, RecoveryAccessMode::Writable));
                st.evals += 1;
                if res.is_err() {
                    return;
                }
                let rewritten = std::fs::read(&seg_path).unwrap_or_default();
                let is_seg = |e: &walkit::syncspy::SyncEvent| e.path.file_name() == seg_path.file_name();
                let unlink_at = events.iter().position(|e| e.unlink && is_seg(e));
                let final_sync = events.iter().rposition(|e| !e.unlink && !e.is_dir && is_seg(e) && e.len as usize == rewritten.len());
                let trace: Vec<String> = events.iter().map(|e| format!("{}({},{})", if e.unlink { "unlink" } else if e.is_dir { "fsync-dir" } else { "fsync" }, e.path.file_name().map(|n| n.to_string_lossy().to_string()).unwrap_or_default(), e.len)).collect();
                let window = matches!((unlink_at, final_sync), (Some(u), Some(f)) if u < f);
                if !window {
                    st.outcome("cycle2:truncation-has-no-unlink-then-rewrite-window");
                    return;
                }
                st.outcome("cycle2:truncation-unlinks-then-rewrites-unsynced");
                // every durable state inside the window: absent, or any byte prefix of the new content
                let mut lost_states = 0u64;
                let mut first_lost: Option<(String, usize)> = None;
                let mut check = |st: &mut Stats, state: String, got: Result<usize, String>, m: usize| {
                    st.evals += 1;
                    match got {
                        Ok(n) if n >= k => st.outcome("cycle2:state-keeps-acknowledged-transactions"),
                        Ok(n) => {
                            st.outcome(&format!("cycle2:state-recovers-{n}-of-{k}"));
                            lost_states += 1;
                            if first_lost.is_none() {
                                first_lost = Some((state, m));
                            }
                        }
                        Err(e) => {
                            st.outcome(&format!("cycle2:state-err:{e}"));
                            lost_states += 1;
                            if first_lost.is_none() {
                                first_lost = Some((state, m));
                            }
                        }
                    }
                };
                for m in 0..rewritten.len() {
                    let got = mc::catch(|| recover_wal_segment_bytes(seg1, &rewritten[..m], RecoveryAccessMode::ReadOnly))
                        .map_err(|p| format!("panic:{p}"))
                        .and_then(|x| x.map_err(|e| ek(&e)))
                        .map(|rec| rec.report.transactions.iter().zip(want).take_while(|(g, w)| g.commit == w.commit && g.frames == w.frames).count());
                    check(&mut st, format!("prefix-of-rewritten-segment:{}", pos_class(&frame::parse(&rewritten).0, m)), got, m);
                    st.nontrivial.push(Report::key(format!("cycle2:{}:{k}:{m}", log.word()).as_bytes()));
                }
                // the same through the filesystem readers at the boundaries and with the file absent
                let (recs2, _) = frame::parse(&rewritten);
                let mut marks: Vec<Option<usize>> = vec![None, Some(0)];
                marks.extend(recs2.iter().filter(|x| x.end < rewritten.len()).map(|x| Some(x.end)));
                for mk in marks {
                    let mut im = img.clone();
                    im.segment = mk.map(|m| rewritten[..m].to_vec());
                    reset_dir(dir, &im);
                    let got = mc::catch(|| recover_filesystem_store(dir, RecoveryAccessMode::Writable))
                        .map_err(|p| format!("panic:{p}"))
                        .and_then(|x| x.map_err(|e| ek(&e)))
                        .map(|rep| rep.transactions.iter().zip(want).take_while(|(g, w)| g.commit == w.commit && g.frames == w.frames).count());
                    check(&mut st, if mk.is_none() { "segment-file-absent".to_string() } else { "record-boundary-of-rewritten-segment".to_string() }, got, mk.unwrap_or(0));
                }
                if let Some((state, m)) = first_lost {
                    st.viol(
                        "store:crash-during-recovery-truncation:acknowledged-transactions-lost".to_string(),
                        json!({"case": case, "observed_syscalls_of_recovery": trace, "rewritten_len": rewritten.len(),
                            "first_losing_state": state, "durable_prefix_of_rewritten_segment": m, "losing_states": lost_states}),
                    );
                }
            });
            st
        })
        .reduce(Stats::default, Stats::merge);
    let oc = st.outcomes.clone();
    st.flush(r, "store.");
    r.guard("cycle2.truncating_recovery_observed", oc.keys().any(|k| k.starts_with("cycle2:truncation-")));
}

/// Replay one store-layer crash point from a violation's `detail.case`.
pub fn replay(case: &Value, st: &mut Stats) -> Result<(), String> {
    let w: Vec<TxKind> = case["word"]
        .as_str()
        .ok_or("word")?
        .chars()
        .map(|c| KINDS.iter().copied().find(|k| k.letter() == c).ok_or("bad letter"))
        .collect::<Result<_, _>>()?;
    let scratch = mc::scratch_root();
    let d = fresh_dir(&scratch, "replay-build");
    let log = build_log(&d, &w, 0, true)?;
    let p = Point {
        log: 0,
        l: case["prefix_len"].as_u64().ok_or("prefix_len")? as usize,
        side: Side {
            ledger: case["ledger"].as_u64().map(|x| x as usize),
            ledger_tmp: Tmp::from_js(&case["ledger_tmp"]),
            manifest: case["manifest"].as_u64().map(|x| x as usize),
            manifest_tmp: Tmp::from_js(&case["manifest_tmp"]),
        },
    };
    let _ = &scratch;
    with_workdir(|d| {
        check_point(d, &log, &p, st);
        continue_point(d, &log, &p, st);
    });
    Ok(())
}
