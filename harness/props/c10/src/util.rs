//! Small helpers shared by the C10 layers.

use mc::{json, Value};
use std::collections::BTreeMap;

/// Variant-name path of a `Debug`-printed error: `Store(Decode(UnknownEnumCode { .. }))` →
/// `Store:Decode:UnknownEnumCode`.
pub fn errkind(dbg: &str) -> String {
    let b = dbg.as_bytes();
    let mut i = 0;
    let mut parts: Vec<String> = Vec::new();
    loop {
        let s = i;
        while i < b.len() && (b[i].is_ascii_alphanumeric() || b[i] == b'_') {
            i += 1;
        }
        if s == i || !b[s].is_ascii_uppercase() {
            break;
        }
        parts.push(dbg[s..i].to_string());
        if parts.len() >= 4 || i >= b.len() || b[i] != b'(' {
            break;
        }
        i += 1;
    }
    if parts.is_empty() {
        "?".into()
    } else {
        parts.join(":")
    }
}

/// One violation found by a worker.
#[derive(Clone, Debug)]
pub struct Viol {
    pub sig: String,
    pub detail: Value,
}

/// Deterministically mergeable per-worker statistics.
#[derive(Clone, Debug, Default)]
pub struct Stats {
    pub evals: u64,
    pub outcomes: BTreeMap<String, u64>,
    pub counters: BTreeMap<String, u64>,
    pub nontrivial: Vec<u128>,
    pub viols: Vec<Viol>,
}

impl Stats {
    pub fn outcome(&mut self, k: &str) {
        *self.outcomes.entry(k.to_string()).or_insert(0) += 1;
    }
    pub fn count(&mut self, k: &str, n: u64) {
        *self.counters.entry(k.to_string()).or_insert(0) += n;
    }
    pub fn viol(&mut self, sig: String, detail: Value) {
        if self.viols.len() < 64 {
            self.viols.push(Viol { sig, detail });
        } else {
            // keep counting through the signature histogram only
            *self.counters.entry(format!("violations_dropped:{sig}")).or_insert(0) += 1;
        }
    }
    pub fn merge(mut self, o: Stats) -> Stats {
        self.evals += o.evals;
        for (k, v) in o.outcomes {
            *self.outcomes.entry(k).or_insert(0) += v;
        }
        for (k, v) in o.counters {
            *self.counters.entry(k).or_insert(0) += v;
        }
        self.nontrivial.extend(o.nontrivial);
        for v in o.viols {
            if self.viols.len() < 4096 {
                self.viols.push(v);
            }
        }
        self
    }
    pub fn flush(self, r: &mc::Report, prefix: &str) {
        r.eval(self.evals);
        let mut hist: BTreeMap<String, u64> = BTreeMap::new();
        for v in &self.viols {
            *hist.entry(v.sig.clone()).or_insert(0) += 1;
        }
        for (s, n) in &hist {
            r.counter(&format!("violation:{s}"), *n);
        }
        for (k, v) in &self.outcomes {
            r.outcome_n(&format!("{prefix}{k}"), *v);
        }
        for (k, v) in &self.counters {
            r.counter(&format!("{prefix}{k}"), *v);
        }
        r.nontrivial_many(self.nontrivial);
        for v in self.viols {
            r.violation(&v.sig, v.detail);
        }
    }
}

pub fn hex32(h: &[u8; 32]) -> String {
    mc::hex(&h[..6])
}

pub fn jerr(step: &str, e: impl std::fmt::Debug) -> Value {
    json!({"step": step, "error": format!("{e:?}")})
}
