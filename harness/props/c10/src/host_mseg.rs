//! C10 host layer on a directory with TWO segment files.
//!
//! `TrustedRuntimeHost` always appends to segment 1 and has no rotation call, so a host never
//! produces a second segment by itself.  The one multi-file layout a host directory reaches through
//! the public API is "a new writer created the next segment file and stopped before fencing its
//! epoch": `FilesystemWalStore::open(root, 2)` on the host's directory (checked once on the real
//! store).  Here the host is the reader of that layout: every enumerated byte prefix of segment 1
//! (the NON-final file) with an empty segment 2 next to it is recovered by a fresh host
//! (`enable_runtime_wal`), compared with the fingerprint recorded at acknowledgement, recovered a
//! second time, and — for the crash points of the last operation — continued to the end of the
//! workload and recovered again.

use crate::host_layer::{apply_all, offsets, HostData, Run};
use crate::store_layer::{pos_class, with_workdir};
use crate::util::{errkind, Stats};
use mc::{json, Report, Value};
use rayon::prelude::*;
use std::collections::BTreeMap;
use std::path::Path;
use walkit::host::{apply, callbacks_here, fingerprint, open_host, Known, Op, OpResult, Sub};
use walkit::mseg::MDirImage;
use warp_core::causal_wal::{recover_filesystem_store, FilesystemWalStore, RecoveryAccessMode, WalSegmentId};
use warp_core::{Hash, TrustedRuntimeHost};

#[derive(Clone, Copy, Debug)]
pub struct P {
    pub run: usize,
    pub op: usize,
    pub l: usize,
    pub ledger: usize,
}

fn image(run: &Run, p: &P) -> MDirImage {
    let mut segs = BTreeMap::new();
    segs.insert(1, run.seg[..p.l].to_vec());
    segs.insert(2, Vec::new());
    MDirImage { segs, ledger: Some(run.ledgers[p.ledger].clone()), ..MDirImage::default() }
}

fn case(run: &Run, p: &P) -> Value {
    json!({"layer": "host-mseg", "ops": run.word(), "op_index": p.op, "prefix_len_of_segment_1": p.l, "segment_1_len": run.seg.len(), "segment_2": "present, empty", "ledger_version": p.ledger})
}

fn recover_host(dir: &Path) -> Result<(TrustedRuntimeHost, u64), (String, String)> {
    let cb = callbacks_here();
    let host = mc::catch(|| open_host(dir)).map_err(|p| ("panic".to_string(), p))??;
    Ok((host, callbacks_here() - cb))
}

fn commits(dir: &Path) -> Result<Vec<Hash>, String> {
    recover_filesystem_store(dir, RecoveryAccessMode::ReadOnly).map(|r| r.transactions.iter().map(|t| t.commit.commit_digest).collect()).map_err(|e| format!("{e:?}"))
}

pub fn check(dir: &Path, run: &Run, p: &P, ids: &[(Sub, Hash)], st: &mut Stats) {
    let k = run.k_at(p.l);
    let cls = pos_class(&run.records, p.l);
    let cj = case(run, p);
    st.evals += 1;
    st.outcome(&format!("hostmseg.k={k}"));
    st.outcome(&format!("hostmseg.pos:{cls}"));
    let want_fp = &run.fps[run.fp_index_for_k(k)];
    let fail = |st: &mut Stats, step: &str, what: String, extra: Value| {
        st.viol(format!("host-mseg:{step}:{cls}:{what}"), json!({"case": cj, "expected_k": k, "observed": extra}));
    };
    image(run, p).materialise_over(dir);
    let (mut host, cbs) = match recover_host(dir) {
        Ok(x) => x,
        Err((stage, e)) => return fail(st, "recover", format!("{stage}:{}", errkind(&e)), json!(e)),
    };
    if cbs != 0 {
        fail(st, "recover", "application-callback-ran".into(), json!(cbs));
    }
    let fp = fingerprint(&mut host, ids);
    if &fp != want_fp {
        fail(st, "recover", "fingerprint-differs-from-acknowledged-state".into(), json!({"got": fp, "want": want_fp}));
    }
    let c1 = commits(dir);
    drop(host);
    let img1 = MDirImage::read(dir);
    st.outcome(&format!("hostmseg.segment-files-after-recovery={}", img1.segs.len()));
    match recover_host(dir) {
        Err((stage, e)) => fail(st, "recover2", format!("{stage}:{}", errkind(&e)), json!(e)),
        Ok((mut h2, cbs2)) => {
            if cbs2 != 0 {
                fail(st, "recover2", "application-callback-ran".into(), json!(cbs2));
            }
            let fp2 = fingerprint(&mut h2, ids);
            if fp2 != fp {
                fail(st, "recover2", "fingerprint-not-idempotent".into(), json!({"first": fp, "second": fp2}));
            }
            if c1 != commits(dir) {
                fail(st, "recover2", "committed-list-changed".into(), json!(null));
            }
            drop(h2);
            if MDirImage::read(dir).segs != img1.segs {
                fail(st, "recover2", "segment-files-changed".into(), json!(null));
            }
        }
    }
    if p.l != run.ends[p.op + 1] && p.l != run.ends[p.op] {
        st.nontrivial.push(Report::key(format!("host-mseg:{}:{}", run.word(), p.l).as_bytes()));
    }
}

/// Crash in the last op (not acknowledged): recover, retry what was acknowledged, finish, compare
/// with the uninterrupted run, recover once more.
pub fn finish(dir: &Path, run: &Run, p: &P, ids: &[(Sub, Hash)], st: &mut Stats) {
    let cls = pos_class(&run.records, p.l);
    let cj = json!({"layer": "host-mseg-continue", "crash": case(run, p)});
    st.evals += 1;
    let fail = |st: &mut Stats, step: &str, what: String, extra: Value| {
        st.viol(format!("host-mseg:{step}:{cls}:{what}"), json!({"case": cj, "observed": extra}));
    };
    image(run, p).materialise_over(dir);
    let Ok((mut host, _)) = recover_host(dir) else { return };
    let idmap: BTreeMap<Sub, Hash> = ids.iter().copied().collect();
    let complete = p.l == run.ends[p.op + 1];
    let done = if complete { p.op + 1 } else { p.op };
    let mut known = Known::default();
    for op in &run.ops[..done] {
        if let Op::Submit(s) | Op::Retry(s) = op {
            known.ids.insert(*s, idmap[s]);
        }
    }
    for s in known.ids.keys().copied().collect::<Vec<_>>() {
        match apply(&mut host, &mut known, Op::Retry(s)) {
            Ok(OpResult::Acked { duplicate: true, submission_id }) if submission_id == idmap[&s] => {}
            other => fail(st, "continue", "retry-of-acknowledged-submission-not-deduplicated".into(), json!(format!("{:?}", other.map_err(|e| format!("{e:?}"))))),
        }
    }
    if let Err(e) = mc::catch(|| apply_all(&mut host, &mut known, &run.ops[done..])).unwrap_or_else(|p| Err(format!("panic:{p}"))) {
        return fail(st, "continue", format!("op-failed:{e}"), json!(e));
    }
    let want = run.fps.last().cloned().unwrap_or_default();
    let fp = fingerprint(&mut host, ids);
    if fp != want {
        fail(st, "continue", "final-fingerprint-differs-from-uninterrupted-run".into(), json!({"got": fp, "want": want}));
    } else {
        st.outcome("hostmseg.continued:same-final-fingerprint");
    }
    drop(host);
    match recover_host(dir) {
        Err((stage, e)) => fail(st, "continue-recover", format!("{stage}:{}", errkind(&e)), json!(e)),
        Ok((mut h, _)) => {
            if fingerprint(&mut h, ids) != want {
                fail(st, "continue-recover", "fingerprint-differs".into(), json!(null));
            }
        }
    }
}

fn points(runs: &[Run], pick: &[usize], every_byte: bool) -> (Vec<P>, Vec<P>) {
    let (mut pts, mut fin) = (Vec::new(), Vec::new());
    for &ri in pick {
        let run = &runs[ri];
        let n = run.ops.len();
        for op in 0..n {
            let (lo, hi) = (run.ends[op], run.ends[op + 1]);
            if hi == lo {
                continue;
            }
            if op == 0 {
                pts.push(P { run: ri, op, l: lo, ledger: 0 });
            }
            for l in offsets(run, lo, hi, every_byte) {
                pts.push(P { run: ri, op, l, ledger: op });
                if l == hi {
                    pts.push(P { run: ri, op, l, ledger: op + 1 });
                }
            }
            if op + 1 == n {
                // continuation points of the last op: clean start, first byte, middle, last byte short, complete
                for l in [lo, lo + 1, (lo + hi) / 2, hi - 1] {
                    fin.push(P { run: ri, op, l, ledger: op });
                }
                fin.push(P { run: ri, op, l: hi, ledger: op + 1 });
            }
        }
    }
    (pts, fin)
}

pub fn run(r: &Report, host: Option<&HostData>) {
    let Some(h) = host else { return };
    // the layout is reachable through the public API: a store opened on segment id 2 creates the file
    let d = walkit::fresh_dir(&mc::scratch_root(), "hostmseg-reach");
    let reach = (|| -> Result<bool, String> {
        let mut known = Known::default();
        {
            let mut host = open_host(&d).map_err(|e| format!("{e:?}"))?;
            apply(&mut host, &mut known, Op::Submit(Sub::A)).map_err(|e| format!("{e:?}"))?;
        }
        let before = MDirImage::read(&d);
        drop(FilesystemWalStore::open(&d, WalSegmentId::from_raw(2)).map_err(|e| format!("{e:?}"))?);
        let after = MDirImage::read(&d);
        Ok(after.segs.len() == 2 && after.segs.get(&2).is_some_and(|s| s.is_empty()) && after.segs.get(&1) == before.segs.get(&1) && after.ledger == before.ledger)
    })();
    match reach {
        Ok(ok) => r.guard("hostmseg.layout_reachable_by_opening_the_next_segment_id", ok),
        Err(e) => r.machinery_error(&format!("host two-segment layout: {e}")),
    }
    let _ = std::fs::remove_dir_all(&d);

    let pick: Vec<usize> = if r.quick() {
        ["A.t", "A.B.t"].iter().filter_map(|w| h.runs.iter().position(|x| x.word() == *w)).collect()
    } else {
        (0..h.runs.len()).filter(|i| h.runs[*i].ops.len() <= 3).collect()
    };
    let (pts, fin) = points(&h.runs, &pick, r.thorough());
    r.counter("hostmseg.workloads", pick.len() as u64);
    r.counter("hostmseg.crash_points", pts.len() as u64);
    r.counter("hostmseg.continuations", fin.len() as u64);
    let capped = std::sync::atomic::AtomicBool::new(false);
    let st = pts
        .par_iter()
        .fold(Stats::default, |mut st, p| {
            if r.over_budget_frac(0.9) {
                capped.store(true, std::sync::atomic::Ordering::Relaxed);
                st.count("hostmseg.skipped_by_cap", 1);
                return st;
            }
            with_workdir(|d| check(d, &h.runs[p.run], p, &h.ids, &mut st));
            st
        })
        .reduce(Stats::default, Stats::merge);
    let st2 = fin
        .par_iter()
        .fold(Stats::default, |mut st, p| {
            with_workdir(|d| finish(d, &h.runs[p.run], p, &h.ids, &mut st));
            st
        })
        .reduce(Stats::default, Stats::merge);
    if capped.load(std::sync::atomic::Ordering::Relaxed) {
        r.cap_hit("host two-segment layer: wall cap reached");
    }
    let st = st.merge(st2);
    let oc = st.outcomes.clone();
    st.flush(r, "host.");
    let seen = |k: &str| oc.get(k).copied().unwrap_or(0) > 0;
    r.guard("hostmseg.torn_and_clean_points_seen", seen("hostmseg.pos:in-frame:payload") && seen("hostmseg.pos:boundary:commit-end"));
    r.guard("hostmseg.recovered_k_0_1_2", seen("hostmseg.k=0") && seen("hostmseg.k=1") && seen("hostmseg.k=2"));
    r.guard("hostmseg.continuations_reached_final_fingerprint", seen("hostmseg.continued:same-final-fingerprint"));
    r.guard("hostmseg.second_segment_file_survives_clean_recovery_and_is_dropped_by_truncation", seen("hostmseg.segment-files-after-recovery=2") && seen("hostmseg.segment-files-after-recovery=1"));
}

/// Replay one case.
pub fn replay(case: &Value, st: &mut Stats) -> Result<(), String> {
    let c = if case["layer"] == "host-mseg-continue" { &case["crash"] } else { case };
    let scratch = mc::scratch_root();
    let ids = crate::host_layer::learn_ids(&scratch)?;
    let ops: Vec<Op> = c["ops"].as_str().ok_or("ops")?.split('.').filter_map(|t| match t {
        "A" => Some(Op::Submit(Sub::A)),
        "B" => Some(Op::Submit(Sub::B)),
        "ra" => Some(Op::Retry(Sub::A)),
        "t" => Some(Op::Tick),
        _ => None,
    }).collect();
    let run = crate::host_layer::run_uninterrupted(&scratch, &ops, &ids)?;
    let u = |k: &str| c[k].as_u64().map(|x| x as usize).ok_or(k.to_string());
    let p = P { run: 0, op: u("op_index")?, l: u("prefix_len_of_segment_1")?, ledger: u("ledger_version")? };
    with_workdir(|d| {
        check(d, &run, &p, &ids, st);
        if case["layer"] == "host-mseg-continue" {
            finish(d, &run, &p, &ids, st);
        }
    });
    Ok(())
}
