//! C10 fault layer: `FilesystemWalFaultPlan::fail_next(target)` armed before every operation index,
//! on the host (submit / retry / tick) and on the bare store (append_transaction / publish_manifest).

use crate::host_layer::{apply_all, HostData, Run};
use crate::store_layer::with_workdir;
use crate::util::{errkind, Stats};
use mc::{json, Report, Value};
use rayon::prelude::*;
use std::collections::BTreeSet;
use std::path::Path;
use walkit::frame;
use walkit::host::{
    apply, fingerprint, fingerprint_live, inject, open_host, wal_counts, Known, Op, Sub,
};
use walkit::store::{build_tx, tx_label, word, Chain, TxKind, KINDS};
use walkit::{digest, DirImage, SEGMENT_REL};
use warp_core::causal_wal::{
    recover_filesystem_store, FilesystemWalFaultPlan, FilesystemWalFaultTarget, FilesystemWalStore,
    Lsn, RecoveryAccessMode, RecoveryTailPosture, WalCommittedTransaction, WalManifest,
    WalSegmentId, WalStorePort,
};
use warp_core::Hash;

pub const TARGETS: [FilesystemWalFaultTarget; 4] = [
    FilesystemWalFaultTarget::AppendFrame,
    FilesystemWalFaultTarget::FlushCommit,
    FilesystemWalFaultTarget::CommitMarkerSynced,
    FilesystemWalFaultTarget::PublishManifest,
];

fn fresh(dir: &Path) {
    let _ = std::fs::remove_dir_all(dir);
    std::fs::create_dir_all(dir).expect("dir");
}

fn copy_image(from: &Path, to: &Path) {
    let img = DirImage::read(from);
    let _ = std::fs::remove_dir_all(to);
    img.materialise(to);
}

fn op_kind(op: Op) -> &'static str {
    match op {
        Op::Submit(_) => "submit",
        Op::Retry(_) => "retry",
        Op::Tick => "tick",
    }
}

/// One host fault case: workload `run`, fault `target` armed right before op `j`.
pub fn host_fault_case(dir: &Path, run: &Run, j: usize, target: FilesystemWalFaultTarget, ids: &[(Sub, Hash)], st: &mut Stats) {
    let op = run.ops[j];
    let tname = format!("{target:?}");
    let case = json!({"layer": "host-fault", "ops": run.word(), "op_index": j, "target": tname});
    let cls = format!("{tname}:{}", op_kind(op));
    st.evals += 1;
    let fail = |st: &mut Stats, what: String, extra: Value| {
        st.viol(format!("host-fault:{cls}:{what}"), json!({"case": case, "observed": extra}));
    };
    let live = dir.join("live");
    let copy = dir.join("copy");
    fresh(dir);
    let mut host = match open_host(&live) {
        Ok(h) => h,
        Err(e) => {
            fail(st, "fixture".into(), json!(format!("{e:?}")));
            return;
        }
    };
    let mut known = Known::default();
    for op in &run.ops[..j] {
        if let Err(e) = apply(&mut host, &mut known, *op) {
            fail(st, "prefix-op-failed-without-fault".into(), json!(format!("{e:?}")));
            return;
        }
    }
    let pre_live = fingerprint_live(&mut host, ids);
    if inject(&mut host, FilesystemWalFaultPlan::fail_next(target)).is_err() {
        fail(st, "cannot-arm".into(), json!(null));
        return;
    }
    let res = mc::catch(|| apply(&mut host, &mut known, op));
    let _ = inject(&mut host, FilesystemWalFaultPlan::default());
    let res = match res {
        Err(p) => {
            fail(st, "panic".into(), json!(p));
            return;
        }
        Ok(r) => r,
    };
    let failed = res.is_err();
    match &res {
        Err(e) => {
            st.outcome(&format!("host-fault:{cls}:Err:{}", errkind(&format!("{e:?}"))));
            let now = fingerprint_live(&mut host, ids);
            if now != pre_live {
                fail(st, "err-but-live-state-changed".into(), json!({"before": pre_live, "after": now}));
            }
            st.nontrivial.push(Report::key(format!("hf:{}:{j}:{tname}", run.word()).as_bytes()));
        }
        Ok(_) => {
            st.outcome(&format!("host-fault:{cls}:Ok"));
            let now = fingerprint(&mut host, ids);
            if now != run.fps[j + 1] {
                fail(st, "ok-but-state-differs-from-fault-free".into(), json!({"got": now, "want": run.fps[j + 1]}));
            }
        }
    }
    // the directory as it is now must recover to a committed prefix
    copy_image(&live, &copy);
    let seg = std::fs::read(copy.join(SEGMENT_REL)).unwrap_or_default();
    let (recs, _) = frame::parse(&seg);
    let k_disk = recs.iter().filter(|r| r.is_commit()).count();
    let k_before = run.k_at(run.ends[j]);
    let k_after = run.k_at(run.ends[j + 1]);
    let lawful_k = if failed { k_disk == k_before || k_disk == k_after } else { k_disk == k_after };
    if !lawful_k {
        fail(st, "commit-markers-on-disk".into(), json!({"k_disk": k_disk, "k_before": k_before, "k_after": k_after}));
    }
    match mc::catch(|| open_host(&copy)) {
        Err(p) => fail(st, "crash-recover-panic".into(), json!(p)),
        Ok(Err(e)) => fail(st, format!("crash-recover-failed:{}", errkind(&e.1)), json!(format!("{e:?}"))),
        Ok(Ok(mut h)) => {
            let fp = fingerprint(&mut h, ids);
            let want = &run.fps[run.fp_index_for_k(k_disk.min(k_after))];
            if &fp != want {
                fail(st, "crash-recovered-state-is-not-a-committed-prefix".into(), json!({"got": fp, "want": want, "k_disk": k_disk}));
            }
            st.outcome(&format!("host-fault:recovered:k_disk-k_before={}", k_disk as i64 - k_before as i64));
        }
    }
    // finish the workload on the live host, retrying the failed op
    let rest: Vec<Op> = if failed { run.ops[j..].to_vec() } else { run.ops[j + 1..].to_vec() };
    match mc::catch(|| apply_all(&mut host, &mut known, &rest)) {
        Err(p) => {
            fail(st, "finish-panic".into(), json!(p));
            return;
        }
        Ok(Err(e)) => {
            fail(st, format!("finish-failed:{e}"), json!(e));
            return;
        }
        Ok(Ok(())) => {}
    }
    let want = run.fps.last().cloned().unwrap_or_default();
    let fp = fingerprint(&mut host, ids);
    if fp != want {
        fail(st, "final-live-state-differs-from-fault-free".into(), json!({"got": fp, "want": want}));
    }
    let subs: BTreeSet<Sub> = run.ops.iter().filter_map(|o| if let Op::Submit(s) | Op::Retry(s) = o { Some(*s) } else { None }).collect();
    let ticks = run.ops.iter().filter(|o| **o == Op::Tick).count();
    let (acc, tk) = wal_counts(&host);
    if acc != subs.len() || tk != ticks {
        fail(st, "acceptance-or-tick-record-count".into(), json!({"acceptances": acc, "ticks": tk, "want": [subs.len(), ticks]}));
    }
    drop(host);
    match mc::catch(|| open_host(&live)) {
        Err(p) => fail(st, "final-recover-panic".into(), json!(p)),
        Ok(Err(e)) => fail(st, format!("final-recover-failed:{}", errkind(&e.1)), json!(format!("{e:?}"))),
        Ok(Ok(mut h)) => {
            let fp = fingerprint(&mut h, ids);
            if fp != want {
                fail(st, "final-recovered-state-differs-from-fault-free".into(), json!({"got": fp, "want": want}));
            } else {
                st.outcome("host-fault:final:recovered-fault-free-fingerprint");
            }
        }
    }
}

fn same_txs(dir: &Path, want: &[WalCommittedTransaction]) -> Result<RecoveryTailPosture, String> {
    let rep = recover_filesystem_store(dir, RecoveryAccessMode::ReadOnly).map_err(|e| format!("err:{}", errkind(&format!("{e:?}"))))?;
    if rep.transactions.len() != want.len() {
        return Err(format!("count:{}!={}", rep.transactions.len(), want.len()));
    }
    for (g, w) in rep.transactions.iter().zip(want) {
        if g.commit != w.commit || g.frames != w.frames {
            return Err("transaction-differs".into());
        }
    }
    Ok(rep.tail_posture)
}

/// One store fault case: workload `kinds`, fault `target` armed right before store call `j`
/// (append_transaction j, or publish_manifest j for the manifest target).
pub fn store_fault_case(dir: &Path, kinds: &[TxKind], j: usize, target: FilesystemWalFaultTarget, st: &mut Stats) {
    let tname = format!("{target:?}");
    let case = json!({"layer": "store-fault", "word": word(kinds), "call_index": j, "target": tname});
    st.evals += 1;
    let fail = |st: &mut Stats, what: String, extra: Value| {
        st.viol(format!("store-fault:{tname}:{what}"), json!({"case": case, "observed": extra}));
    };
    fresh(dir);
    let seg1 = WalSegmentId::from_raw(1);
    let r = mc::catch(|| -> Result<(), String> {
        let mut store = FilesystemWalStore::open(dir, seg1).map_err(|e| format!("{e:?}"))?;
        let epoch = store.acquire_fresh_writer_epoch(Lsn::from_raw(0)).map_err(|e| format!("{e:?}"))?;
        let mut chain = Chain::genesis();
        chain.next_lsn = epoch.started_at_lsn;
        let mut done: Vec<WalCommittedTransaction> = Vec::new();
        for (i, k) in kinds.iter().enumerate() {
            let tx = build_tx(*k, epoch.epoch_id, &chain, &tx_label(0, i, *k))?;
            let manifest = WalManifest {
                manifest_digest: digest(&format!("walkit:manifest:v0:{i}")),
                last_committed_lsn: Some(tx.commit.last_lsn),
                last_commit_digest: Some(tx.commit.commit_digest),
                sealed_segment_count: 1,
            };
            if i == j {
                store.replace_fault_plan_for_test(FilesystemWalFaultPlan::fail_next(target));
            }
            let res = store.append_transaction(tx.clone());
            let mres = if res.is_ok() { Some(store.publish_manifest(epoch.epoch_id, manifest.clone())) } else { None };
            if i == j {
                store.replace_fault_plan_for_test(FilesystemWalFaultPlan::default());
                let fired = res.is_err() || matches!(mres, Some(Err(_)));
                st.outcome(&format!("store-fault:{tname}:{}", if fired { "fired" } else { "not-fired" }));
                if !fired {
                    return Err("fault-did-not-fire".into());
                }
                st.nontrivial.push(Report::key(format!("sf:{}:{j}:{tname}", word(kinds)).as_bytes()));
                // directory right now must recover to a committed prefix
                let mut with = done.clone();
                with.push(tx.clone());
                let committed = match (same_txs(dir, &done), same_txs(dir, &with)) {
                    (Ok(_), _) => false,
                    (_, Ok(_)) => true,
                    (Err(a), Err(b)) => return Err(format!("not-a-committed-prefix:{a}|{b}")),
                };
                let lawful = match target {
                    FilesystemWalFaultTarget::AppendFrame | FilesystemWalFaultTarget::FlushCommit => !committed,
                    _ => committed,
                };
                if !lawful {
                    return Err(format!("visibility-after-fault:committed={committed}"));
                }
                st.outcome(&format!("store-fault:{tname}:transaction-visible={committed}"));
                // client-side repair: writable recovery discards the tail, then the call is retried
                recover_filesystem_store(dir, RecoveryAccessMode::Writable).map_err(|e| format!("repair:{}", errkind(&format!("{e:?}"))))?;
                if !committed {
                    store.append_transaction(tx.clone()).map_err(|e| format!("retry-append:{}", errkind(&format!("{e:?}"))))?;
                }
                store.publish_manifest(epoch.epoch_id, manifest).map_err(|e| format!("retry-publish:{}", errkind(&format!("{e:?}"))))?;
            } else {
                res.map_err(|e| format!("append without fault: {e:?}"))?;
                if let Some(m) = mres {
                    m.map_err(|e| format!("publish without fault: {e:?}"))?;
                }
            }
            chain = chain.after(&tx);
            done.push(tx);
        }
        drop(store);
        match same_txs(dir, &done) {
            Ok(RecoveryTailPosture::Clean) => {}
            Ok(p) => return Err(format!("final-tail:{p:?}")),
            Err(e) => return Err(format!("final-history:{e}")),
        }
        warp_core::causal_wal::validate_filesystem_manifest(dir).map_err(|e| format!("final-manifest:{}", errkind(&format!("{e:?}"))))?;
        // and survives one more open + fence
        let mut s2 = FilesystemWalStore::open(dir, seg1).map_err(|e| format!("reopen:{}", errkind(&format!("{e:?}"))))?;
        s2.acquire_fresh_writer_epoch(Lsn::from_raw(0)).map_err(|e| format!("refence:{}", errkind(&format!("{e:?}"))))?;
        Ok(())
    });
    match r {
        Err(p) => fail(st, "panic".into(), json!(p)),
        Ok(Err(e)) if e == "fault-did-not-fire" => {}
        Ok(Err(e)) => fail(st, e.clone(), json!(e)),
        Ok(Ok(())) => st.outcome("store-fault:final:full-history-exactly-once"),
    }
}

pub fn run(r: &Report, host: Option<&HostData>) {
    // store faults: every word of ≤2 (quick) / ≤3 (thorough) transactions × call index × target
    let depth = r.pick(2, 3);
    let mut cases: Vec<(Vec<TxKind>, usize, FilesystemWalFaultTarget)> = Vec::new();
    for w in crate::store_layer::words_over(&KINDS, depth) {
        for j in 0..w.len() {
            for t in TARGETS {
                cases.push((w.clone(), j, t));
            }
        }
    }
    r.counter("fault.store_cases", cases.len() as u64);
    let st = cases
        .par_iter()
        .fold(Stats::default, |mut st, (w, j, t)| {
            with_workdir(|d| store_fault_case(d, w, *j, *t, &mut st));
            st
        })
        .reduce(Stats::default, Stats::merge);
    let oc = st.outcomes.clone();
    st.flush(r, "");
    for t in TARGETS {
        r.guard(&format!("fault.store_target_fired:{t:?}"), oc.get(&format!("store-fault:{t:?}:fired")).copied().unwrap_or(0) > 0);
    }
    r.guard("fault.store_final_history_seen", oc.get("store-fault:final:full-history-exactly-once").copied().unwrap_or(0) > 0);

    let Some(h) = host else {
        return;
    };
    let mut hc: Vec<(usize, usize, FilesystemWalFaultTarget)> = Vec::new();
    for (ri, run) in h.runs.iter().enumerate() {
        for j in 0..run.ops.len() {
            for t in TARGETS {
                hc.push((ri, j, t));
            }
        }
    }
    r.counter("fault.host_cases", hc.len() as u64);
    let st = hc
        .par_iter()
        .fold(Stats::default, |mut st, (ri, j, t)| {
            with_workdir(|d| host_fault_case(d, &h.runs[*ri], *j, *t, &h.ids, &mut st));
            st
        })
        .reduce(Stats::default, Stats::merge);
    let oc = st.outcomes.clone();
    st.flush(r, "");
    let any = |pat: &str| oc.iter().any(|(k, v)| k.contains(pat) && *v > 0);
    r.guard("fault.host_err_seen_on_submit", any(":submit:Err"));
    r.guard("fault.host_err_seen_on_tick", any(":tick:Err"));
    r.guard("fault.host_final_recovered", any("host-fault:final:recovered-fault-free-fingerprint"));
}

/// Replay a fault case.
pub fn replay(case: &Value, st: &mut Stats) -> Result<(), String> {
    let target = TARGETS
        .iter()
        .copied()
        .find(|t| Some(format!("{t:?}").as_str()) == case["target"].as_str())
        .ok_or("target")?;
    match case["layer"].as_str() {
        Some("store-fault") => {
            let w: Vec<TxKind> = case["word"].as_str().ok_or("word")?.chars()
                .filter_map(|c| KINDS.iter().copied().find(|k| k.letter() == c)).collect();
            let j = case["call_index"].as_u64().ok_or("call_index")? as usize;
            with_workdir(|d| store_fault_case(d, &w, j, target, st));
            Ok(())
        }
        Some("host-fault") => {
            let scratch = mc::scratch_root();
            let ids = crate::host_layer::learn_ids(&scratch)?;
            let ops: Vec<Op> = case["ops"].as_str().ok_or("ops")?.split('.').filter_map(|t| match t {
                "A" => Some(Op::Submit(Sub::A)),
                "B" => Some(Op::Submit(Sub::B)),
                "ra" => Some(Op::Retry(Sub::A)),
                "t" => Some(Op::Tick),
                _ => None,
            }).collect();
            let run = crate::host_layer::run_uninterrupted(&scratch, &ops, &ids)?;
            let j = case["op_index"].as_u64().ok_or("op_index")? as usize;
            with_workdir(|d| host_fault_case(d, &run, j, target, &ids, st));
            Ok(())
        }
        _ => Err("layer".into()),
    }
}
