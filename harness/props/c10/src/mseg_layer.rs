//! C10 store layer on MULTI-SEGMENT logs.
//!
//! Workloads span 2–3 segment files produced through the two public ways a further segment comes
//! to exist (`rotate_segment`, and a new writer opening the next segment id and fencing a fresh
//! epoch).  The durable mutations of a workload are recorded in program order; the crash images are
//! every stage of every mutation from the creation of segment 2 on: segment file absent / created
//! empty, every byte length of the segment being appended to (all earlier segments complete),
//! every temp+rename stage of every ledger and manifest publication.  Crash points inside
//! segment 1 before a second segment exists are the single-segment space of `store_layer`.

use crate::store_layer::{pos_class, with_workdir};
use crate::util::{errkind, Stats};
use mc::{json, Report, Value};
use rayon::prelude::*;
use std::path::Path;
use walkit::frame;
use walkit::fresh_dir;
use walkit::mseg::{build_multi, seg_rel, Bound, BuiltMulti, Ev, MDirImage, MPoint, MSpec, MState, Stage};
use walkit::store::{build_tx_on, Chain, TxKind};
use warp_core::causal_wal::{
    recover_filesystem_store, recover_wal_segment_bytes, validate_filesystem_manifest,
    FilesystemWalStore, Lsn, RecoveryAccessMode, RecoveryScanReport, RecoveryTailPosture,
    WalCommittedTransaction, WalSegmentId, WalStoreError, WalStorePort,
};

fn ek(e: &impl std::fmt::Debug) -> String {
    errkind(&format!("{e:?}"))
}

fn same_history(report: &RecoveryScanReport, want: &[WalCommittedTransaction]) -> Result<(), String> {
    if report.transactions.len() != want.len() {
        return Err(format!("count {} != {}", report.transactions.len(), want.len()));
    }
    for (i, (got, w)) in report.transactions.iter().zip(want).enumerate() {
        if got.commit != w.commit {
            return Err(format!("commit {i} differs"));
        }
        if got.frames != w.frames {
            return Err(format!("frames of transaction {i} differ"));
        }
    }
    Ok(())
}

fn expected_tail(mode: RecoveryAccessMode, clean: bool, last: Option<Lsn>) -> RecoveryTailPosture {
    if clean {
        return RecoveryTailPosture::Clean;
    }
    match (mode, last) {
        (RecoveryAccessMode::ReadOnly, Some(l)) => RecoveryTailPosture::WouldTruncateAfter(l),
        (RecoveryAccessMode::ReadOnly, None) => RecoveryTailPosture::WouldTruncateAll,
        (RecoveryAccessMode::Writable, Some(l)) => RecoveryTailPosture::TruncatedAfter(l),
        (RecoveryAccessMode::Writable, None) => RecoveryTailPosture::TruncatedAll,
    }
}

fn stage_js(s: Stage) -> Value {
    match s {
        Stage::Done => json!("done"),
        Stage::Byte(l) => json!({"byte": l}),
        Stage::TmpFull => json!("tmp-full"),
        Stage::TmpTorn => json!("tmp-torn"),
    }
}

fn stage_from_js(v: &Value) -> Option<Stage> {
    if let Some(l) = v.get("byte").and_then(|x| x.as_u64()) {
        return Some(Stage::Byte(l as usize));
    }
    match v.as_str()? {
        "done" => Some(Stage::Done),
        "tmp-full" => Some(Stage::TmpFull),
        "tmp-torn" => Some(Stage::TmpTorn),
        _ => None,
    }
}

fn bound_of(log: &BuiltMulti, seg: u64) -> &'static str {
    if seg < 2 {
        return "initial";
    }
    match log.spec.bounds[seg as usize - 2] {
        Bound::Rotate => "rotate",
        Bound::Reopen => "new-writer",
    }
}

/// Position class of a crash point (goes into signatures and histograms).
fn point_class(log: &BuiltMulti, p: &MPoint) -> String {
    match (&log.events[p.ev], p.stage) {
        (Ev::SegCreate { seg }, _) => format!("segment-created-empty:{}", bound_of(log, *seg)),
        (Ev::Append { seg, .. }, Stage::Byte(l)) => pos_class(&log.records[*seg as usize - 1], l).to_string(),
        (Ev::Append { .. }, _) => "boundary:commit-end".into(),
        (Ev::Ledger { .. }, Stage::TmpFull) => "ledger:temp-complete".into(),
        (Ev::Ledger { .. }, Stage::TmpTorn) => "ledger:temp-torn".into(),
        (Ev::Ledger { .. }, _) => "ledger:installed".into(),
        (Ev::Manifest { .. }, Stage::TmpFull) => "manifest:temp-complete".into(),
        (Ev::Manifest { .. }, Stage::TmpTorn) => "manifest:temp-torn".into(),
        (Ev::Manifest { .. }, _) => "manifest:installed".into(),
    }
}

fn case_json(log: &BuiltMulti, p: &MPoint) -> Value {
    json!({"layer": "store-mseg", "word": log.word(), "event": p.ev, "event_kind": format!("{:?}", log.events[p.ev]), "stage": stage_js(p.stage),
        "segment_lens": log.segments.iter().map(|s| s.len()).collect::<Vec<_>>()})
}

struct Cx<'a> {
    log: &'a BuiltMulti,
    s: MState,
    cls: String,
    case: Value,
}

impl<'a> Cx<'a> {
    fn new(log: &'a BuiltMulti, p: &MPoint) -> Self {
        Cx { log, s: log.state_at(p), cls: point_class(log, p), case: case_json(log, p) }
    }
    fn want(&self) -> &'a [WalCommittedTransaction] {
        &self.log.txs[..self.s.k]
    }
    fn last_lsn(&self) -> Option<Lsn> {
        self.want().last().map(|t| t.commit.last_lsn)
    }
    fn fail(&self, st: &mut Stats, step: &str, what: String, extra: Value) {
        st.viol(
            format!("store-mseg:{step}:{}:{what}", self.cls),
            json!({"case": self.case, "expected_k": self.s.k, "step": step, "observed": extra}),
        );
    }
}

/// Frames / commit markers / parse completeness over every segment file of an image.
fn census(img: &MDirImage) -> (usize, usize, bool) {
    let (mut frames, mut commits, mut whole) = (0, 0, true);
    for b in img.segs.values() {
        let (recs, stop) = frame::parse(b);
        frames += recs.iter().filter(|r| !r.is_commit()).count();
        commits += recs.iter().filter(|r| r.is_commit()).count();
        whole &= stop == b.len();
    }
    (frames, commits, whole)
}

/// Phase 1 for one crash image.  Returns the hash of the directory left by writable recovery.
pub fn check_point(dir: &Path, log: &BuiltMulti, p: &MPoint, st: &mut Stats) -> Option<[u8; 32]> {
    let cx = Cx::new(log, p);
    let (k, clean, want, last_lsn) = (cx.s.k, cx.s.clean, cx.want(), cx.last_lsn());
    let img = &cx.s.img;
    st.evals += 1;
    st.outcome(&format!("mseg.k={k}"));
    st.outcome(&format!("mseg.pos:{}", cx.cls));
    st.outcome(&format!("mseg.segment-files={}", img.segs.len()));
    let last_id = img.last_seg_id().unwrap_or(1);

    // (a) pure-bytes recovery of the segment the crash hit (or the newest one), both modes: it
    // must return exactly the committed transactions that live in that segment
    let probe_id = cx.s.torn_seg.unwrap_or(last_id);
    if let Some(bytes) = img.segs.get(&probe_id) {
        let want_seg: Vec<WalCommittedTransaction> =
            want.iter().zip(&log.tx_seg).filter(|(_, s)| **s == probe_id).map(|(t, _)| t.clone()).collect();
        let seg_clean = cx.s.torn_seg != Some(probe_id);
        for (mode, mname) in [(RecoveryAccessMode::ReadOnly, "ro"), (RecoveryAccessMode::Writable, "rw")] {
            let step = format!("bytes-{mname}");
            match mc::catch(|| recover_wal_segment_bytes(WalSegmentId::from_raw(probe_id), bytes, mode)) {
                Err(pm) => cx.fail(st, &step, "panic".into(), json!(pm)),
                Ok(Err(e)) => cx.fail(st, &step, format!("err:{}", ek(&e)), json!(format!("{e:?}"))),
                Ok(Ok(rec)) => {
                    if let Err(why) = same_history(&rec.report, &want_seg) {
                        cx.fail(st, &step, "history".into(), json!(why));
                    }
                    let want_tail = expected_tail(mode, seg_clean, want_seg.last().map(|t| t.commit.last_lsn));
                    if rec.report.tail_posture != want_tail {
                        cx.fail(st, &step, "tail-posture".into(),
                            json!({"got": format!("{:?}", rec.report.tail_posture), "want": format!("{want_tail:?}")}));
                    }
                }
            }
        }
    }

    // (b) materialise the crashed directory
    img.materialise_over(dir);

    // (c) read-only filesystem recovery over all segment files; must not touch the directory
    match mc::catch(|| recover_filesystem_store(dir, RecoveryAccessMode::ReadOnly)) {
        Err(pm) => cx.fail(st, "fs-ro", "panic".into(), json!(pm)),
        Ok(Err(e)) => cx.fail(st, "fs-ro", format!("err:{}", ek(&e)), json!(format!("{e:?}"))),
        Ok(Ok(rep)) => {
            if let Err(why) = same_history(&rep, want) {
                cx.fail(st, "fs-ro", "history".into(), json!(why));
            }
            let want_tail = expected_tail(RecoveryAccessMode::ReadOnly, clean, last_lsn);
            if rep.tail_posture != want_tail {
                cx.fail(st, "fs-ro", "tail-posture".into(),
                    json!({"got": format!("{:?}", rep.tail_posture), "want": format!("{want_tail:?}")}));
            }
            st.outcome(&format!("mseg.tail:{}", ek(&rep.tail_posture)));
        }
    }
    if MDirImage::read(dir) != *img {
        cx.fail(st, "fs-ro", "mutated-directory".into(), json!(null));
    }

    let interior_sample = match p.stage {
        Stage::Byte(l) => l % 16 == 0,
        _ => true,
    };
    // (d) manifest validation: Ok exactly when the installed manifest describes this very state
    if interior_sample {
        let files = img.segs.len() as u64;
        let meta = cx.s.manifest_v.map(|v| log.manifest_meta[v]);
        match mc::catch(|| validate_filesystem_manifest(dir)) {
            Err(pm) => cx.fail(st, "manifest", "panic".into(), json!(pm)),
            Ok(res) => {
                let want_ok = clean && k > 0 && meta == Some((k, files));
                match (&res, want_ok) {
                    (Ok(rep), true) => {
                        if rep.last_commit_digest != want.last().map(|t| t.commit.commit_digest) || rep.segment_count != files {
                            cx.fail(st, "manifest", "wrong-summary".into(), json!(null));
                        }
                        st.outcome("mseg.manifest:ok");
                    }
                    (Err(e), false) => {
                        let kind = ek(e);
                        let lawful = match e {
                            WalStoreError::MissingManifest => meta.is_none(),
                            WalStoreError::ManifestCannotValidateUncommittedTail => !clean,
                            WalStoreError::ManifestSegmentCountMismatch { .. } => meta.is_some_and(|m| m.1 != files),
                            WalStoreError::ManifestLastCommittedLsnMismatch { .. }
                            | WalStoreError::ManifestLastCommitDigestMismatch { .. } => meta.is_some_and(|m| m.0 != k),
                            _ => false,
                        };
                        if !lawful {
                            cx.fail(st, "manifest", format!("unexpected-err:{kind}"), json!(format!("{e:?}")));
                        }
                        st.outcome(&format!("mseg.manifest:{kind}"));
                    }
                    (Ok(_), false) => cx.fail(st, "manifest", "accepted-stale-or-tail".into(), json!(null)),
                    (Err(e), true) => cx.fail(st, "manifest", format!("rejected-current:{}", ek(e)), json!(format!("{e:?}"))),
                }
            }
        }
    }

    // (e) open the crashed directory as a store on its newest segment (ledger read + reconciled
    // against the commits of every segment)
    if interior_sample {
        match mc::catch(|| FilesystemWalStore::open(dir, WalSegmentId::from_raw(last_id)).map(|s| s.read_commits().len())) {
            Err(pm) => cx.fail(st, "open", "panic".into(), json!(pm)),
            Ok(Err(e)) => cx.fail(st, "open", format!("err:{}", ek(&e)), json!(format!("{e:?}"))),
            Ok(Ok(n)) => {
                if n != k {
                    cx.fail(st, "open", "commit-count".into(), json!(n));
                }
            }
        }
        if MDirImage::read(dir).segs != img.segs {
            cx.fail(st, "open", "segment-files-changed".into(), json!(null));
        }
    }

    // (f) writable recovery
    let mut out = None;
    match mc::catch(|| recover_filesystem_store(dir, RecoveryAccessMode::Writable)) {
        Err(pm) => cx.fail(st, "fs-rw", "panic".into(), json!(pm)),
        Ok(Err(e)) => cx.fail(st, "fs-rw", format!("err:{}", ek(&e)), json!(format!("{e:?}"))),
        Ok(Ok(rep)) => {
            if let Err(why) = same_history(&rep, want) {
                cx.fail(st, "fs-rw", "history".into(), json!(why));
            }
            let want_tail = expected_tail(RecoveryAccessMode::Writable, clean, last_lsn);
            if rep.tail_posture != want_tail {
                cx.fail(st, "fs-rw", "tail-posture".into(),
                    json!({"got": format!("{:?}", rep.tail_posture), "want": format!("{want_tail:?}")}));
            }
            // (g) nothing of transaction k+1 is left behind in ANY segment file
            let after = MDirImage::read(dir);
            let (frames, commits, whole) = census(&after);
            let want_frames: usize = want.iter().map(|t| t.frames.len()).sum();
            if !whole || frames != want_frames || commits != k {
                cx.fail(st, "fs-rw", "residue-after-truncation".into(),
                    json!({"frames": frames, "commits": commits, "whole": whole, "segment_files": after.segs.keys().collect::<Vec<_>>()}));
            }
            if after.ledger != img.ledger {
                cx.fail(st, "fs-rw", "ledger-changed-by-recovery".into(), json!(null));
            }
            if clean && after.segs != img.segs {
                cx.fail(st, "fs-rw", "clean-log-rewritten".into(), json!(null));
            }
            st.outcome(&format!("mseg.rw:segment-files {}→{}", img.segs.len(), after.segs.len()));
            out = Some(mc::h(format!("{after:?}").as_bytes()));
        }
    }
    let nontrivial = !matches!((&log.events[p.ev], p.stage), (Ev::Append { .. }, Stage::Done));
    if nontrivial {
        st.nontrivial.push(Report::key(format!("store-mseg:{}:{}:{:?}", log.word(), p.ev, p.stage).as_bytes()));
    }
    out
}

/// Phase 2, once per distinct recovered directory image: a second writable recovery is identical
/// and rewrites nothing; a writer continues on the newest remaining segment (fresh epoch, one
/// transaction), rotates to the next segment and appends a second one; the directory then recovers
/// to the k recovered transactions followed by exactly those two, twice; one more open+fence
/// changes nothing but the ledger.
pub fn continue_point(dir: &Path, log: &BuiltMulti, p: &MPoint, st: &mut Stats) {
    let cx = Cx::new(log, p);
    let (k, want, last_lsn) = (cx.s.k, cx.want(), cx.last_lsn());
    st.evals += 1;
    cx.s.img.materialise_over(dir);
    if recover_filesystem_store(dir, RecoveryAccessMode::Writable).is_err() {
        return; // already reported in phase 1
    }
    let after1 = MDirImage::read(dir);
    match mc::catch(|| recover_filesystem_store(dir, RecoveryAccessMode::Writable)) {
        Err(pm) => cx.fail(st, "fs-rw2", "panic".into(), json!(pm)),
        Ok(Err(e)) => cx.fail(st, "fs-rw2", format!("err:{}", ek(&e)), json!(format!("{e:?}"))),
        Ok(Ok(rep)) => {
            if let Err(why) = same_history(&rep, want) {
                cx.fail(st, "fs-rw2", "history".into(), json!(why));
            }
            if rep.tail_posture != RecoveryTailPosture::Clean {
                cx.fail(st, "fs-rw2", "tail-posture".into(), json!(format!("{:?}", rep.tail_posture)));
            }
            if MDirImage::read(dir) != after1 {
                cx.fail(st, "fs-rw2", "directory-changed-by-second-recovery".into(), json!(null));
            }
        }
    }
    let active = after1.last_seg_id().unwrap_or(1);
    // Set when the store hands the continuing writer an epoch whose first LSN is not the LSN right
    // after the recovered log (the writer appends there all the same, as the host does).
    let skipped = std::cell::Cell::new(None::<(u64, u64)>);
    let appended = mc::catch(|| -> Result<Vec<WalCommittedTransaction>, String> {
        let mut store = FilesystemWalStore::open(dir, WalSegmentId::from_raw(active)).map_err(|e| format!("open:{}", ek(&e)))?;
        let min = last_lsn.map_or(Lsn::from_raw(0), |l| Lsn::from_raw(l.as_u64() + 1));
        let epoch = store.acquire_fresh_writer_epoch(min).map_err(|e| format!("acquire:{}", ek(&e)))?;
        let mut chain = want.iter().fold(Chain::genesis(), |c, t| c.after(t));
        if k > 0 && epoch.started_at_lsn != chain.next_lsn {
            skipped.set(Some((epoch.started_at_lsn.as_u64(), chain.next_lsn.as_u64())));
        }
        chain.next_lsn = epoch.started_at_lsn;
        let t1 = build_tx_on(TxKind::Submit, epoch.epoch_id, &chain, &format!("appended:{}:{k}:a", log.word()), WalSegmentId::from_raw(active))?;
        store.append_transaction(t1.clone()).map_err(|e| format!("append:{}", ek(&e)))?;
        chain = chain.after(&t1);
        store.rotate_segment(epoch.epoch_id).map_err(|e| format!("rotate:{}", ek(&e)))?;
        let t2 = build_tx_on(TxKind::Tick, epoch.epoch_id, &chain, &format!("appended:{}:{k}:b", log.word()), WalSegmentId::from_raw(active + 1))?;
        store.append_transaction(t2.clone()).map_err(|e| format!("append-after-rotate:{}", ek(&e)))?;
        Ok(vec![t1, t2])
    });
    match appended {
        Err(pm) => cx.fail(st, "continue", "panic".into(), json!(pm)),
        Ok(Err(e)) => cx.fail(st, "continue", e.clone(), json!(e)),
        Ok(Ok(new)) => {
            st.outcome("mseg.continued:appended-k+1-rotated-appended-k+2");
            let mut want2 = want.to_vec();
            want2.extend(new);
            for round in 0..2 {
                match mc::catch(|| recover_filesystem_store(dir, RecoveryAccessMode::ReadOnly)) {
                    Err(pm) => cx.fail(st, "after-append", "panic".into(), json!(pm)),
                    Ok(Err(e)) if skipped.get().is_some() && format!("{e:?}").contains("LsnContinuityMismatch") => {
                        st.outcome("mseg.continued:fresh-epoch-skipped-an-lsn:log-unrecoverable");
                        st.viol(crate::refence::SIG_STORE.to_string(), json!({"case": cx.case, "acknowledged_before_crash": k,
                            "epoch_start_lsn_vs_log_end_plus_1": skipped.get(), "recovery_error": format!("{e:?}")}));
                        return;
                    }
                    Ok(Err(e)) => cx.fail(st, "after-append", format!("err:{}", ek(&e)), json!(format!("{e:?}"))),
                    Ok(Ok(rep)) => {
                        if let Err(why) = same_history(&rep, &want2) {
                            cx.fail(st, "after-append", "history".into(), json!({"round": round, "why": why}));
                        }
                        if rep.tail_posture != RecoveryTailPosture::Clean {
                            cx.fail(st, "after-append", "tail-posture".into(), json!(format!("{:?}", rep.tail_posture)));
                        }
                    }
                }
                if round == 0 {
                    let before = MDirImage::read(dir);
                    let r2 = mc::catch(|| -> Result<(), String> {
                        let mut s = FilesystemWalStore::open(dir, WalSegmentId::from_raw(active + 1)).map_err(|e| format!("{e:?}"))?;
                        s.acquire_fresh_writer_epoch(Lsn::from_raw(0)).map_err(|e| format!("{e:?}"))?;
                        Ok(())
                    });
                    match r2 {
                        Err(pm) => cx.fail(st, "reopen", "panic".into(), json!(pm)),
                        Ok(Err(e)) => cx.fail(st, "reopen", format!("err:{}", errkind(&e)), json!(e)),
                        Ok(Ok(())) => {
                            let after2 = MDirImage::read(dir);
                            if after2.segs != before.segs {
                                cx.fail(st, "reopen", "segment-changed".into(), json!(null));
                            }
                            if after2.ledger == before.ledger {
                                cx.fail(st, "reopen", "no-new-epoch-fenced".into(), json!(null));
                            }
                        }
                    }
                }
            }
        }
    }

    // Observation (not a verdict): writable recovery of a torn multi-segment log rewrites every
    // record into segment 1.  A writer that then re-opens the store under the segment id it was
    // appending to before the crash — `open` creates that file before looking at the others —
    // is recorded here together with what recovery says afterwards.
    let pre_crash_active = cx.s.img.last_seg_id().unwrap_or(1);
    if after1.segs.len() != cx.s.img.segs.len() {
        cx.s.img.materialise_over(dir);
        let _ = recover_filesystem_store(dir, RecoveryAccessMode::Writable);
        let opened = mc::catch(|| FilesystemWalStore::open(dir, WalSegmentId::from_raw(pre_crash_active)).map(|_| ()));
        let o = match &opened {
            Err(_) => "panic".to_string(),
            Ok(Err(e)) => format!("err:{}", ek(e)),
            Ok(Ok(())) => "ok".to_string(),
        };
        let then = match mc::catch(|| recover_filesystem_store(dir, RecoveryAccessMode::ReadOnly)) {
            Err(_) => "panic".to_string(),
            Ok(Err(e)) => format!("err:{}", ek(&e)),
            Ok(Ok(rep)) => format!("ok:{}-of-{k}", rep.transactions.len()),
        };
        st.outcome(&format!("mseg.observe:reopen-under-pre-crash-segment-id-after-collapsing-recovery:open={o}:then-recovery={then}"));
    }
}

/// Crash during the truncation performed by writable recovery of a torn MULTI-segment log.
///
/// Observed through the interposer: every segment file is unlinked, segment 1 is re-created and
/// re-filled, one fsync at the end.  Durable states inside that window: the first j segment files
/// gone (j = 1..S), then segment 1 present with any record-boundary prefix of the rewritten
/// content (byte prefixes of a rewritten file are enumerated by the single-segment phase).
pub fn crash_during_recovery(r: &Report, logs: &[BuiltMulti]) {
    let jobs: Vec<usize> = logs.iter().enumerate().filter(|(_, l)| l.nseg() >= 2 && l.n() >= 2 && l.tx_seg.last().is_some_and(|s| *s >= 2)).map(|(i, _)| i).collect();
    r.counter("mseg.cycle2.truncating_recoveries", jobs.len() as u64);
    let st = jobs
        .par_iter()
        .fold(Stats::default, |mut st, i| {
            let log = &logs[*i];
            // first crash: one byte into the last transaction (all earlier ones acknowledged)
            let Some(ev) = log.events.iter().rposition(|e| matches!(e, Ev::Append { .. })) else { return st };
            let Ev::Append { from, .. } = log.events[ev] else { return st };
            let p = MPoint { ev, stage: Stage::Byte(from + 1) };
            let s0 = log.state_at(&p);
            let (k, want) = (s0.k, &log.txs[..s0.k]);
            if k == 0 {
                return st;
            }
            let case = json!({"layer": "store-mseg-cycle2", "word": log.word(), "first_crash": case_json(log, &p), "acknowledged": k});
            with_workdir(|dir| {
                s0.img.materialise_over(dir);
                let (res, events) = walkit::syncspy::record(|| recover_filesystem_store(dir, RecoveryAccessMode::Writable));
                st.evals += 1;
                if res.is_err() {
                    return;
                }
                let after = MDirImage::read(dir);
                let rewritten = after.segs.get(&1).cloned().unwrap_or_default();
                let name = |e: &walkit::syncspy::SyncEvent| e.path.file_name().map(|n| n.to_string_lossy().to_string()).unwrap_or_default();
                let unlinked: Vec<String> = events.iter().filter(|e| e.unlink && name(e).starts_with("segment-")).map(|e| name(e)).collect();
                let final_sync = events.iter().rposition(|e| !e.unlink && !e.is_dir && name(e).starts_with("segment-") && e.len as usize == rewritten.len());
                let first_unlink = events.iter().position(|e| e.unlink && name(e).starts_with("segment-"));
                let trace: Vec<String> = events.iter().map(|e| format!("{}({},{})", if e.unlink { "unlink" } else if e.is_dir { "fsync-dir" } else { "fsync" }, name(e), e.len)).collect();
                if !matches!((first_unlink, final_sync), (Some(u), Some(f)) if u < f) {
                    st.outcome("mseg.cycle2:truncation-has-no-unlink-then-rewrite-window");
                    return;
                }
                st.outcome(&format!("mseg.cycle2:truncation-unlinks-{}-segment-files-then-rewrites-unsynced", unlinked.len()));
                let mut lost = 0u64;
                let mut first_lost: Option<String> = None;
                let mut eval = |st: &mut Stats, label: String, im: &MDirImage| {
                    im.materialise_over(dir);
                    st.evals += 1;
                    st.nontrivial.push(Report::key(format!("mseg-cycle2:{}:{label}", log.word()).as_bytes()));
                    let got = mc::catch(|| recover_filesystem_store(dir, RecoveryAccessMode::ReadOnly))
                        .map_err(|p| format!("panic:{p}"))
                        .and_then(|x| x.map_err(|e| ek(&e)))
                        .map(|rep| rep.transactions.iter().zip(want).take_while(|(g, w)| g.commit == w.commit && g.frames == w.frames).count());
                    match got {
                        Ok(n) if n >= k => st.outcome("mseg.cycle2:state-keeps-acknowledged-transactions"),
                        Ok(n) => {
                            st.outcome(&format!("mseg.cycle2:state-recovers-{n}-of-{k}"));
                            lost += 1;
                            first_lost.get_or_insert(label);
                        }
                        Err(e) => {
                            st.outcome(&format!("mseg.cycle2:state-err:{e}"));
                            lost += 1;
                            first_lost.get_or_insert(label);
                        }
                    }
                };
                // the unlinks, in the order the recovery issued them
                let mut im = s0.img.clone();
                for (j, n) in unlinked.iter().enumerate() {
                    let id: Option<u64> = n.strip_prefix("segment-").and_then(|x| x.strip_suffix(".ecwal")).and_then(|x| x.parse().ok());
                    if let Some(id) = id {
                        im.segs.remove(&id);
                    }
                    eval(&mut st, format!("after-{}-of-{}-unlinks", j + 1, unlinked.len()), &im);
                }
                // segment 1 re-created, filled up to a record boundary, nothing else left
                let (recs2, _) = frame::parse(&rewritten);
                let mut marks = vec![0usize];
                marks.extend(recs2.iter().map(|x| x.end).filter(|e| *e < rewritten.len()));
                for m in marks {
                    let mut im2 = im.clone();
                    im2.segs.insert(1, rewritten[..m].to_vec());
                    eval(&mut st, format!("rewritten-segment-1-prefix-{m}-of-{}", rewritten.len()), &im2);
                }
                if let Some(state) = first_lost {
                    st.viol(
                        "store:crash-during-recovery-truncation:acknowledged-transactions-lost".to_string(),
                        json!({"case": case, "observed_syscalls_of_recovery": trace, "rewritten_len": rewritten.len(),
                            "first_losing_state": state, "losing_states": lost, "segment_files_before": s0.img.segs.len()}),
                    );
                }
            });
            st
        })
        .reduce(Stats::default, Stats::merge);
    let oc = st.outcomes.clone();
    st.flush(r, "store.");
    r.guard("mseg.cycle2.multi_segment_truncating_recovery_observed", oc.keys().any(|k| k.starts_with("mseg.cycle2:truncation-")));
}

pub fn specs(quick: bool) -> Vec<MSpec> {
    if quick {
        walkit::mseg::specs_quick()
    } else {
        walkit::mseg::specs_thorough()
    }
}

pub fn build_all(scratch: &Path, quick: bool) -> Result<Vec<BuiltMulti>, String> {
    specs(quick)
        .par_iter()
        .map(|s| {
            let d = fresh_dir(scratch, "mbuild");
            let r = build_multi(&d, s, 0);
            let _ = std::fs::remove_dir_all(&d);
            r.map_err(|e| format!("{}: {e}", s.word()))
        })
        .collect()
}

pub fn run(r: &Report) -> Vec<BuiltMulti> {
    let scratch = mc::scratch_root();
    let logs = match build_all(&scratch, r.quick()) {
        Ok(l) => l,
        Err(e) if e.contains("ACK-VIOLATION") => {
            r.violation(
                "store-mseg:ack-not-durable:acknowledged-transaction-not-recoverable-from-live-directory",
                json!({"case": {"layer": "store-mseg-ack"}, "observed": e}),
            );
            return Vec::new();
        }
        Err(e) => {
            r.machinery_error(&format!("multi-segment workload build failed: {e}"));
            return Vec::new();
        }
    };
    r.counter("mseg.workloads", logs.len() as u64);
    r.counter("mseg.workloads_with_3_segments", logs.iter().filter(|l| l.nseg() >= 3).count() as u64);
    r.counter("mseg.segment_files_total", logs.iter().map(|l| l.nseg() as u64).sum());
    r.counter("mseg.segment_bytes_total", logs.iter().map(|l| l.segments.iter().map(|s| s.len() as u64).sum::<u64>()).sum());
    r.note("mseg.workload_words", json!(logs.iter().map(|l| l.word()).collect::<Vec<_>>()));
    r.guard("mseg.multi_segment_log_built", logs.iter().any(|l| l.nseg() >= 2 && l.segments.iter().filter(|s| !s.is_empty()).count() >= 2));
    r.guard("mseg.three_segment_log_built", logs.iter().any(|l| l.segments.iter().filter(|s| !s.is_empty()).count() >= 3));
    r.guard("mseg.both_boundary_kinds_built", logs.iter().any(|l| l.spec.bounds.contains(&Bound::Rotate)) && logs.iter().any(|l| l.spec.bounds.contains(&Bound::Reopen)));
    r.guard("mseg.new_writer_segments_have_distinct_epochs", logs.iter().filter(|l| l.spec.bounds.contains(&Bound::Reopen)).all(|l| {
        l.spec.bounds.iter().enumerate().all(|(i, b)| (*b == Bound::Reopen) == (l.seg_epoch[i] != l.seg_epoch[i + 1]))
    }));

    // acknowledged ⇒ the commit marker lies inside the fsynced length of ITS segment file, and the
    // directory entry of that segment file was fsynced when the call that created it returned
    for log in &logs {
        for e in &log.events {
            if let Ev::Append { seg, tx, to, .. } = e {
                r.eval(1);
                let which = if *seg == 1 { "first-segment" } else { "later-segment" };
                match log.synced_at_ack[*tx] {
                    Some(s) if s as usize >= *to => r.outcome(&format!("store.mseg.ack:commit-marker-synced-before-return:{which}")),
                    other => r.violation(
                        &format!("store-mseg:ack-not-durable:commit-marker-not-covered-by-fsync-when-append_transaction-returned:{which}"),
                        json!({"case": {"layer": "store-mseg-ack", "word": log.word(), "tx": tx, "segment": seg}, "synced_len": other, "needed": to}),
                    ),
                }
            }
        }
        for (i, ok) in log.seg_dir_synced.iter().enumerate() {
            r.eval(1);
            let how = bound_of(log, i as u64 + 1);
            if *ok {
                r.outcome(&format!("store.mseg.segment-creation:file-and-directory-synced-before-return:{how}"));
            } else {
                r.violation(
                    &format!("store-mseg:segment-creation:new-segment-file-or-its-directory-entry-not-synced-when-{how}-returned"),
                    json!({"case": {"layer": "store-mseg-ack", "word": log.word(), "segment": i + 1}}),
                );
            }
        }
    }

    let mut points: Vec<(usize, MPoint)> = Vec::new();
    for (i, log) in logs.iter().enumerate() {
        if let Some(first) = log.first_boundary_event() {
            for p in log.points_from(first) {
                points.push((i, p));
            }
        }
    }
    r.counter("mseg.crash_points", points.len() as u64);

    let capped = std::sync::atomic::AtomicBool::new(false);
    let (mut stats, images) = points
        .par_iter()
        .enumerate()
        .fold(
            || (Stats::default(), Vec::<([u8; 32], usize)>::new()),
            |(mut st, mut imgs), (i, (li, p))| {
                if r.over_budget_frac(0.55) {
                    capped.store(true, std::sync::atomic::Ordering::Relaxed);
                    st.count("mseg.crash_points_skipped_by_cap", 1);
                    return (st, imgs);
                }
                if let Some(h) = with_workdir(|d| check_point(d, &logs[*li], p, &mut st)) {
                    imgs.push((h, i));
                }
                (st, imgs)
            },
        )
        .reduce(
            || (Stats::default(), Vec::new()),
            |(a, mut ia), (b, ib)| {
                ia.extend(ib);
                (a.merge(b), ia)
            },
        );
    if capped.load(std::sync::atomic::Ordering::Relaxed) {
        r.cap_hit("multi-segment store layer: wall cap reached before all crash points were evaluated");
    }
    let mut reps: std::collections::BTreeMap<[u8; 32], usize> = std::collections::BTreeMap::new();
    for (h, i) in images {
        let e = reps.entry(h).or_insert(i);
        if i < *e {
            *e = i;
        }
    }
    let rep_points: Vec<usize> = reps.values().copied().collect();
    stats.count("mseg.recovered_images_distinct", rep_points.len() as u64);
    let st2 = rep_points
        .par_iter()
        .fold(Stats::default, |mut st, i| {
            let (li, p) = &points[*i];
            with_workdir(|d| continue_point(d, &logs[*li], p, &mut st));
            st
        })
        .reduce(Stats::default, Stats::merge);
    let stats = stats.merge(st2);
    let oc = stats.outcomes.clone();
    stats.flush(r, "store.");
    let seen = |k: &str| oc.get(k).copied().unwrap_or(0) > 0;
    let seen_p = |p: &str| oc.iter().any(|(k, v)| k.starts_with(p) && *v > 0);
    r.guard("mseg.crash_points_with_2_and_3_segment_files", seen("mseg.segment-files=2") && seen("mseg.segment-files=3"));
    r.guard("mseg.segment_creation_states_seen", seen("mseg.pos:segment-created-empty:rotate") && seen("mseg.pos:segment-created-empty:new-writer"));
    r.guard("mseg.crash_points_inside_records_of_later_segments", seen("mseg.pos:in-frame:payload") && seen("mseg.pos:in-commit:payload") && seen("mseg.pos:boundary:frame-end"));
    r.guard("mseg.ledger_and_manifest_stages_seen", seen("mseg.pos:ledger:temp-complete") && seen("mseg.pos:ledger:temp-torn") && seen("mseg.pos:manifest:temp-complete") && seen("mseg.pos:manifest:installed"));
    r.guard("mseg.torn_tail_in_later_segment_truncated", seen_p("mseg.tail:WouldTruncateAfter"));
    r.guard("mseg.writable_recovery_collapsed_segment_files", oc.keys().any(|k| {
        k.strip_prefix("mseg.rw:segment-files ").and_then(|x| x.split_once('→')).is_some_and(|(a, b)| a != b)
    }));
    r.guard("mseg.continuations_appended_and_rotated", seen("mseg.continued:appended-k+1-rotated-appended-k+2"));
    r.guard("mseg.manifest_ok_and_count_mismatch_seen", seen("mseg.manifest:ok") && seen("mseg.manifest:ManifestSegmentCountMismatch"));
    if let Some(l) = logs.iter().find(|l| l.nseg() == 3 && l.n() >= 3) {
        r.sample_force(json!({"layer": "store-mseg", "workload": l.word(), "segment_lens": l.segments.iter().map(|s| s.len()).collect::<Vec<_>>(),
            "tx_segment": l.tx_seg, "events": l.events.iter().map(|e| format!("{e:?}")).collect::<Vec<_>>(),
            "ledger_versions": l.ledgers.iter().map(|b| b.len()).collect::<Vec<_>>(), "synced_len_at_ack": l.synced_at_ack,
            "segment_dir_synced_at_creation": l.seg_dir_synced}));
    }
    let obs: Vec<&String> = oc.keys().filter(|k| k.starts_with("mseg.observe:")).collect();
    if !obs.is_empty() {
        r.note("mseg.observation_reopen_under_pre_crash_segment_id", json!(obs));
    }
    logs
}

/// Replay one multi-segment crash point from a violation's `detail.case`.
pub fn replay(case: &Value, st: &mut Stats) -> Result<(), String> {
    let spec = MSpec::parse(case["word"].as_str().ok_or("word")?).ok_or("bad word")?;
    let d = fresh_dir(&mc::scratch_root(), "replay-mbuild");
    let log = build_multi(&d, &spec, 0)?;
    let p = MPoint { ev: case["event"].as_u64().ok_or("event")? as usize, stage: stage_from_js(&case["stage"]).ok_or("stage")? };
    if p.ev >= log.events.len() {
        return Err("event index out of range".into());
    }
    with_workdir(|d| {
        check_point(d, &log, &p, st);
        continue_point(d, &log, &p, st);
    });
    let _ = seg_rel(1);
    Ok(())
}
