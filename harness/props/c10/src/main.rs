//! Property check C10 (see /verif/DESIGN.md §4).
use mc::{Level, Report};

fn main() {
    let r = Report::new("C10", Level::Exploration);
    r.machinery_error("check not implemented yet");
    r.finish();
}
