//! Property check C10 — what was acknowledged survives any crash; what was not is invisible.
mod fault_layer;
mod host_layer;
mod host_mseg;
mod mseg_layer;
mod probe;
mod refence;
mod store_layer;
mod util;

use mc::{json, Level, Report};

fn main() {
    let r = Report::new("C10", Level::FaultEnumeration);
    mc::quiet_panics();
    walkit::syncspy::init();
    if let Err(e) = walkit::syncspy::selftest(&mc::scratch_root()) {
        r.machinery_error(&e);
        r.finish();
    }
    r.rule("a case is one crash image: (workload, byte length L of the segment being appended to, coexisting ledger/manifest/temp-file versions); \
            distinct_nontrivial counts images whose L is not a transaction boundary (a torn record or an uncommitted tail must be discarded). \
            Multi-segment workloads (2-3 segment files made by rotate_segment and by a new writer opening the next segment id under a fresh epoch): \
            the durable mutations are recorded in program order and every stage of every mutation from the creation of segment 2 on is one crash image \
            (new segment file absent / created empty, every byte length of the newest segment with all earlier segments complete, every temp+rename stage of every \
            ledger and manifest publication); there distinct_nontrivial counts every image except those that end exactly at a commit marker");
    r.assume("crash model = pure prefix truncation of the active (newest) segment plus the temp+rename stages of ledger and manifest; earlier segments are complete \
              (every transaction in them was acknowledged after an fsync of that file, which the interposer checks); \
              unsynced frame bytes are assumed to reach the disk in order (no block reordering)");
    r.assume("TrustedRuntimeHost always appends to segment 1 and has no rotation call: multi-segment WRITE histories exist at the store layer only; at the host layer the one reachable \
              multi-file layout (host log in segment 1 + an empty segment 2 created by a store opened on the next id) is enumerated with the host as reader and continuing writer; \
              the continuing store-level writer of a multi-segment crash image re-opens the newest segment file that is left after recovery");
    r.assume("fsync coverage is observed by a link-time interposer of fsync/fdatasync in the harness binary (raw syscall forwarded)");

    if let Some(path) = r.replay.clone() {
        let txt = std::fs::read_to_string(&path).unwrap_or_default();
        let v: mc::Value = serde_json::from_str(&txt).unwrap_or(json!(null));
        let case = v["detail"]["case"].clone();
        let mut st = util::Stats::default();
        let res = match case["layer"].as_str() {
            Some("store") => store_layer::replay(&case, &mut st),
            Some("store-cycle2") => {
                let w: Vec<walkit::store::TxKind> = case["word"].as_str().unwrap_or("").chars()
                    .filter_map(|c| walkit::store::KINDS.iter().copied().find(|k| k.letter() == c)).collect();
                let d = walkit::fresh_dir(&mc::scratch_root(), "replay-cycle2");
                walkit::store::build_log(&d, &w, 0, true).map(|log| store_layer::crash_during_recovery(&r, &[log]))
            }
            Some("store-mseg") => mseg_layer::replay(&case, &mut st),
            Some("store-refence") | Some("host-refence") => refence::replay(&case, &mut st),
            Some("store-mseg-cycle2") => {
                walkit::mseg::MSpec::parse(case["word"].as_str().unwrap_or("")).ok_or("bad word".to_string()).and_then(|spec| {
                    let d = walkit::fresh_dir(&mc::scratch_root(), "replay-mcycle2");
                    walkit::mseg::build_multi(&d, &spec, 0).map(|log| mseg_layer::crash_during_recovery(&r, &[log]))
                })
            }
            Some("host-mseg") | Some("host-mseg-continue") => host_mseg::replay(&case, &mut st),
            Some("host") | Some("host-continue") => host_layer::replay(&case, &mut st),
            Some("store-fault") | Some("host-fault") => fault_layer::replay(&case, &mut st),
            other => Err(format!("replay of layer {other:?} not supported")),
        };
        if let Err(e) = res {
            r.machinery_error(&format!("replay: {e}"));
        }
        for v in &st.viols {
            println!("replay: {} {}", v.sig, v.detail);
        }
        r.sample(json!({"replayed": case}));
        r.nontrivial(b"replay-a");
        r.nontrivial(b"replay-b");
        st.flush(&r, "replay.");
        r.finish();
    }

    if std::env::args().any(|a| a == "--probe-new-writer-without-truncation") {
        probe::new_writer_without_truncation();
        std::process::exit(0);
    }
    if std::env::args().any(|a| a == "--probe-epoch-gap") {
        probe::epoch_gap();
        std::process::exit(0);
    }
    if std::env::args().any(|a| a == "--probe") {
        probe::run();
        std::process::exit(0);
    }
    let only = std::env::var("C10_ONLY").unwrap_or_default();
    if only.is_empty() || only.contains("store") {
        let logs = store_layer::run(&r);
        store_layer::crash_during_recovery(&r, &logs);
    }
    if only.is_empty() || only.contains("mseg") {
        let mlogs = mseg_layer::run(&r);
        mseg_layer::crash_during_recovery(&r, &mlogs);
        refence::run(&r, &mlogs);
    }
    let host = if only.is_empty() || only.contains("host") || only.contains("fault") {
        host_layer::run(&r)
    } else {
        None
    };
    if only.is_empty() || only.contains("host") {
        host_mseg::run(&r, host.as_ref());
    }
    if only.is_empty() || only.contains("fault") {
        fault_layer::run(&r, host.as_ref());
    }
    r.finish();
}
