//! Property check C10 — what was acknowledged survives any crash; what was not is invisible.
mod fault_layer;
mod host_layer;
mod probe;
mod store_layer;
mod util;

use mc::{json, Level, Report};

fn main() {
    let r = Report::new("C10", Level::FaultEnumeration);
    mc::quiet_panics();
    walkit::syncspy::init();
    if let Err(e) = walkit::syncspy::selftest(&mc::scratch_root()) {
        r.machinery_error(&e);
        r.finish();
    }
    r.rule("a case is one crash image: (workload, byte length L of the segment, coexisting ledger/manifest/temp-file versions); \
            distinct_nontrivial counts images whose L is not a transaction boundary (a torn record or an uncommitted tail must be discarded)");
    r.assume("crash model = pure prefix truncation of the single active segment plus the temp+rename stages of ledger and manifest; \
              unsynced frame bytes are assumed to reach the disk in order (no block reordering)");
    r.assume("fsync coverage is observed by a link-time interposer of fsync/fdatasync in the harness binary (raw syscall forwarded)");

    if let Some(path) = r.replay.clone() {
        let txt = std::fs::read_to_string(&path).unwrap_or_default();
        let v: mc::Value = serde_json::from_str(&txt).unwrap_or(json!(null));
        let case = v["detail"]["case"].clone();
        let mut st = util::Stats::default();
        let res = match case["layer"].as_str() {
            Some("store") => store_layer::replay(&case, &mut st),
            Some("store-cycle2") => {
                let w: Vec<walkit::store::TxKind> = case["word"].as_str().unwrap_or("").chars()
                    .filter_map(|c| walkit::store::KINDS.iter().copied().find(|k| k.letter() == c)).collect();
                let d = walkit::fresh_dir(&mc::scratch_root(), "replay-cycle2");
                walkit::store::build_log(&d, &w, 0, true).map(|log| store_layer::crash_during_recovery(&r, &[log]))
            }
            Some("host") | Some("host-continue") => host_layer::replay(&case, &mut st),
            Some("store-fault") | Some("host-fault") => fault_layer::replay(&case, &mut st),
            other => Err(format!("replay of layer {other:?} not supported")),
        };
        if let Err(e) = res {
            r.machinery_error(&format!("replay: {e}"));
        }
        for v in &st.viols {
            println!("replay: {} {}", v.sig, v.detail);
        }
        r.sample(json!({"replayed": case}));
        r.nontrivial(b"replay-a");
        r.nontrivial(b"replay-b");
        st.flush(&r, "replay.");
        r.finish();
    }

    if std::env::args().any(|a| a == "--probe") {
        probe::run();
        std::process::exit(0);
    }
    let only = std::env::var("C10_ONLY").unwrap_or_default();
    if only.is_empty() || only.contains("store") {
        let logs = store_layer::run(&r);
        store_layer::crash_during_recovery(&r, &logs);
    }
    let host = if only.is_empty() || only.contains("host") || only.contains("fault") {
        host_layer::run(&r)
    } else {
        None
    };
    if only.is_empty() || only.contains("fault") {
        fault_layer::run(&r, host.as_ref());
    }
    r.finish();
}
