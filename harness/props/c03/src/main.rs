//! Property check C03 (see /verif/DESIGN.md §4): admission is the canonical greedy independent
//! set with exact blocking witnesses.
//!
//! Part A (`sort`)     — drain order: radix sort, comparison sort and `drain()` on the real pending
//!                       queue vs a `BTreeMap<(scope, rule), payload>` reference, on adversarial keys.
//! Part B (`reserve`)  — `RadixScheduler::reserve`, `LegacyScheduler::reserve` under partition-mask
//!                       families, and `footprints_conflict`, vs the reference greedy admission on
//!                       every pair / triple of a small resource universe over two instances.
//! Part C (`receipts`) — `Engine::commit_with_receipt` for both scheduler kinds: entry order,
//!                       dispositions, exact `blocked_by`, `try_from_retained_parts`.
mod model;
mod receipts;
mod reserve;
mod sort;

use mc::{json, Level, Report};

fn main() {
    // The subject's radix sort allocates (and frees) a 256 KiB histogram per call; glibc serves
    // that with mmap/munmap, which serialises 16 worker threads on page faults.  Keep such blocks
    // on the heap instead.  Harness-side allocator tuning only; the code under test is unchanged.
    unsafe {
        libc::mallopt(libc::M_MMAP_THRESHOLD, 64 << 20);
        libc::mallopt(libc::M_TRIM_THRESHOLD, 512 << 20);
    }
    let r = Report::new("C03", Level::Exploration);
    mc::quiet_panics();
    r.rule(
        "a case is one enqueue sequence (sort), one footprint sequence (reserve) or one apply \
         sequence on a fresh engine (receipts); every case of the stated finite spaces is executed \
         on the real code. distinct_nontrivial counts distinct cases in which the mechanism had to \
         act: sort sequences whose enqueue order differs from the sorted order or that re-enqueue \
         a key (last-wins), threshold batches with the 3-key core, footprint sequences with at \
         least one rejection, engine ticks with at least one rejected candidate. (Thorough: the \
         6561x6561 pair sweep and the 81^3/64^3 triple sweeps are counted in counters only, not \
         in the distinct set, to bound memory.)",
    );
    r.assume("the reference model (model.rs: conflict, ref_admission; sort.rs: BTreeMap order) is trusted; it is written from the property statement");
    r.assume("sort keys outside the digit alphabet {0,1,0xFFFF} per 16-bit digit (at most two non-zero scope digits, plus the per-pass family with all-0 / all-0xFFFF context) are not explored; batches above 5000 entries are not explored");
    r.assume("resource universe: one node, one edge, one attachment slot and one boundary port per instance, two instances (same local ids in both); larger footprints are not explored");
    r.assume("engine part: 8 rules x 2 scope nodes in the root instance, no-op executors; scope hashes are BLAKE3 outputs, so the engine cannot present adversarial sort keys (that is what part A's hook is for)");
    r.assume("LegacyScheduler is compared only under partition masks verified sound on every enumerated pair; factor_mask = 0 is shown to diverge and is not counted as a violation");

    if let Some(path) = r.replay.clone() {
        let ok = std::fs::read_to_string(&path)
            .ok()
            .and_then(|t| serde_json::from_str::<serde_json::Value>(&t).ok())
            .map(|v| {
                let case = v["detail"]["case"].clone();
                sort::replay(&r, &case) || reserve::replay(&r, &case) || receipts::replay(&r, &case)
            })
            .unwrap_or(false);
        if !ok {
            r.machinery_error(&format!("cannot replay {}", path.display()));
        }
        r.nontrivial(b"replay-1");
        r.nontrivial(b"replay-2");
        r.sample(json!({"replay": path.display().to_string()}));
        r.finish();
    }

    let t0 = r.elapsed_s();
    sort::run(&r);
    let t1 = r.elapsed_s();
    reserve::run(&r);
    let t2 = r.elapsed_s();
    receipts::run(&r);
    let t3 = r.elapsed_s();
    r.note(
        "phase_wall_s",
        json!({"A_sort": ((t1 - t0) * 10.0).round() / 10.0, "B_reserve": ((t2 - t1) * 10.0).round() / 10.0,
               "C_receipts": ((t3 - t2) * 10.0).round() / 10.0}),
    );
    r.finish();
}
