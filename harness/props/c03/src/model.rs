//! Reference model for C03: abstract footprints, the conflict predicate and greedy admission,
//! written from the property statement (not from scheduler.rs), plus the translation of an
//! abstract footprint into a real `warp_core::Footprint`.

use mc::{json, Value};
use std::sync::OnceLock;
use warp_core::{
    make_edge_id, make_node_id, make_warp_id, pack_port_key, AttachmentKey, EdgeId, EdgeKey,
    Footprint, NodeId, NodeKey, WarpId,
};

/// Resource class of a claim.
#[derive(Clone, Copy, PartialEq, Eq, PartialOrd, Ord, Debug)]
pub enum Class {
    Node,
    Edge,
    /// α attachment slot of node `idx`
    Att,
    /// β attachment slot of EDGE `idx` (edge-owned; a different resource from every node slot even
    /// when the raw ids coincide)
    AttEdge,
}

impl Class {
    pub fn name(self) -> &'static str {
        match self {
            Class::Node => "node",
            Class::Edge => "edge",
            Class::Att => "att",
            Class::AttEdge => "eatt",
        }
    }
}

/// One claim on a node/edge/attachment: which instance, class, index, and read and/or write.
#[derive(Clone, Copy, PartialEq, Eq, PartialOrd, Ord, Debug)]
pub struct Claim {
    pub inst: u8,
    pub class: Class,
    pub idx: u8,
    pub r: bool,
    pub w: bool,
}

/// One claim on a boundary port (in and/or out).
#[derive(Clone, Copy, PartialEq, Eq, PartialOrd, Ord, Debug)]
pub struct PortClaim {
    pub inst: u8,
    pub id: u8,
    pub inp: bool,
    pub out: bool,
}

/// Abstract footprint: what the candidate declares, nothing else.
#[derive(Clone, PartialEq, Eq, PartialOrd, Ord, Debug, Default)]
pub struct AbsFp {
    pub claims: Vec<Claim>,
    pub ports: Vec<PortClaim>,
}

fn acc(r: bool, w: bool) -> &'static str {
    match (r, w) {
        (true, true) => "RW",
        (true, false) => "R",
        (false, true) => "W",
        (false, false) => "-",
    }
}
fn dir(i: bool, o: bool) -> &'static str {
    match (i, o) {
        (true, true) => "inout",
        (true, false) => "in",
        (false, true) => "out",
        (false, false) => "-",
    }
}

impl AbsFp {
    /// Compact textual form, e.g. `["i0:node0:W","i0:port0:in"]` (also the replay format).
    pub fn to_json(&self) -> Value {
        let mut v: Vec<String> = Vec::new();
        for c in &self.claims {
            v.push(format!("i{}:{}{}:{}", c.inst, c.class.name(), c.idx, acc(c.r, c.w)));
        }
        for p in &self.ports {
            v.push(format!("i{}:port{}:{}", p.inst, p.id, dir(p.inp, p.out)));
        }
        json!(v)
    }

    pub fn from_json(v: &Value) -> Option<AbsFp> {
        let mut f = AbsFp::default();
        for s in v.as_array()? {
            let s = s.as_str()?;
            let parts: Vec<&str> = s.split(':').collect();
            if parts.len() != 3 {
                return None;
            }
            let inst: u8 = parts[0].strip_prefix('i')?.parse().ok()?;
            let (cls, idx) = if let Some(x) = parts[1].strip_prefix("node") {
                (Some(Class::Node), x)
            } else if let Some(x) = parts[1].strip_prefix("eatt") {
                (Some(Class::AttEdge), x)
            } else if let Some(x) = parts[1].strip_prefix("edge") {
                (Some(Class::Edge), x)
            } else if let Some(x) = parts[1].strip_prefix("att") {
                (Some(Class::Att), x)
            } else if let Some(x) = parts[1].strip_prefix("port") {
                (None, x)
            } else {
                return None;
            };
            let idx: u8 = idx.parse().ok()?;
            match cls {
                Some(class) => f.claims.push(Claim {
                    inst,
                    class,
                    idx,
                    r: parts[2].contains('R'),
                    w: parts[2].contains('W'),
                }),
                None => f.ports.push(PortClaim {
                    inst,
                    id: idx,
                    inp: parts[2].starts_with("in"),
                    out: parts[2].ends_with("out"),
                }),
            }
        }
        Some(f)
    }

    pub fn key_bytes(&self, out: &mut Vec<u8>) {
        for c in &self.claims {
            out.extend_from_slice(&[1, c.inst, c.class as u8, c.idx, c.r as u8, c.w as u8]);
        }
        for p in &self.ports {
            out.extend_from_slice(&[2, p.inst, p.id, p.inp as u8, p.out as u8]);
        }
        out.push(0xff);
    }

    pub fn instances(&self) -> u64 {
        let mut m = 0u64;
        for c in &self.claims {
            if c.r || c.w {
                m |= 1 << c.inst;
            }
        }
        for p in &self.ports {
            if p.inp || p.out {
                m |= 1 << p.inst;
            }
        }
        m
    }
}

/// THE conflict predicate of the property statement: a write overlapping another's read or write
/// of the same node, edge or attachment, or any shared boundary port — always within one instance.
pub fn conflict(a: &AbsFp, b: &AbsFp) -> bool {
    for x in &a.claims {
        for y in &b.claims {
            if x.inst == y.inst && x.class == y.class && x.idx == y.idx {
                let xa = x.r || x.w;
                let ya = y.r || y.w;
                if (x.w && ya) || (y.w && xa) {
                    return true;
                }
            }
        }
    }
    for p in &a.ports {
        for q in &b.ports {
            if p.inst == q.inst && p.id == q.id && (p.inp || p.out) && (q.inp || q.out) {
                return true;
            }
        }
    }
    false
}

/// Human-readable kinds of conflict between an earlier and a later candidate (for signatures).
pub fn conflict_kinds(earlier: &AbsFp, later: &AbsFp) -> Vec<String> {
    let mut v = Vec::new();
    for x in &earlier.claims {
        for y in &later.claims {
            if x.inst == y.inst && x.class == y.class && x.idx == y.idx {
                let xa = x.r || x.w;
                let ya = y.r || y.w;
                if (x.w && ya) || (y.w && xa) {
                    v.push(format!("{}:{}>{}", x.class.name(), acc(x.r, x.w), acc(y.r, y.w)));
                }
            }
        }
    }
    for p in &earlier.ports {
        for q in &later.ports {
            if p.inst == q.inst && p.id == q.id && (p.inp || p.out) && (q.inp || q.out) {
                v.push(format!("port:{}>{}", dir(p.inp, p.out), dir(q.inp, q.out)));
            }
        }
    }
    v.sort();
    v.dedup();
    v
}

/// Greedy admission over the given order: accepted iff no conflict with a previously ACCEPTED
/// candidate; for a rejected candidate, the blockers are exactly those earlier accepted ones.
pub fn ref_admission(seq: &[&AbsFp]) -> (Vec<bool>, Vec<Vec<u32>>) {
    let mut accepted: Vec<usize> = Vec::new();
    let mut dec = Vec::with_capacity(seq.len());
    let mut blk = Vec::with_capacity(seq.len());
    for (i, c) in seq.iter().enumerate() {
        let b: Vec<u32> = accepted
            .iter()
            .filter(|&&j| conflict(seq[j], c))
            .map(|&j| j as u32)
            .collect();
        if b.is_empty() {
            accepted.push(i);
            dec.push(true);
        } else {
            dec.push(false);
        }
        blk.push(b);
    }
    (dec, blk)
}

// ------------------------------------------------------------------------------------------
// Real identifiers and the abstract -> real translation
// ------------------------------------------------------------------------------------------

pub struct Ids {
    pub warps: [WarpId; 2],
    pub nodes: [NodeId; 4],
    pub edges: [EdgeId; 2],
    pub root: NodeId,
}

/// Identifier table.  Both instances deliberately use the SAME local node/edge ids, so only the
/// warp id separates them ("always within one instance").  Node index 2,3 are the scope nodes of
/// the engine part, 0,1 the shared resource nodes X,Y.
pub fn ids() -> &'static Ids {
    static IDS: OnceLock<Ids> = OnceLock::new();
    IDS.get_or_init(|| Ids {
        warps: [make_warp_id("root"), make_warp_id("c03/w1")],
        nodes: [
            make_node_id("c03/X"),
            make_node_id("c03/Y"),
            make_node_id("c03/S0"),
            make_node_id("c03/S1"),
        ],
        // E1 deliberately has the SAME raw 32 bytes as node X: a node claim, an edge claim and the
        // two attachment owners built on that id are four different resources
        edges: [make_edge_id("c03/E0"), EdgeId(make_node_id("c03/X").0)],
        root: make_node_id("root"),
    })
}

/// Partition-mask assignments for the legacy scheduler's prefilter.
#[derive(Clone, Copy, PartialEq, Eq, Debug)]
pub enum Mask {
    /// every footprint gets all ones (sound: prefilter never fires)
    All,
    /// one bit per instance touched
    PerInstance,
    /// one bit per resource class touched (node/edge/attachment/port), shared across instances
    PerClass,
    /// one bit per (instance, class) touched
    PerInstClass,
    /// UNSOUND on purpose: the `factor_mask = 0` placeholder
    Zero,
}

pub const SOUND_MASKS: [Mask; 4] = [Mask::All, Mask::PerInstance, Mask::PerClass, Mask::PerInstClass];
pub const ALL_MASKS: [Mask; 5] = [
    Mask::All,
    Mask::PerInstance,
    Mask::PerClass,
    Mask::PerInstClass,
    Mask::Zero,
];

impl Mask {
    pub fn name(self) -> &'static str {
        match self {
            Mask::All => "all-ones",
            Mask::PerInstance => "bit-per-instance",
            Mask::PerClass => "bit-per-class",
            Mask::PerInstClass => "bit-per-instance-and-class",
            Mask::Zero => "zero(unsound)",
        }
    }
    pub fn of(self, f: &AbsFp) -> u64 {
        match self {
            Mask::All => u64::MAX,
            Mask::Zero => 0,
            Mask::PerInstance => f.instances(),
            Mask::PerClass | Mask::PerInstClass => {
                let shift = |inst: u8| if self == Mask::PerClass { 0 } else { 4 * inst as u32 };
                let mut m = 0u64;
                for c in &f.claims {
                    if c.r || c.w {
                        m |= 1 << (shift(c.inst) + c.class as u32);
                    }
                }
                for p in &f.ports {
                    if p.inp || p.out {
                        m |= 1 << (shift(p.inst) + 3);
                    }
                }
                m
            }
        }
    }
}

/// Build the real footprint for an abstract one.
pub fn build_real(f: &AbsFp, mask: Mask) -> Footprint {
    let t = ids();
    let mut fp = Footprint {
        factor_mask: mask.of(f),
        ..Footprint::default()
    };
    for c in &f.claims {
        let warp_id = t.warps[c.inst as usize];
        match c.class {
            Class::Node => {
                let k = NodeKey {
                    warp_id,
                    local_id: t.nodes[c.idx as usize],
                };
                if c.r {
                    fp.n_read.insert(k);
                }
                if c.w {
                    fp.n_write.insert(k);
                }
            }
            Class::Edge => {
                let k = EdgeKey {
                    warp_id,
                    local_id: t.edges[c.idx as usize],
                };
                if c.r {
                    fp.e_read.insert(k);
                }
                if c.w {
                    fp.e_write.insert(k);
                }
            }
            Class::AttEdge => {
                let k = AttachmentKey::edge_beta(EdgeKey {
                    warp_id,
                    local_id: t.edges[c.idx as usize],
                });
                if c.r {
                    fp.a_read.insert(k);
                }
                if c.w {
                    fp.a_write.insert(k);
                }
            }
            Class::Att => {
                // attachment slot idx = the alpha slot OF node idx: same owner id as the node
                // resource, but a different resource class (must not conflict with node claims).
                let k = AttachmentKey::node_alpha(NodeKey {
                    warp_id,
                    local_id: t.nodes[c.idx as usize],
                });
                if c.r {
                    fp.a_read.insert(k);
                }
                if c.w {
                    fp.a_write.insert(k);
                }
            }
        }
    }
    for p in &f.ports {
        let warp_id = t.warps[p.inst as usize];
        // ONE key per port, placed in b_in and/or b_out: "any shared boundary port (in or out,
        // any combination)" conflicts.
        let key = pack_port_key(&t.nodes[0], u32::from(p.id), true);
        if p.inp {
            fp.b_in.insert(warp_id, key);
        }
        if p.out {
            fp.b_out.insert(warp_id, key);
        }
    }
    fp
}
