//! Part A — the drain order: radix sort vs comparison sort vs a BTreeMap reference.

use mc::{hex, json, Report, Value};
use rayon::prelude::*;
use std::collections::{BTreeMap, BTreeSet};
use warp_core::verif_hooks::scheduler::{RawQueue, SMALL_SORT_THRESHOLD_VALUE};

pub type Key = ([u8; 32], u32);

/// scope = all zero except the given (pair position, 16-bit big-endian digit value) entries.
pub fn scope_of(digits: &[(usize, u16)]) -> [u8; 32] {
    let mut s = [0u8; 32];
    for &(p, v) in digits {
        s[2 * p..2 * p + 2].copy_from_slice(&v.to_be_bytes());
    }
    s
}

/// 12-key adversarial alphabets.  All keys share long prefixes; most differ only in late bytes or
/// only in the rule id.  Alphabet 0 is used by quick, all three by thorough.
pub fn alphabet(which: usize) -> Vec<Key> {
    match which {
        0 => vec![
            (scope_of(&[]), 0),
            (scope_of(&[]), 1),
            (scope_of(&[]), 0x1_0000),
            (scope_of(&[]), 0xFFFF_FFFF),
            (scope_of(&[(15, 1)]), 0),
            (scope_of(&[(15, 0xFFFF)]), 0),
            (scope_of(&[(14, 1)]), 1),
            (scope_of(&[(14, 1), (15, 0xFFFF)]), 0),
            (scope_of(&[(0, 1)]), 0),
            (scope_of(&[(0, 0xFFFF), (15, 1)]), 0x1_0000),
            (scope_of(&[(7, 1)]), 0xFFFF_FFFF),
            (scope_of(&[(7, 1), (8, 0xFFFF)]), 0),
        ],
        1 => vec![
            (scope_of(&[(13, 0xFFFF)]), 1),
            (scope_of(&[(13, 0xFFFF)]), 0x1_0000),
            (scope_of(&[(13, 0xFFFF), (15, 1)]), 0),
            (scope_of(&[(12, 1)]), 0xFFFF_FFFF),
            (scope_of(&[(12, 1), (13, 1)]), 0),
            (scope_of(&[(11, 0xFFFF), (12, 0xFFFF)]), 0),
            (scope_of(&[(10, 1)]), 0),
            (scope_of(&[(9, 1)]), 0),
            (scope_of(&[(9, 1), (10, 1)]), 1),
            (scope_of(&[(1, 1)]), 0),
            (scope_of(&[(1, 0xFFFF)]), 0),
            (scope_of(&[(0, 1), (1, 0xFFFF)]), 0),
        ],
        _ => vec![
            (scope_of(&[(6, 1)]), 0),
            (scope_of(&[(6, 0xFFFF)]), 0),
            (scope_of(&[(5, 1), (6, 1)]), 0),
            (scope_of(&[(5, 0xFFFF)]), 1),
            (scope_of(&[(4, 1)]), 0x1_0000),
            (scope_of(&[(4, 1), (15, 1)]), 0x1_0000),
            (scope_of(&[(3, 0xFFFF)]), 0xFFFF_FFFF),
            (scope_of(&[(3, 0xFFFF), (4, 0xFFFF)]), 0),
            (scope_of(&[(2, 1)]), 0),
            (scope_of(&[(2, 1), (14, 0xFFFF)]), 0),
            (scope_of(&[(2, 0xFFFF)]), 1),
            (scope_of(&[(2, 0xFFFF)]), 0xFFFF_0000),
        ],
    }
}

/// The 18 key digits in significance order: index 0..16 = scope pairs 0..15, 16 = rule high,
/// 17 = rule low.  Radix pass number of digit d: scope pair p ↦ pass 19-p, rule high ↦ 3, low ↦ 2.
pub fn digit_name(d: usize) -> String {
    match d {
        0..=15 => format!("scope[{d}](pass{})", 19 - d),
        16 => "rule.hi(pass3)".into(),
        _ => "rule.lo(pass2)".into(),
    }
}

fn digits_of(k: &Key) -> [u16; 18] {
    let mut d = [0u16; 18];
    for p in 0..16 {
        d[p] = u16::from_be_bytes([k.0[2 * p], k.0[2 * p + 1]]);
    }
    d[16] = (k.1 >> 16) as u16;
    d[17] = (k.1 & 0xFFFF) as u16;
    d
}

/// Most significant digit in which two keys differ.
pub fn deciding_digit(a: &Key, b: &Key) -> Option<usize> {
    let (x, y) = (digits_of(a), digits_of(b));
    (0..18).find(|&i| x[i] != y[i])
}

/// Reference: byte-lexicographic (scope, rule as u32) with last-wins payloads.
pub fn reference(enq: &[(Key, u64)]) -> Vec<(Key, u64)> {
    let mut m: BTreeMap<([u8; 32], u32), u64> = BTreeMap::new();
    for (k, p) in enq {
        m.insert(*k, *p);
    }
    m.into_iter().collect()
}

fn fill(enq: &[(Key, u64)]) -> RawQueue {
    let mut q = RawQueue::new();
    for (k, p) in enq {
        q.enqueue(k.0, k.1, *p);
    }
    q
}

fn strip(v: Vec<([u8; 32], u32, u32, u64)>) -> Vec<(Key, u64)> {
    v.into_iter().map(|(s, r, _n, p)| ((s, r), p)).collect()
}

fn enq_json(enq: &[(Key, u64)]) -> Value {
    json!(enq
        .iter()
        .map(|(k, p)| json!([hex(&k.0), k.1, p]))
        .collect::<Vec<_>>())
}

pub fn enq_from_json(v: &Value) -> Option<Vec<(Key, u64)>> {
    let mut out = Vec::new();
    for e in v.as_array()? {
        let s = mc::unhex(e.get(0)?.as_str()?);
        if s.len() != 32 {
            return None;
        }
        let mut a = [0u8; 32];
        a.copy_from_slice(&s);
        out.push(((a, e.get(1)?.as_u64()? as u32), e.get(2)?.as_u64()?));
    }
    Some(out)
}

/// Describe the first difference between an observed and the expected order.
fn mismatch(got: &[(Key, u64)], exp: &[(Key, u64)]) -> Option<String> {
    if got.len() != exp.len() {
        return Some(format!("length:{}!={}", got.len(), exp.len()));
    }
    for i in 0..got.len() {
        if got[i] != exp[i] {
            if got[i].0 == exp[i].0 {
                return Some("payload(last-wins)".into());
            }
            return Some(match deciding_digit(&got[i].0, &exp[i].0) {
                Some(d) => format!("misordered-on:{}", digit_name(d)),
                None => "misordered".into(),
            });
        }
    }
    None
}

#[derive(Default, Clone)]
pub struct SortStats {
    pub cases: u64,
    pub reordered: u64,
    pub deduped: u64,
    pub deciding: [u64; 18],
    pub outcomes: BTreeSet<[u8; 16]>,
    pub keys: Vec<u128>,
}

impl SortStats {
    fn merge(mut self, o: SortStats) -> SortStats {
        self.cases += o.cases;
        self.reordered += o.reordered;
        self.deduped += o.deduped;
        for i in 0..18 {
            self.deciding[i] += o.deciding[i];
        }
        self.outcomes.extend(o.outcomes);
        self.keys.extend(o.keys);
        self
    }
}

/// Evaluate ONE enqueue sequence: radix sort called directly, comparison sort, and drain, each on
/// a fresh queue holding the same enqueues, against the reference.
pub fn check_small(r: &Report, tag: &str, enq: &[(Key, u64)], st: &mut SortStats) {
    let exp = reference(enq);
    let runs: [(&str, Result<Vec<(Key, u64)>, String>); 3] = [
        ("radix-direct", mc::catch(|| strip(fill(enq).sorted_by_radix()))),
        ("comparison", mc::catch(|| strip(fill(enq).sorted_by_comparison()))),
        (
            "drain",
            mc::catch(|| {
                // drain returns payloads only; payloads are unique per enqueue position
                let by_payload: BTreeMap<u64, Key> = enq.iter().map(|(k, p)| (*p, *k)).collect();
                fill(enq)
                    .drain()
                    .into_iter()
                    .map(|p| (by_payload.get(&p).copied().unwrap_or(([0xEE; 32], 0)), p))
                    .collect()
            }),
        ),
    ];
    for (which, got) in runs {
        match got {
            Ok(got) => {
                if let Some(m) = mismatch(&got, &exp) {
                    r.violation(
                        &format!("sort:{which}:{m}"),
                        json!({"case": {"part": "sort-seq", "enqueues": enq_json(enq)},
                               "family": tag, "which": which,
                               "got": enq_json(&got), "expected": enq_json(&exp)}),
                    );
                }
            }
            Err(p) => r.violation(
                &format!("sort:{which}:panic"),
                json!({"case": {"part": "sort-seq", "enqueues": enq_json(enq)},
                       "family": tag, "panic": p}),
            ),
        }
    }
    st.cases += 1;
    // statistics (on the reference, i.e. independent of the subject)
    let deduped = exp.len() < enq.len();
    let mut last_pos: BTreeMap<Key, usize> = BTreeMap::new();
    for (i, (k, _)) in enq.iter().enumerate() {
        last_pos.insert(*k, i);
    }
    let reordered = exp
        .windows(2)
        .any(|w| last_pos[&w[0].0] > last_pos[&w[1].0]);
    for w in exp.windows(2) {
        if let Some(d) = deciding_digit(&w[0].0, &w[1].0) {
            st.deciding[d] += 1;
        }
    }
    if deduped {
        st.deduped += 1;
    }
    if reordered {
        st.reordered += 1;
    }
    let mut kb = Vec::with_capacity(4 + enq.len() * 44);
    kb.extend_from_slice(b"A:");
    for (k, p) in enq {
        kb.extend_from_slice(&k.0);
        kb.extend_from_slice(&k.1.to_be_bytes());
        kb.extend_from_slice(&p.to_be_bytes());
    }
    if deduped || reordered {
        st.keys.push(Report::key(&kb));
    }
    let mut ob = Vec::new();
    for (k, p) in &exp {
        ob.extend_from_slice(&k.0);
        ob.extend_from_slice(&k.1.to_be_bytes());
        ob.extend_from_slice(&p.to_be_bytes());
    }
    let h = mc::h(&ob);
    let mut o = [0u8; 16];
    o.copy_from_slice(&h[..16]);
    st.outcomes.insert(o);
}

/// (a) every sequence of n ≤ max_n enqueues over a 12-key alphabet.
fn all_sequences(r: &Report, which: usize, max_n: usize) -> SortStats {
    let alpha = alphabet(which);
    let mut seqs: Vec<Vec<u8>> = Vec::new();
    for n in 0..=max_n {
        mc::enumerate::sequences(alpha.len(), n, |s| {
            seqs.push(s.iter().map(|&x| x as u8).collect())
        });
    }
    let tag = format!("alphabet{which}:n<={max_n}");
    seqs.par_iter()
        .fold(SortStats::default, |mut st, s| {
            let enq: Vec<(Key, u64)> = s
                .iter()
                .enumerate()
                .map(|(i, &k)| (alpha[k as usize], 100 + i as u64))
                .collect();
            check_small(r, &tag, &enq, &mut st);
            st
        })
        .reduce(SortStats::default, SortStats::merge)
}

/// Per-pass family: for each of the 18 key digits, pairs of keys differing ONLY in that digit,
/// enqueued in both orders.  Returns per-digit "decisive" counts: the pair was enqueued in
/// descending order, so only that digit's pass could have put it right.
fn per_pass_family(r: &Report, st: &mut SortStats) -> [u64; 18] {
    let mut decisive = [0u64; 18];
    let vals: [(u16, u16); 3] = [(0, 1), (0, 0xFFFF), (1, 0xFFFF)];
    for d in 0..18 {
        for ctx in [0u16, 0xFFFF] {
            for (lo, hi) in vals {
                let mk = |v: u16| -> Key {
                    let mut dg = [ctx; 18];
                    dg[d] = v;
                    let mut s = [0u8; 32];
                    for p in 0..16 {
                        s[2 * p..2 * p + 2].copy_from_slice(&dg[p].to_be_bytes());
                    }
                    (s, (u32::from(dg[16]) << 16) | u32::from(dg[17]))
                };
                let (a, b) = (mk(lo), mk(hi));
                assert_eq!(deciding_digit(&a, &b), Some(d));
                for order in 0..2 {
                    let enq = if order == 0 {
                        vec![(a, 1), (b, 2)]
                    } else {
                        vec![(b, 1), (a, 2)]
                    };
                    let before = r.violation_count();
                    check_small(r, &format!("per-pass:{}", digit_name(d)), &enq, st);
                    if order == 1 && r.violation_count() == before {
                        decisive[d] += 1;
                    }
                }
            }
        }
    }
    decisive
}

// ------------------------------------------------------------------------------------------
// (b) threshold
// ------------------------------------------------------------------------------------------

/// Pairwise-distinct filler keys: digit 1 = 1 (no core key has that), digit 15 = i, digit 14 = i%3,
/// rule cycles over {0,1,0x10000}: long shared prefix, differences only in the last bytes.
fn filler(i: usize) -> Key {
    let rules = [0u32, 1, 0x1_0000];
    (
        scope_of(&[(1, 1), (14, (i % 3) as u16), (15, i as u16)]),
        rules[i % 3],
    )
}

fn cores(n_fill: usize) -> Vec<(&'static str, [Key; 3])> {
    let f = |i: usize| filler(i.min(n_fill.saturating_sub(1)));
    vec![
        (
            "last-digit-only(before fillers)",
            [
                (scope_of(&[(15, 0)]), 0),
                (scope_of(&[(15, 1)]), 0),
                (scope_of(&[(15, 0xFFFF)]), 0),
            ],
        ),
        (
            "rule-only(after fillers)",
            [
                (scope_of(&[(1, 0xFFFF)]), 0),
                (scope_of(&[(1, 0xFFFF)]), 0x1_0000),
                (scope_of(&[(1, 0xFFFF)]), 0xFFFF_FFFF),
            ],
        ),
        (
            "filler-scopes-with-max-rule(interleaved)",
            [
                (f(0).0, 0xFFFF_FFFF),
                (f(n_fill / 2).0, 0xFFFF_FFFD),
                (f(n_fill.saturating_sub(1)).0, 0xFFFF_FFFE),
            ],
        ),
        (
            "first-digit-only",
            [
                (scope_of(&[(0, 0), (2, 1)]), 0),
                (scope_of(&[(0, 1), (2, 1)]), 0),
                (scope_of(&[(0, 0xFFFF), (2, 1)]), 0),
            ],
        ),
    ]
}

const PERM3: [[usize; 3]; 6] = [[0, 1, 2], [0, 2, 1], [1, 0, 2], [1, 2, 0], [2, 0, 1], [2, 1, 0]];
pub const PLACEMENTS: [&str; 4] = ["block-first", "block-middle", "block-last", "spread"];

/// Build the enqueue sequence of one threshold case.
pub fn threshold_case(n: usize, core: usize, placement: usize, order: usize, dup: bool) -> Vec<(Key, u64)> {
    let n_core = n.min(3);
    let n_fill = n - n_core;
    let core_keys = cores(n_fill)[core].1;
    // filler enqueue order: a fixed stride permutation (never sorted, never reverse sorted)
    let mut stride = (n_fill * 618 / 1000).max(1);
    fn gcd(a: usize, b: usize) -> usize {
        if b == 0 {
            a
        } else {
            gcd(b, a % b)
        }
    }
    while n_fill > 0 && gcd(stride, n_fill) != 1 {
        stride += 1;
    }
    let fill: Vec<Key> = (0..n_fill).map(|i| filler((i * stride + 7) % n_fill)).collect();
    let cs: Vec<Key> = PERM3[order]
        .iter()
        .filter(|&&c| c < n_core)
        .map(|&c| core_keys[c])
        .collect();
    let mut keys: Vec<Key> = Vec::with_capacity(n + 1);
    match placement {
        0 => {
            keys.extend(&cs);
            keys.extend(&fill);
        }
        1 => {
            keys.extend(&fill[..n_fill / 2]);
            keys.extend(&cs);
            keys.extend(&fill[n_fill / 2..]);
        }
        2 => {
            keys.extend(&fill);
            keys.extend(&cs);
        }
        _ => {
            // one core key first, one in the middle, one last
            let mut it = cs.iter();
            if let Some(k) = it.next() {
                keys.push(*k);
            }
            keys.extend(&fill[..n_fill / 2]);
            let mid = it.next().copied();
            let last = it.next().copied();
            if let Some(k) = mid {
                keys.push(k);
            }
            keys.extend(&fill[n_fill / 2..]);
            if let Some(k) = last {
                keys.push(k);
            }
        }
    }
    if dup {
        // re-enqueue (last-wins + nonce refresh): the first core key and the first filler again
        if let Some(k) = cs.first() {
            keys.push(*k);
        }
        if let Some(k) = fill.first() {
            keys.push(*k);
        }
    }
    keys.into_iter()
        .enumerate()
        .map(|(i, k)| (k, 1_000_000 + i as u64))
        .collect()
}

pub fn check_threshold_case(
    r: &Report,
    n: usize,
    core: usize,
    placement: usize,
    order: usize,
    dup: bool,
) -> (usize, bool) {
    let enq = threshold_case(n, core, placement, order, dup);
    let exp = reference(&enq);
    let case = json!({"part": "sort-threshold", "n": n, "core": core, "placement": placement,
                      "order": order, "dup": dup});
    let by_payload: BTreeMap<u64, Key> = enq.iter().map(|(k, p)| (*p, *k)).collect();
    let side = if n <= SMALL_SORT_THRESHOLD_VALUE { "small" } else { "large" };
    let mut q = fill(&enq);
    let len = q.len();
    if len != n || exp.len() != n {
        r.machinery_error(&format!("threshold case n={n}: queue len {len}, reference {}", exp.len()));
    }
    let runs: [(&str, Result<Vec<(Key, u64)>, String>); 3] = [
        ("radix-direct", mc::catch(|| strip(fill(&enq).sorted_by_radix()))),
        ("comparison", mc::catch(|| strip(fill(&enq).sorted_by_comparison()))),
        (
            "drain",
            mc::catch(|| {
                q.drain()
                    .into_iter()
                    .map(|p| (by_payload.get(&p).copied().unwrap_or(([0xEE; 32], 0)), p))
                    .collect()
            }),
        ),
    ];
    let mut ok = true;
    for (which, got) in runs {
        let which = if which == "drain" { format!("drain-{side}") } else { which.to_string() };
        match got {
            Ok(got) => {
                if let Some(m) = mismatch(&got, &exp) {
                    ok = false;
                    r.violation(
                        &format!("sort:{which}:{m}"),
                        json!({"case": case, "core": cores(n - n.min(3))[core].0,
                               "placement": PLACEMENTS[placement], "which": which}),
                    );
                }
            }
            Err(p) => {
                ok = false;
                r.violation(&format!("sort:{which}:panic"), json!({"case": case, "panic": p}));
            }
        }
    }
    (len, ok)
}

pub fn threshold_sizes() -> Vec<usize> {
    vec![0, 1, 2, 1023, 1024, 1025, 1026, 2048, 5000]
}

fn threshold(r: &Report) {
    let mut cases: Vec<(usize, usize, usize, usize, bool)> = Vec::new();
    for &n in &threshold_sizes() {
        for core in 0..4 {
            for placement in 0..4 {
                for order in 0..6 {
                    for dup in [false, true] {
                        cases.push((n, core, placement, order, dup));
                    }
                }
            }
        }
    }
    let res: Vec<(usize, bool)> = cases
        .par_iter()
        .map(|&(n, c, p, o, d)| check_threshold_case(r, n, c, p, o, d))
        .collect();
    r.eval(res.len() as u64);
    let small = res.iter().filter(|(l, _)| *l > 1 && *l <= SMALL_SORT_THRESHOLD_VALUE).count();
    let large = res.iter().filter(|(l, _)| *l > SMALL_SORT_THRESHOLD_VALUE).count();
    r.counter("sort_threshold_cases", res.len() as u64);
    r.counter("sort_threshold_cases_comparison_side(2..=1024)", small as u64);
    r.counter("sort_threshold_cases_radix_side(>1024)", large as u64);
    let sizes: BTreeSet<usize> = res.iter().map(|(l, _)| *l).collect();
    r.note("sort_threshold_batch_sizes_drained", json!(sizes));
    r.guard("threshold_both_sides_exercised", small > 0 && large > 0);
    r.guard(
        "threshold_sizes_1024_and_1025_drained",
        sizes.contains(&1024) && sizes.contains(&1025),
    );
    for (i, c) in cases.iter().enumerate() {
        if c.0 >= 3 {
            r.nontrivial(format!("A-thr:{c:?}").as_bytes());
        }
        let _ = i;
    }
    r.sample(json!({"part": "A(b) threshold", "case": {"n": 1025, "core": cores(1022)[0].0,
        "placement": PLACEMENTS[3], "order": [2, 0, 1], "dup": true},
        "checked": "drain() payload order == BTreeMap<(scope,rule)> reference; radix-direct and comparison on the same enqueues too"}));
}

pub fn run(r: &Report) {
    let mut st = SortStats::default();
    let decisive = per_pass_family(r, &mut st);
    let max_n = r.pick(4, 6);
    st = st.merge(all_sequences(r, 0, max_n));
    if r.thorough() {
        st = st.merge(all_sequences(r, 1, 4));
        st = st.merge(all_sequences(r, 2, 4));
    }
    r.eval(st.cases);
    r.counter("sort_sequences", st.cases);
    r.counter("sort_sequences_reordered", st.reordered);
    r.counter("sort_sequences_with_last_wins_dedupe", st.deduped);
    let dec: BTreeMap<String, u64> = (0..18).map(|d| (digit_name(d), decisive[d])).collect();
    r.note("radix_pass_decisive_counts(per-pass family)", json!(dec));
    let gen: BTreeMap<String, u64> = (0..18).map(|d| (digit_name(d), st.deciding[d])).collect();
    r.note("deciding_digit_histogram(all sort cases, adjacent pairs of sorted output)", json!(gen));
    r.note(
        "radix_passes_0_1_note",
        json!("passes 0-1 sort on the nonce; (scope,rule) is unique after last-wins dedupe, so two entries never tie on all 18 key digits and a nonce pass can never be decisive through the queue API; the guard therefore expects exactly the 18 passes 2..19"),
    );
    r.guard("every_radix_pass_2_to_19_decisive", decisive.iter().all(|&c| c > 0));
    r.guard("sort_reordering_seen", st.reordered > 0);
    r.guard("sort_last_wins_seen", st.deduped > 0);
    r.counter("sort_distinct_outcomes", st.outcomes.len() as u64);
    r.guard("distinct_sort_outcomes_gt_1", st.outcomes.len() > 1);
    r.nontrivial_many(st.keys);
    let a = alphabet(0);
    let ex = vec![(a[5], 100u64), (a[3], 101), (a[4], 102), (a[3], 103)];
    r.sample(json!({"part": "A(a) sort sequence", "enqueues[scope,rule,payload]": enq_json(&ex),
        "reference_order": enq_json(&reference(&ex)),
        "checked": "sorted_by_radix()==sorted_by_comparison()==drain()==reference"}));
    threshold(r);
}

pub fn replay(r: &Report, case: &Value) -> bool {
    match case["part"].as_str() {
        Some("sort-seq") => {
            let Some(enq) = enq_from_json(&case["enqueues"]) else {
                return false;
            };
            let mut st = SortStats::default();
            check_small(r, "replay", &enq, &mut st);
            r.eval(1);
            true
        }
        Some("sort-threshold") => {
            let g = |k: &str| case[k].as_u64().unwrap_or(0) as usize;
            check_threshold_case(
                r,
                g("n"),
                g("core"),
                g("placement"),
                g("order"),
                case["dup"].as_bool().unwrap_or(false),
            );
            r.eval(1);
            true
        }
        _ => false,
    }
}
