//! Part C — tick receipts through the real engine (both scheduler kinds).

use crate::model::*;
use mc::{hex, json, Report, Value};
use rayon::prelude::*;
use std::collections::{BTreeMap, BTreeSet};
use warp_core::{
    make_type_id, ApplyResult, ConflictPolicy, EngineBuilder, Footprint, GraphStore, GraphView,
    Hash, NodeId, NodeKey, NodeRecord, PatternGraph, RewriteRule, SchedulerKind, TickDelta,
    TickReceipt, TickReceiptDisposition, TickReceiptRejection,
};

pub const N_RULES: usize = 8;
pub const N_SCOPES: usize = 2;

/// (name, registration position).  Registration order is deliberately NOT the order of the
/// 32-byte rule ids, so the compact rule id (Radix key) and the rule id (Legacy key) order rules
/// differently — see the evidence note on why that is unobservable through the engine.
const RULE_NAMES: [&str; N_RULES] = [
    "c03/write-X",
    "c03/read-X",
    "c03/write-scope",
    "c03/read-scope+write-Y",
    "c03/write-att(X)+read-edge",
    "c03/read-att(X)+write-edge",
    "c03/port-in",
    "c03/port-out+read-X",
];

fn cl(class: Class, idx: u8, r: bool, w: bool) -> Claim {
    Claim {
        inst: 0,
        class,
        idx,
        r,
        w,
    }
}

/// Abstract footprint of rule `k` applied at scope `s` (node index 2+s).  X = node 0, Y = node 1.
pub fn rule_abs(k: usize, s: usize) -> AbsFp {
    let sc = 2 + s as u8;
    let mut f = AbsFp::default();
    match k {
        0 => f.claims.push(cl(Class::Node, 0, false, true)),
        1 => f.claims.push(cl(Class::Node, 0, true, false)),
        2 => f.claims.push(cl(Class::Node, sc, false, true)),
        3 => {
            f.claims.push(cl(Class::Node, sc, true, false));
            f.claims.push(cl(Class::Node, 1, false, true));
        }
        4 => {
            f.claims.push(cl(Class::Att, 0, false, true));
            f.claims.push(cl(Class::Edge, 0, true, false));
        }
        5 => {
            f.claims.push(cl(Class::Att, 0, true, false));
            f.claims.push(cl(Class::Edge, 0, false, true));
        }
        6 => f.ports.push(PortClaim {
            inst: 0,
            id: 0,
            inp: true,
            out: false,
        }),
        _ => {
            f.ports.push(PortClaim {
                inst: 0,
                id: 0,
                inp: false,
                out: true,
            });
            f.claims.push(cl(Class::Node, 0, true, false));
        }
    }
    f
}

pub fn rule_id(k: usize) -> Hash {
    let mut h = blake3::Hasher::new();
    h.update(b"rule:");
    h.update(RULE_NAMES[k].as_bytes());
    h.finalize().into()
}

fn rule_footprint(k: usize, view: GraphView<'_>, scope: &NodeId) -> Footprint {
    let t = ids();
    assert_eq!(view.warp_id(), t.warps[0], "engine part runs in the root instance");
    let s = match t.nodes.iter().position(|n| n == scope) {
        Some(i) if i >= 2 => i - 2,
        _ => panic!("C03 harness: unknown scope node"),
    };
    // sound partition masks (one bit per resource class) so that the Legacy kind is comparable
    build_real(&rule_abs(k, s), Mask::PerClass)
}

fn always(_: GraphView<'_>, _: &NodeId) -> bool {
    true
}
fn noop(_: GraphView<'_>, _: &NodeId, _: &mut TickDelta) {}

macro_rules! fp_fns {
    ($($name:ident = $k:expr),*) => {
        $( fn $name(view: GraphView<'_>, scope: &NodeId) -> Footprint { rule_footprint($k, view, scope) } )*
        const FP_FNS: [for<'a> fn(GraphView<'a>, &NodeId) -> Footprint; N_RULES] = [$($name),*];
    };
}
fp_fns!(fp0 = 0, fp1 = 1, fp2 = 2, fp3 = 3, fp4 = 4, fp5 = 5, fp6 = 6, fp7 = 7);

fn make_rule(k: usize) -> RewriteRule {
    RewriteRule {
        id: rule_id(k),
        name: RULE_NAMES[k],
        left: PatternGraph { nodes: vec![] },
        matcher: always,
        executor: noop,
        compute_footprint: FP_FNS[k],
        factor_mask: 0,
        conflict_policy: ConflictPolicy::Abort,
        join_fn: None,
    }
}

fn kind_name(k: SchedulerKind) -> &'static str {
    match k {
        SchedulerKind::Radix => "Radix",
        SchedulerKind::Legacy => "Legacy",
    }
}

/// What one engine run produced, reduced to comparable data.
#[derive(Clone, PartialEq, Eq, Debug)]
pub struct Observed {
    pub entries: Vec<(usize, usize, bool)>, // (rule, scope, applied)
    pub blocked_by: Vec<Vec<u32>>,
}

fn ref_scope_hash(k: usize, s: usize) -> Hash {
    // scope hash = BLAKE3(rule id ‖ instance id ‖ scope node id)
    let t = ids();
    let mut h = blake3::Hasher::new();
    h.update(&rule_id(k));
    h.update(&t.warps[0].0);
    h.update(&t.nodes[2 + s].0);
    h.finalize().into()
}

#[derive(Default, Clone)]
pub struct Stats {
    pub runs: u64,
    pub with_rejection: u64,
    pub rejections: u64,
    pub multi_blocker: u64,
    pub mid_rej_later_acc: u64,
    pub blocker_after_rejected: u64,
    pub kinds: BTreeSet<String>,
    pub scope_hash_ties: u64,
    pub kinds_disagree_on_order_key: u64,
    pub kinds_identical: u64,
    pub kinds_differ: u64,
    pub keys: Vec<u128>,
    pub patterns: BTreeMap<String, u64>,
}
impl Stats {
    fn merge(mut self, o: Stats) -> Stats {
        self.runs += o.runs;
        self.with_rejection += o.with_rejection;
        self.rejections += o.rejections;
        self.multi_blocker += o.multi_blocker;
        self.mid_rej_later_acc += o.mid_rej_later_acc;
        self.blocker_after_rejected += o.blocker_after_rejected;
        self.kinds.extend(o.kinds);
        self.scope_hash_ties += o.scope_hash_ties;
        self.kinds_disagree_on_order_key += o.kinds_disagree_on_order_key;
        self.kinds_identical += o.kinds_identical;
        self.kinds_differ += o.kinds_differ;
        self.keys.extend(o.keys);
        for (k, v) in o.patterns {
            *self.patterns.entry(k).or_insert(0) += v;
        }
        self
    }
}

fn case_json(kind: SchedulerKind, seq: &[(usize, usize)]) -> Value {
    json!({"part": "receipt-seq", "kind": kind_name(kind),
           "applies[rule,scope]": seq.iter().map(|(k, s)| json!([k, s])).collect::<Vec<_>>()})
}

/// Run one tick on a fresh engine: apply the candidates in the given order, commit, inspect.
pub fn run_engine(kind: SchedulerKind, seq: &[(usize, usize)]) -> Result<(TickReceipt, Observed), String> {
    let t = ids();
    let mut store = GraphStore::default();
    store.insert_node(t.root, NodeRecord { ty: make_type_id("c03/root") });
    for n in &t.nodes {
        store.insert_node(*n, NodeRecord { ty: make_type_id("c03/node") });
    }
    let mut engine = EngineBuilder::new(store, t.root).scheduler(kind).workers(1).build();
    // registration order 5,2,7,0,3,6,1,4: compact ids differ from both index and id order
    for k in REG_ORDER {
        engine.register_rule(make_rule(k)).map_err(|e| format!("register_rule: {e:?}"))?;
    }
    let tx = engine.begin();
    for (k, s) in seq {
        match engine.apply(tx, RULE_NAMES[*k], &t.nodes[2 + s]) {
            Ok(ApplyResult::Applied) => {}
            other => return Err(format!("apply returned {other:?}")),
        }
    }
    let (_snap, receipt, _patch) = engine
        .commit_with_receipt(tx)
        .map_err(|e| format!("commit_with_receipt: {e:?}"))?;
    let mut entries = Vec::new();
    for e in receipt.entries() {
        let k = (0..N_RULES)
            .find(|&k| rule_id(k) == e.rule_id)
            .ok_or("receipt names an unknown rule")?;
        let s = (0..N_SCOPES)
            .find(|&s| NodeKey { warp_id: t.warps[0], local_id: t.nodes[2 + s] } == e.scope)
            .ok_or("receipt names an unknown scope")?;
        let applied = match e.disposition {
            TickReceiptDisposition::Applied => true,
            TickReceiptDisposition::Rejected(TickReceiptRejection::FootprintConflict) => false,
            TickReceiptDisposition::Rejected(other) => {
                return Err(format!("unexpected rejection reason {other:?}"))
            }
        };
        if e.scope_hash != ref_scope_hash(k, s) {
            return Err(format!(
                "receipt scope hash {} is not BLAKE3(rule id, instance, scope) = {}",
                hex(&e.scope_hash),
                hex(&ref_scope_hash(k, s))
            ));
        }
        entries.push((k, s, applied));
    }
    let blocked_by = (0..receipt.entries().len())
        .map(|i| receipt.blocked_by(i).to_vec())
        .collect();
    Ok((receipt, Observed { entries, blocked_by }))
}

pub const REG_ORDER: [usize; N_RULES] = [5, 2, 7, 0, 3, 6, 1, 4];

fn compact_id(k: usize) -> u32 {
    REG_ORDER.iter().position(|&x| x == k).unwrap_or(usize::MAX) as u32
}

/// Expected receipt for a candidate sequence under `kind`'s documented sort key.
fn expected(kind: SchedulerKind, seq: &[(usize, usize)], st: &mut Stats) -> Observed {
    // last-wins on (scope hash, rule): the same candidate applied twice is one candidate
    let distinct: BTreeSet<(usize, usize)> = seq.iter().copied().collect();
    // Radix: (scope hash, compact rule id);  Legacy: (scope hash, 32-byte rule id)
    let by_compact: BTreeMap<(Hash, u32), (usize, usize)> = distinct
        .iter()
        .map(|&(k, s)| ((ref_scope_hash(k, s), compact_id(k)), (k, s)))
        .collect();
    let by_id: BTreeMap<(Hash, Hash), (usize, usize)> = distinct
        .iter()
        .map(|&(k, s)| ((ref_scope_hash(k, s), rule_id(k)), (k, s)))
        .collect();
    let o1: Vec<(usize, usize)> = by_compact.values().copied().collect();
    let o2: Vec<(usize, usize)> = by_id.values().copied().collect();
    if o1 != o2 {
        st.kinds_disagree_on_order_key += 1;
    }
    let hashes: BTreeSet<Hash> = distinct.iter().map(|&(k, s)| ref_scope_hash(k, s)).collect();
    if hashes.len() != distinct.len() {
        st.scope_hash_ties += 1;
    }
    let order = match kind {
        SchedulerKind::Radix => o1,
        SchedulerKind::Legacy => o2,
    };
    let abs: Vec<AbsFp> = order.iter().map(|&(k, s)| rule_abs(k, s)).collect();
    let refs: Vec<&AbsFp> = abs.iter().collect();
    let (dec, blk) = ref_admission(&refs);
    Observed {
        entries: order.iter().zip(&dec).map(|(&(k, s), &a)| (k, s, a)).collect(),
        blocked_by: blk,
    }
}

fn obs_json(o: &Observed) -> Value {
    json!({"entries[rule,scope,applied]": o.entries.iter().map(|(k, s, a)| json!([k, s, a])).collect::<Vec<_>>(),
           "blocked_by": o.blocked_by})
}

pub fn check_case(r: &Report, kind: SchedulerKind, seq: &[(usize, usize)], st: &mut Stats) -> Option<Observed> {
    st.runs += 1;
    let kn = kind_name(kind);
    let exp = expected(kind, seq, st);
    let got = match mc::catch(|| run_engine(kind, seq)) {
        Ok(Ok(x)) => x,
        Ok(Err(e)) => {
            let short: String = e.split(':').next().unwrap_or("").chars().take(60).collect();
            r.violation(
                &format!("receipt:{kn}:engine-error:{short}"),
                json!({"case": case_json(kind, seq), "error": e, "expected": obs_json(&exp)}),
            );
            return None;
        }
        Err(p) => {
            let short: String = p.chars().take(60).collect();
            r.violation(
                &format!("receipt:{kn}:panic:{short}"),
                json!({"case": case_json(kind, seq), "panic": p}),
            );
            return None;
        }
    };
    let (receipt, obs) = got;
    let order_got: Vec<(usize, usize)> = obs.entries.iter().map(|e| (e.0, e.1)).collect();
    let order_exp: Vec<(usize, usize)> = exp.entries.iter().map(|e| (e.0, e.1)).collect();
    if order_got != order_exp {
        let what = if order_got.len() != order_exp.len() { "entry-count" } else { "entry-order" };
        r.violation(
            &format!("receipt:{kn}:{what}"),
            json!({"case": case_json(kind, seq), "got": obs_json(&obs), "expected": obs_json(&exp)}),
        );
    } else {
        if let Some(i) = (0..obs.entries.len()).find(|&i| obs.entries[i].2 != exp.entries[i].2) {
            let abs: Vec<AbsFp> = order_exp.iter().map(|&(k, s)| rule_abs(k, s)).collect();
            let what = if exp.entries[i].2 {
                "false-reject".to_string()
            } else {
                let mut kinds: Vec<String> = exp.blocked_by[i]
                    .iter()
                    .flat_map(|&j| conflict_kinds(&abs[j as usize], &abs[i]))
                    .collect();
                kinds.sort();
                kinds.dedup();
                format!("missed-conflict:{}", kinds.join(","))
            };
            r.violation(
                &format!("receipt:{kn}:disposition:{what}"),
                json!({"case": case_json(kind, seq), "index": i, "got": obs_json(&obs), "expected": obs_json(&exp)}),
            );
        } else if let Some(i) = (0..obs.entries.len()).find(|&i| obs.blocked_by[i] != exp.blocked_by[i]) {
            let abs: Vec<AbsFp> = order_exp.iter().map(|&(k, s)| rule_abs(k, s)).collect();
            let g: BTreeSet<u32> = obs.blocked_by[i].iter().copied().collect();
            let e: BTreeSet<u32> = exp.blocked_by[i].iter().copied().collect();
            let mut kinds: Vec<String> = e
                .symmetric_difference(&g)
                .filter(|&&j| (j as usize) < abs.len())
                .flat_map(|&j| {
                    let k = conflict_kinds(&abs[j as usize], &abs[i]);
                    if k.is_empty() { vec!["no-conflict".to_string()] } else { k }
                })
                .collect();
            kinds.sort();
            kinds.dedup();
            let what = if e.is_subset(&g) && e != g {
                "extra-blocker"
            } else if g.is_subset(&e) && e != g {
                "missing-blocker"
            } else if e == g {
                "blockers-not-ascending-unique"
            } else {
                "wrong-blockers"
            };
            r.violation(
                &format!("receipt:{kn}:blocked_by:{what}:{}", kinds.join(",")),
                json!({"case": case_json(kind, seq), "index": i, "got": obs_json(&obs), "expected": obs_json(&exp)}),
            );
        }
    }
    // the emitted parts must satisfy the retained-parts validator and round-trip
    match TickReceipt::try_from_retained_parts(
        receipt.tx(),
        receipt.entries().to_vec(),
        obs.blocked_by.clone(),
    ) {
        Ok(back) => {
            if back != receipt || back.digest() != receipt.digest() {
                r.violation(
                    &format!("receipt:{kn}:retained-parts-roundtrip-differs"),
                    json!({"case": case_json(kind, seq)}),
                );
            }
        }
        Err(e) => r.violation(
            &format!("receipt:{kn}:retained-parts-rejected:{}", format!("{e:?}").split(|c| c == ' ' || c == '{').next().unwrap_or("")),
            json!({"case": case_json(kind, seq), "error": format!("{e}"), "got": obs_json(&obs)}),
        ),
    }
    // statistics from the reference
    let rej = exp.entries.iter().filter(|e| !e.2).count() as u64;
    st.rejections += rej;
    if rej > 0 {
        st.with_rejection += 1;
        let mut kb = format!("C:{kn}:").into_bytes();
        for (k, s) in seq {
            kb.extend_from_slice(&[*k as u8, *s as u8]);
        }
        st.keys.push(Report::key(&kb));
    }
    let abs: Vec<AbsFp> = exp.entries.iter().map(|&(k, s, _)| rule_abs(k, s)).collect();
    let dec: Vec<bool> = exp.entries.iter().map(|e| e.2).collect();
    let f = features(&abs, &dec, &exp.blocked_by);
    st.multi_blocker += f.multi_blocker as u64;
    st.mid_rej_later_acc += f.rejected_then_accepted;
    st.blocker_after_rejected += f.blocker_after_rejected as u64;
    st.kinds.extend(f.kinds);
    let pat: String = exp.entries.iter().map(|e| if e.2 { 'A' } else { 'R' }).collect();
    *st.patterns.entry(pat).or_insert(0) += 1;
    Some(obs)
}

/// What a reference receipt exercises (computed from the reference only).
#[derive(Default)]
pub struct Features {
    pub multi_blocker: bool,
    /// pairs (j rejected, later i accepted although it conflicts with j)
    pub rejected_then_accepted: u64,
    /// some blocker has a rejected entry before it (entry index != index among accepted)
    pub blocker_after_rejected: bool,
    /// conflict kinds between a blocker and the candidate it blocks
    pub kinds: BTreeSet<String>,
}

pub fn features(abs: &[AbsFp], dec: &[bool], blk: &[Vec<u32>]) -> Features {
    let mut f = Features::default();
    for i in 0..abs.len() {
        if blk[i].len() >= 2 {
            f.multi_blocker = true;
        }
        for &b in &blk[i] {
            if dec[..b as usize].iter().any(|a| !*a) {
                f.blocker_after_rejected = true;
            }
            f.kinds.extend(conflict_kinds(&abs[b as usize], &abs[i]));
        }
        for j in 0..i {
            if !dec[j] && dec[i] && conflict(&abs[j], &abs[i]) {
                f.rejected_then_accepted += 1;
            }
        }
    }
    f
}

const REQUIRED_KIND_PREFIXES: [&str; 6] = ["node:W>R", "node:R>W", "node:W>W", "edge:", "att:", "port:"];

fn covers(multi: bool, rta: bool, bar: bool, kinds: &BTreeSet<String>) -> bool {
    multi && rta && bar && REQUIRED_KIND_PREFIXES.iter().all(|p| kinds.iter().any(|k| k.starts_with(p)))
}

fn all_candidates() -> Vec<(usize, usize)> {
    let mut c = Vec::new();
    for k in 0..N_RULES {
        for s in 0..N_SCOPES {
            c.push((k, s));
        }
    }
    c
}

/// Candidate (rule, scope) pairs.  Thorough: all 16.  Quick: one engine tick costs milliseconds,
/// so quick uses 8 of the 16 — the lexicographically first 8-subset whose 4-candidate ticks (in
/// scope-hash order, by the reference) contain a candidate with two blockers, a rejected candidate
/// followed by an accepted one that conflicts with it, a blocker preceded by a rejected entry,
/// and every conflict kind (node W>R, R>W, W>W; edge; attachment; port).  The choice depends on
/// the BLAKE3 scope hashes only, so it is deterministic.
pub fn candidates(r: &Report) -> Vec<(usize, usize)> {
    let all = all_candidates();
    if !r.quick() {
        return all;
    }
    let hashes: Vec<Hash> = all.iter().map(|&(k, s)| ref_scope_hash(k, s)).collect();
    let abs: Vec<AbsFp> = all.iter().map(|&(k, s)| rule_abs(k, s)).collect();
    for sub in mc::enumerate::subsets_k(all.len(), 8) {
        let (mut multi, mut rta, mut bar) = (false, false, false);
        let mut kinds = BTreeSet::new();
        for four in mc::enumerate::subsets_k(8, 4) {
            let mut ix: Vec<usize> = four.iter().map(|&i| sub[i]).collect();
            ix.sort_by_key(|&i| hashes[i]);
            let a: Vec<AbsFp> = ix.iter().map(|&i| abs[i].clone()).collect();
            let refs: Vec<&AbsFp> = a.iter().collect();
            let (dec, blk) = ref_admission(&refs);
            let f = features(&a, &dec, &blk);
            multi |= f.multi_blocker;
            rta |= f.rejected_then_accepted > 0;
            bar |= f.blocker_after_rejected;
            kinds.extend(f.kinds);
        }
        if covers(multi, rta, bar, &kinds) {
            return sub.iter().map(|&i| all[i]).collect();
        }
    }
    r.machinery_error("no 8-candidate subset covers the required receipt features");
    all[..8].to_vec()
}

pub fn run(r: &Report) {
    mc::quiet_panics();
    let cands = candidates(r);
    // quick: every sequence (with repetition => re-enqueue/last-wins) of length <= 3 and every
    // ordered selection of 4 distinct candidates; thorough: every sequence of length <= 4.
    let mut seqs: Vec<Vec<u8>> = Vec::new();
    for n in 0..=4usize {
        let distinct_only = r.quick() && n == 4;
        mc::enumerate::sequences(cands.len(), n, |s| {
            if distinct_only {
                let set: BTreeSet<usize> = s.iter().copied().collect();
                if set.len() != n {
                    return;
                }
            }
            seqs.push(s.iter().map(|&x| x as u8).collect());
        });
    }
    let capped = std::sync::atomic::AtomicBool::new(false);
    let st = seqs
        .par_iter()
        .fold(Stats::default, |mut st, s| {
            if r.over_budget_frac(0.97) {
                capped.store(true, std::sync::atomic::Ordering::Relaxed);
                return st;
            }
            let seq: Vec<(usize, usize)> = s.iter().map(|&i| cands[i as usize]).collect();
            let a = check_case(r, SchedulerKind::Radix, &seq, &mut st);
            let b = check_case(r, SchedulerKind::Legacy, &seq, &mut st);
            if let (Some(a), Some(b)) = (a, b) {
                // each kind was judged against its own documented key above; a difference
                // between the kinds is an observation about the keys, not a violation
                if a == b {
                    st.kinds_identical += 1;
                } else {
                    st.kinds_differ += 1;
                }
            }
            st
        })
        .reduce(Stats::default, Stats::merge);
    if capped.load(std::sync::atomic::Ordering::Relaxed) {
        r.cap_hit(&format!("receipt sweep stopped by the wall cap after {} engine runs", st.runs));
    }
    r.eval(st.runs);
    r.counter("receipt_engine_runs(both kinds)", st.runs);
    r.counter("receipt_apply_sequences", seqs.len() as u64);
    r.counter("receipt_runs_with_rejection", st.with_rejection);
    r.counter("receipt_rejections_seen(reference)", st.rejections);
    r.counter("receipt_runs_with_two_or_more_blockers", st.multi_blocker);
    r.counter("receipt_rejected_then_later_conflicting_candidate_accepted", st.mid_rej_later_acc);
    r.counter("receipt_scope_hash_ties", st.scope_hash_ties);
    r.counter("receipt_runs_where_radix_and_legacy_keys_order_differently", st.kinds_disagree_on_order_key);
    r.counter("receipt_sequences_where_radix_and_legacy_receipts_identical", st.kinds_identical);
    r.counter("receipt_sequences_where_radix_and_legacy_receipts_differ(observation)", st.kinds_differ);
    for (p, c) in &st.patterns {
        r.outcome_n(&format!("receipt-dispositions:{p}"), *c);
    }
    r.guard("receipt_rejections_seen", st.rejections > 0);
    r.counter("receipt_runs_with_blocker_preceded_by_rejected_entry", st.blocker_after_rejected);
    r.note("receipt_conflict_kinds_between_blocker_and_blocked", json!(st.kinds));
    r.note("receipt_candidates[rule,scope]", json!(cands.iter().map(|(k, s)| json!([RULE_NAMES[*k], s])).collect::<Vec<_>>()));
    r.guard("receipt_multi_blocker_seen", st.multi_blocker > 0);
    r.guard("receipt_blocker_preceded_by_rejected_entry_seen", st.blocker_after_rejected > 0);
    r.guard(
        "receipt_all_conflict_kinds_seen",
        REQUIRED_KIND_PREFIXES.iter().all(|p| st.kinds.iter().any(|k| k.starts_with(p))),
    );
    r.guard("receipt_rejected_candidate_did_not_block_seen", st.mid_rej_later_acc > 0);
    r.guard("receipt_distinct_disposition_patterns_gt_3", st.patterns.len() > 3);
    r.nontrivial_many(st.keys);
    let id_order: Vec<usize> = {
        let mut v: Vec<usize> = (0..N_RULES).collect();
        v.sort_by_key(|&k| rule_id(k));
        v
    };
    r.note(
        "scheduler_kind_sort_key_observation",
        json!({
            "radix_key": "(scope_hash, compact rule id = registration index, nonce)",
            "legacy_key": "(scope_hash, 32-byte rule id)",
            "registration_order": REG_ORDER.to_vec(),
            "rule_id_byte_order": id_order,
            "compact_order_equals_id_order": id_order == REG_ORDER.to_vec(),
            "observation": "the two kinds order rules differently on equal scope hashes, but Engine::apply derives scope_hash = BLAKE3(rule id ‖ instance ‖ scope node), so two distinct candidates never share a scope hash short of a BLAKE3 collision; the secondary key is therefore unobservable through the engine (receipt_scope_hash_ties = 0, runs where the two keys disagree = 0) and both kinds emit identical receipts. Only the raw-queue hook (part A) can exercise the rule digits of the sort key.",
        }),
    );
    // deterministic sample
    let seq = vec![(0usize, 0usize), (1, 0), (3, 1), (2, 1)];
    let mut tmp = Stats::default();
    let exp = expected(SchedulerKind::Radix, &seq, &mut tmp);
    r.sample(json!({"part": "C receipt", "applies[rule,scope] in arrival order": seq.iter().map(|(k, s)| json!([RULE_NAMES[*k], s])).collect::<Vec<_>>(),
        "expected_receipt(order by scope hash)": obs_json(&exp),
        "checked": "entries order, dispositions, blocked_by exactly the earlier accepted conflicting entries, try_from_retained_parts round-trip; Radix and Legacy"}));
}

pub fn replay(r: &Report, case: &Value) -> bool {
    if case["part"].as_str() != Some("receipt-seq") {
        return false;
    }
    let kind = if case["kind"].as_str() == Some("Legacy") { SchedulerKind::Legacy } else { SchedulerKind::Radix };
    let Some(arr) = case["applies[rule,scope]"].as_array() else {
        return false;
    };
    let seq: Vec<(usize, usize)> = arr
        .iter()
        .map(|e| (e[0].as_u64().unwrap_or(0) as usize % N_RULES, e[1].as_u64().unwrap_or(0) as usize % N_SCOPES))
        .collect();
    let mut st = Stats::default();
    check_case(r, kind, &seq, &mut st);
    r.eval(1);
    true
}
