//! Part B — reservation: RadixScheduler::reserve, LegacyScheduler::reserve (under partition-mask
//! families) and footprints_conflict against the reference greedy admission.

use crate::model::*;
use mc::{json, Report, Value};
use rayon::prelude::*;
use std::sync::atomic::{AtomicBool, Ordering};
use warp_core::verif_hooks::scheduler::{
    footprints_conflict, reserve_sequence_legacy, reserve_sequence_radix,
};
use warp_core::Footprint;

/// A finite universe of abstract footprints with their real counterparts per mask family.
pub struct Uni {
    pub name: String,
    pub abs: Vec<AbsFp>,
    pub real: Vec<Vec<Footprint>>, // [mask family][index]
    pub masks: Vec<Vec<u64>>,
}

impl Uni {
    pub fn new(name: &str, abs: Vec<AbsFp>) -> Uni {
        let real = ALL_MASKS
            .iter()
            .map(|m| abs.iter().map(|f| build_real(f, *m)).collect())
            .collect();
        let masks = ALL_MASKS
            .iter()
            .map(|m| abs.iter().map(|f| m.of(f)).collect())
            .collect();
        Uni {
            name: name.to_string(),
            abs,
            real,
            masks,
        }
    }
    pub fn len(&self) -> usize {
        self.abs.len()
    }
}

/// All claims of one instance: node, edge, attachment each in `levels` of {none,R,W,RW} and the
/// port in `port_levels` of {none,in,out,both}.
pub fn single_instance(inst: u8, levels: u8, port_levels: u8) -> Vec<AbsFp> {
    let mut out = Vec::new();
    for n in 0..levels {
        for e in 0..levels {
            for a in 0..levels {
                for p in 0..port_levels {
                    let mut f = AbsFp::default();
                    for (class, lv) in [(Class::Node, n), (Class::Edge, e), (Class::Att, a)] {
                        if lv > 0 {
                            f.claims.push(Claim {
                                inst,
                                class,
                                idx: 0,
                                r: lv == 1 || lv == 3,
                                w: lv == 2 || lv == 3,
                            });
                        }
                    }
                    if p > 0 {
                        f.ports.push(PortClaim {
                            inst,
                            id: 0,
                            inp: p == 1 || p == 3,
                            out: p == 2 || p == 3,
                        });
                    }
                    out.push(f);
                }
            }
        }
    }
    out
}

/// Distinct-resources universe: every footprint claims exactly ONE resource (read or write) out
/// of {node X, node Y, edge E0, edge E1 (raw id = X's), α slot of X, α slot of Y, β slot of E0,
/// β slot of E1} in instance 0, or one port (id 0 / id 1, in / out) — 24 footprints.  Two claims
/// conflict iff they name the SAME resource and one writes; claims on different resources never do,
/// however similar their identifiers (same raw bytes in another class, another plane, another id).
pub fn distinct_resources() -> Vec<AbsFp> {
    let mut out = Vec::new();
    for (class, n) in [(Class::Node, 2u8), (Class::Edge, 2), (Class::Att, 2), (Class::AttEdge, 2)] {
        for idx in 0..n {
            for w in [false, true] {
                let mut f = AbsFp::default();
                f.claims.push(Claim { inst: 0, class, idx, r: !w, w });
                out.push(f);
            }
        }
    }
    for id in 0..2u8 {
        for (inp, outp) in [(true, false), (false, true)] {
            let mut f = AbsFp::default();
            f.ports.push(PortClaim { inst: 0, id, inp, out: outp });
            out.push(f);
        }
    }
    // one write claim of node X in the OTHER instance (same local id, different instance)
    let mut f = AbsFp::default();
    f.claims.push(Claim { inst: 1, class: Class::Node, idx: 0, r: false, w: true });
    out.push(f);
    out
}

fn merge(a: &AbsFp, b: &AbsFp) -> AbsFp {
    let mut f = a.clone();
    f.claims.extend(b.claims.iter().copied());
    f.ports.extend(b.ports.iter().copied());
    f
}

pub fn two_instances(levels: u8, port_levels: u8) -> Vec<AbsFp> {
    let a = single_instance(0, levels, port_levels);
    let b = single_instance(1, levels, port_levels);
    let mut out = Vec::with_capacity(a.len() * b.len());
    for x in &a {
        for y in &b {
            out.push(merge(x, y));
        }
    }
    out
}

/// Small mixed two-instance universe for triples: node ∈ {none,R,W} on each instance and the
/// port ∈ {none,in,out} on instance 0 (27 footprints).
pub fn mixed_small() -> Vec<AbsFp> {
    let mut out = Vec::new();
    for n0 in 0..3u8 {
        for n1 in 0..3u8 {
            for p in 0..3u8 {
                let mut f = AbsFp::default();
                for (inst, lv) in [(0u8, n0), (1u8, n1)] {
                    if lv > 0 {
                        f.claims.push(Claim {
                            inst,
                            class: Class::Node,
                            idx: 0,
                            r: lv == 1,
                            w: lv == 2,
                        });
                    }
                }
                if p > 0 {
                    f.ports.push(PortClaim {
                        inst: 0,
                        id: 0,
                        inp: p == 1,
                        out: p == 2,
                    });
                }
                out.push(f);
            }
        }
    }
    out
}

#[derive(Default, Clone)]
pub struct Stats {
    pub seqs: u64,
    pub with_conflict: u64,
    pub rejections: u64,
    pub mid_rej_third_acc: u64,
    pub zero_mask_diverged: u64,
    pub radix_eq_legacy: u64,
    pub fc_true: u64,
    pub fc_false: u64,
    pub cross_instance_same_local_id_independent: u64,
    pub patterns: [u64; 16],
    pub keys: Vec<u128>,
}

impl Stats {
    pub fn merge(mut self, o: Stats) -> Stats {
        self.seqs += o.seqs;
        self.with_conflict += o.with_conflict;
        self.rejections += o.rejections;
        self.mid_rej_third_acc += o.mid_rej_third_acc;
        self.zero_mask_diverged += o.zero_mask_diverged;
        self.radix_eq_legacy += o.radix_eq_legacy;
        self.fc_true += o.fc_true;
        self.fc_false += o.fc_false;
        self.cross_instance_same_local_id_independent += o.cross_instance_same_local_id_independent;
        for i in 0..16 {
            self.patterns[i] += o.patterns[i];
        }
        self.keys.extend(o.keys);
        self
    }
}

fn strip_instance(f: &AbsFp) -> AbsFp {
    let mut g = f.clone();
    for c in &mut g.claims {
        c.inst = 0;
    }
    for p in &mut g.ports {
        p.inst = 0;
    }
    g
}

fn seq_json(abs: &[&AbsFp]) -> Value {
    json!(abs.iter().map(|f| f.to_json()).collect::<Vec<_>>())
}

fn report_mismatch(r: &Report, who: &str, abs: &[&AbsFp], exp: &[bool], blk: &[Vec<u32>], got: &[bool]) {
    let n = abs.len();
    let i = (0..n.min(got.len()))
        .find(|&i| exp[i] != got[i])
        .unwrap_or(n.min(got.len()));
    let sig = if got.len() != n {
        format!("reserve:{who}:len{n}:wrong-number-of-decisions")
    } else if !exp[i] {
        let mut kinds: Vec<String> = blk[i]
            .iter()
            .flat_map(|&j| conflict_kinds(abs[j as usize], abs[i]))
            .collect();
        kinds.sort();
        kinds.dedup();
        format!("reserve:{who}:len{n}:idx{i}:missed-conflict:{}", kinds.join(","))
    } else {
        let mut rej: Vec<String> = (0..i)
            .filter(|&j| !exp[j])
            .flat_map(|j| conflict_kinds(abs[j], abs[i]))
            .collect();
        rej.sort();
        rej.dedup();
        let selfk = conflict_kinds(abs[i], abs[i]);
        let mut other: Vec<String> = Vec::new();
        if rej.is_empty() {
            let ci = strip_instance(abs[i]);
            other = (0..i)
                .flat_map(|j| conflict_kinds(&strip_instance(abs[j]), &ci))
                .collect();
            other.sort();
            other.dedup();
        }
        format!(
            "reserve:{who}:len{n}:idx{i}:false-reject:vs-rejected=[{}]:self=[{}]:ignoring-instance=[{}]",
            rej.join(","),
            selfk.join(","),
            other.join(",")
        )
    };
    r.violation(
        &sig,
        json!({"case": {"part": "reserve-seq", "seq": seq_json(abs)}, "impl": who,
               "expected_decisions": exp, "got_decisions": got, "expected_blockers": blk}),
    );
}

/// Evaluate one sequence of footprints (indices into `u`).
pub fn check_seq(r: &Report, u: &Uni, idx: &[usize], st: &mut Stats, keys: bool) {
    let abs: Vec<&AbsFp> = idx.iter().map(|&i| &u.abs[i]).collect();
    let (exp, blk) = ref_admission(&abs);
    let n = idx.len();
    st.seqs += 1;

    // ---- subject calls -------------------------------------------------------------------
    let res = mc::catch(|| {
        let per_mask: Vec<Vec<Footprint>> = (0..ALL_MASKS.len())
            .map(|m| idx.iter().map(|&i| u.real[m][i].clone()).collect())
            .collect();
        let radix = reserve_sequence_radix(&per_mask[0]);
        let radix_zero = reserve_sequence_radix(&per_mask[4]);
        let legacy: Vec<Vec<bool>> = per_mask.iter().map(|f| reserve_sequence_legacy(f)).collect();
        let fc = if n == 2 {
            Some([
                footprints_conflict(&per_mask[0][0], &per_mask[0][1]),
                footprints_conflict(&per_mask[0][1], &per_mask[0][0]),
                footprints_conflict(&per_mask[4][0], &per_mask[4][1]),
                footprints_conflict(&per_mask[2][1], &per_mask[2][0]),
            ])
        } else {
            None
        };
        (radix, radix_zero, legacy, fc)
    });
    let (radix, radix_zero, legacy, fc) = match res {
        Ok(x) => x,
        Err(p) => {
            r.violation(
                "reserve:panic",
                json!({"case": {"part": "reserve-seq", "seq": seq_json(&abs)}, "panic": p}),
            );
            return;
        }
    };

    // ---- oracle --------------------------------------------------------------------------
    if radix != exp {
        report_mismatch(r, "radix", &abs, &exp, &blk, &radix);
    }
    if radix_zero != exp {
        // the radix scheduler must not look at factor_mask at all
        report_mismatch(r, "radix[zero-mask]", &abs, &exp, &blk, &radix_zero);
    }
    for (m, mask) in ALL_MASKS.iter().enumerate() {
        if *mask == Mask::Zero {
            if legacy[m] != exp {
                st.zero_mask_diverged += 1;
            }
            continue;
        }
        if legacy[m] != exp {
            report_mismatch(r, &format!("legacy[{}]", mask.name()), &abs, &exp, &blk, &legacy[m]);
        }
        if legacy[m] == radix {
            // "the two scheduler implementations make identical decisions whenever partition
            // masks are sound": implied by both == reference; counted, not re-reported.
            st.radix_eq_legacy += 1;
        }
    }
    if let Some(fc) = fc {
        let want = conflict(abs[0], abs[1]);
        if want {
            st.fc_true += 1;
        } else {
            st.fc_false += 1;
            if abs[0].instances() & abs[1].instances() == 0
                && conflict(&strip_instance(abs[0]), &strip_instance(abs[1]))
            {
                st.cross_instance_same_local_id_independent += 1;
            }
        }
        // verified, not assumed: every family labelled sound really is sound on this pair
        for (m, mask) in ALL_MASKS.iter().enumerate() {
            if *mask != Mask::Zero && want && (u.masks[m][idx[0]] & u.masks[m][idx[1]]) == 0 {
                r.machinery_error(&format!("mask family {} is not sound", mask.name()));
            }
        }
        for (k, got) in fc.iter().enumerate() {
            if *got != want {
                let kinds = if want {
                    conflict_kinds(abs[0], abs[1]).join(",")
                } else {
                    "none".into()
                };
                let which = ["(a,b)", "(b,a)", "(a,b)zero-mask", "(b,a)class-mask"][k];
                r.violation(
                    &format!("footprints_conflict{which}:expected-{want}:{kinds}"),
                    json!({"case": {"part": "reserve-seq", "seq": seq_json(&abs)},
                           "expected": want, "got": got, "args": which}),
                );
            }
        }
        if fc[0] != fc[1] {
            r.violation(
                "footprints_conflict:asymmetric",
                json!({"case": {"part": "reserve-seq", "seq": seq_json(&abs)}, "ab": fc[0], "ba": fc[1]}),
            );
        }
    }

    // ---- statistics ----------------------------------------------------------------------
    let rej = exp.iter().filter(|a| !**a).count() as u64;
    st.rejections += rej;
    if rej > 0 {
        st.with_conflict += 1;
        if keys {
            let mut kb = Vec::with_capacity(64);
            kb.extend_from_slice(b"B:");
            for a in &abs {
                a.key_bytes(&mut kb);
            }
            st.keys.push(Report::key(&kb));
        }
    }
    if n == 3 && !exp[1] && exp[2] && conflict(abs[1], abs[2]) {
        st.mid_rej_third_acc += 1;
    }
    if n >= 1 && n <= 3 {
        let bits = exp.iter().enumerate().fold(0usize, |b, (i, a)| b | ((*a as usize) << i));
        st.patterns[(1 << n) + bits] += 1;
    }
}

fn sweep_pairs(r: &Report, ua: &Uni, keys: bool) -> Stats {
    let capped = AtomicBool::new(false);
    let n = ua.len();
    let st = (0..n)
        .into_par_iter()
        .fold(Stats::default, |mut st, a| {
            if r.over_budget_frac(0.85) {
                capped.store(true, Ordering::Relaxed);
                return st;
            }
            for b in 0..n {
                check_seq(r, ua, &[a, b], &mut st, keys);
            }
            st
        })
        .reduce(Stats::default, Stats::merge);
    if capped.load(Ordering::Relaxed) {
        r.cap_hit(&format!("pair sweep over {} stopped by the wall cap after {} pairs", ua.name, st.seqs));
    }
    st
}

/// Pairs (a, b) and (b, a) with a from the first half of the universe and b from the second
/// (universe = inst-0 footprints followed by inst-1 footprints).
fn sweep_cross(r: &Report, u: &Uni, half: usize) -> Stats {
    (0..half)
        .into_par_iter()
        .fold(Stats::default, |mut st, a| {
            for b in half..u.len() {
                check_seq(r, u, &[a, b], &mut st, true);
                check_seq(r, u, &[b, a], &mut st, true);
            }
            st
        })
        .reduce(Stats::default, Stats::merge)
}

fn sweep_triples(r: &Report, u: &Uni, keys: bool) -> Stats {
    let n = u.len();
    let capped = AtomicBool::new(false);
    let st = (0..n * n)
        .into_par_iter()
        .fold(Stats::default, |mut st, ab| {
            if r.over_budget_frac(0.9) {
                capped.store(true, Ordering::Relaxed);
                return st;
            }
            for c in 0..n {
                check_seq(r, u, &[ab / n, ab % n, c], &mut st, keys);
            }
            st
        })
        .reduce(Stats::default, Stats::merge);
    if capped.load(Ordering::Relaxed) {
        r.cap_hit(&format!("triple sweep over {} stopped by the wall cap after {} triples", u.name, st.seqs));
    }
    st
}

fn record(r: &Report, name: &str, st: &Stats) {
    r.counter(&format!("reserve[{name}]_sequences"), st.seqs);
    r.counter(&format!("reserve[{name}]_sequences_with_rejection"), st.with_conflict);
}

pub fn run(r: &Report) {
    let mut total = Stats::default();
    let mut add = |r: &Report, name: &str, st: Stats| {
        record(r, name, &st);
        let t = std::mem::take(&mut total);
        total = t.merge(st);
    };

    // singles: a lone candidate is always accepted
    let u81 = Uni::new("81 footprints, instance 0", single_instance(0, 3, 3));
    let mut st = Stats::default();
    for a in 0..u81.len() {
        check_seq(r, &u81, &[a], &mut st, false);
    }
    add(r, "singles", st);

    // distinct resources with look-alike identifiers: all pairs and all triples (both tiers)
    {
        let ud = Uni::new("21 single-resource footprints over look-alike ids", distinct_resources());
        add(r, "pairs:distinct-resources", sweep_pairs(r, &ud, true));
        add(r, "triples:distinct-resources", sweep_triples(r, &ud, true));
    }

    if r.quick() {
        add(r, "pairs:instance0:81x81", sweep_pairs(r, &u81, true));
        let u81b = Uni::new("81 footprints, instance 1", single_instance(1, 3, 3));
        add(r, "pairs:instance1:81x81", sweep_pairs(r, &u81b, true));
        let mut both = single_instance(0, 3, 3);
        both.extend(single_instance(1, 3, 3));
        let ux = Uni::new("81 (instance 0) + 81 (instance 1)", both);
        add(r, "pairs:cross-instance:2x81x81", sweep_cross(r, &ux, 81));
        let u27 = Uni::new("27 footprints (node,edge,att in none/R/W), instance 0", single_instance(0, 3, 1));
        add(r, "triples:27^3", sweep_triples(r, &u27, true));
        // port-bearing triples: node x port sub-universe (9 footprints) crossed with the 27
        let u36 = Uni::new(
            "36 footprints (node in none/R/W, edge in none/W, att in none/R, port in none/in/out), instance 0",
            single_instance(0, 3, 3)
                .into_iter()
                .filter(|f| {
                    f.claims.iter().all(|c| match c.class {
                        Class::Node => true,
                        Class::Edge => c.w,
                        Class::Att | Class::AttEdge => c.r,
                    })
                })
                .collect(),
        );
        add(r, "triples:36^3(with ports)", sweep_triples(r, &u36, true));
    } else {
        let u2 = Uni::new("6561 footprints over two instances", two_instances(3, 3));
        add(r, "pairs:two-instances:6561x6561", sweep_pairs(r, &u2, false));
        add(r, "pairs:instance0:81x81", sweep_pairs(r, &u81, true));
        add(r, "triples:81^3", sweep_triples(r, &u81, false));
        let u27 = Uni::new("27 footprints (node,edge,att in none/R/W), instance 0", single_instance(0, 3, 1));
        add(r, "triples:27^3", sweep_triples(r, &u27, true));
        // RW-both / in+out variants
        let u256 = Uni::new("256 footprints with RW and in+out, instance 0", single_instance(0, 4, 4));
        add(r, "pairs:instance0:256x256(RW variants)", sweep_pairs(r, &u256, true));
        let mut both = single_instance(0, 4, 4);
        both.extend(single_instance(1, 4, 4));
        let ux = Uni::new("256 (instance 0) + 256 (instance 1)", both);
        add(r, "pairs:cross-instance:2x256x256(RW variants)", sweep_cross(r, &ux, 256));
        let u64_ = Uni::new("64 footprints (node,edge,att in none/R/W/RW), instance 0", single_instance(0, 4, 1));
        add(r, "triples:64^3(RW variants)", sweep_triples(r, &u64_, false));
    }
    let um = Uni::new("27 mixed two-instance footprints", mixed_small());
    add(r, "triples:mixed-two-instance:27^3", sweep_triples(r, &um, true));

    r.eval(total.seqs);
    r.counter("reserve_sequences_total", total.seqs);
    r.counter("reserve_rejections_seen(reference)", total.rejections);
    r.counter("reserve_sequences_with_conflict", total.with_conflict);
    r.counter("reserve_middle_rejected_then_third_accepted", total.mid_rej_third_acc);
    r.counter("reserve_legacy_zero_mask_divergences(observation, unsound masks)", total.zero_mask_diverged);
    r.counter("reserve_radix_equals_legacy(sequence x sound mask family)", total.radix_eq_legacy);
    r.counter("footprints_conflict_pairs_true", total.fc_true);
    r.counter("footprints_conflict_pairs_false", total.fc_false);
    r.counter(
        "pairs_independent_only_because_instances_differ",
        total.cross_instance_same_local_id_independent,
    );
    for n in 1..=3usize {
        for bits in 0..(1usize << n) {
            let c = total.patterns[(1 << n) + bits];
            if c > 0 {
                let s: String = (0..n).map(|i| if bits >> i & 1 == 1 { 'A' } else { 'R' }).collect();
                r.outcome_n(&format!("reserve-decisions:{s}"), c);
            }
        }
    }
    r.guard("reserve_conflicts_seen", total.with_conflict > 0 && total.fc_true > 0);
    r.guard("reserve_independent_pairs_seen", total.fc_false > 0);
    r.guard("reserve_rejections_seen", total.rejections > 0);
    r.guard("middle_rejected_then_third_accepted_seen", total.mid_rej_third_acc > 0);
    r.guard("legacy_zero_mask_divergence_demonstrated", total.zero_mask_diverged > 0);
    r.guard(
        "instance_separation_exercised",
        total.cross_instance_same_local_id_independent > 0,
    );
    r.nontrivial_many(total.keys);
    r.note(
        "legacy_zero_mask_note",
        json!("with factor_mask = 0 on every footprint (the engine-spike placeholder) Footprint::independent returns true before looking at any set, so LegacyScheduler accepts conflicting candidates; counted above as an observation about UNSOUND masks, not a violation of the property (which is conditional on sound masks)"),
    );

    // deterministic samples
    let a = &u81.abs[2 * 27 + 9 + 3]; // node W, edge R, att R
    let b = &u81.abs[27 + 2 * 9]; // node R, edge W
    let c = &u81.abs[9 + 0 + 1]; // edge R, port in
    let seq = [a, b, c];
    let (dec, blk) = ref_admission(&seq);
    r.sample(json!({"part": "B reserve triple", "seq": seq_json(&seq), "reference_decisions": dec,
        "reference_blockers": blk,
        "checked": "RadixScheduler == LegacyScheduler(4 sound mask families) == reference; B is rejected and reserves nothing, so C (conflicting only with B) is accepted"}));
    let x = &um.abs[2 * 9]; // node W on instance 0
    let y = &um.abs[2 * 3]; // node W on instance 1 (same local id)
    r.sample(json!({"part": "B cross-instance pair", "seq": seq_json(&[x, y]),
        "reference_conflict": conflict(x, y),
        "checked": "same local node id in two instances never conflicts"}));
}

pub fn replay(r: &Report, case: &Value) -> bool {
    if case["part"].as_str() != Some("reserve-seq") {
        return false;
    }
    let Some(arr) = case["seq"].as_array() else {
        return false;
    };
    let Some(abs) = arr.iter().map(AbsFp::from_json).collect::<Option<Vec<_>>>() else {
        return false;
    };
    let n = abs.len();
    let u = Uni::new("replay", abs);
    let mut st = Stats::default();
    let idx: Vec<usize> = (0..n).collect();
    check_seq(r, &u, &idx, &mut st, false);
    r.eval(1);
    true
}
