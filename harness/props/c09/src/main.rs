//! Property check C09 — a scheduler pass is all-or-nothing and strictly ordered.
//!
//! System under test: the real `WorldlineRuntime` + `ProvenanceService` (cloned as explicit
//! state) driven by `SchedulerCoordinator::super_tick` on a fresh `Engine` per pass.
//!
//! Enumeration (see `scenarios`): every (number of runnable heads n, worldline shape, registration
//! order, failing position k ≤ n, failure kind, index of the failing pass in a 3-pass run), followed
//! by a breadth-first search over further operations (pass / trusted recovery / eligibility change /
//! new ingress) from the end state of the run.
//!
//! Oracle: a boring reference model of the scheduler (`Model`: per-head pending sets with the
//! behaviour each pending intent selects, quarantine flags, tick counters) predicts for every pass
//! whether it is blocked, fails (and at which head, with which fault scope) or commits (which heads,
//! in canonical key order, how many envelopes each).  `check_pass` compares the prediction and the
//! invariants of the property statement against the real pre/post states: on a failed pass every
//! field of the runtime except fault evidence, the provenance service, inboxes, receipt-correlation
//! indexes, worldline states, frontiers and the global tick equal their pre-pass values; on a
//! successful pass commits are in ascending `WriterHeadKey` order, each committed worldline advances
//! by one per committed head step, the global tick by exactly one, and every `StepRecord` matches
//! its provenance entry.

use std::collections::{BTreeMap, BTreeSet};

use mc::{json, Level, Report, Value};
use rayon::prelude::*;
use rtkit::*;
use rules::{val, Program, Step};
use warp_core::verif_hooks::coordinator as hooks;
use warp_core::{
    Hash, HeadEligibility, InboxPolicy, IngressDisposition, IngressEnvelope, IngressTarget,
    ProvenanceStore, RuntimeError, SchedulerCoordinator, SchedulerFaultId,
    SchedulerFaultRecoveryAuthority, SchedulerFaultScope, SchedulerFaultStatus, SchedulerKind,
    TickReceiptDisposition, WorldlineTick, WriterHeadKey,
};

// ---------------------------------------------------------------------------------------------
// Alphabet
// ---------------------------------------------------------------------------------------------

#[derive(Clone, Copy, Debug, PartialEq, Eq, PartialOrd, Ord, Hash)]
enum Kind {
    /// executor panic (`Step::Panic`)
    Panic,
    /// dishonest footprint (`p.omitting(k)`): enforcement unwinds with a typed payload
    Violation,
    /// `DeleteNodeUnchecked` on a node with incident edges: typed `EngineError` at commit
    InvalidOp,
    /// write into an instance that does not exist (the closest public-API approach to "missing
    /// instance": a validated `WorldlineState` cannot lose its root instance)
    CrossInstance,
    /// provenance append rejected after the engine commit succeeded (frontier tick desynchronised
    /// from the provenance length through the H6 hook): typed `RuntimeError::Provenance`
    ProvGap,
    /// two ticketed intents in the failing head's batch cite the same admission ticket: the second
    /// receipt correlation is refused *after* commit, append, committed-ingress recording and tick
    /// advance of that head (typed `ReceiptCorrelationReplayMismatch`)
    CorrClash,
    /// frontier tick at `u64::MAX` (hook): pre-flight `FrontierTickOverflow`
    FrontierOverflow,
    /// global tick at `u64::MAX` (hook): `GlobalTickOverflow`
    GlobalOverflow,
    /// two intents with conflicting footprints on one head: lawful rejection, NOT a failure
    LawfulLoser,
}

const FAIL_KINDS: [Kind; 8] = [
    Kind::Panic,
    Kind::Violation,
    Kind::InvalidOp,
    Kind::CrossInstance,
    Kind::ProvGap,
    Kind::CorrClash,
    Kind::FrontierOverflow,
    Kind::GlobalOverflow,
];

/// Behaviour a pending intent selects through its program bytes.
#[derive(Clone, Copy, Debug, PartialEq, Eq, PartialOrd, Ord)]
enum Beh {
    Ok { n: u8, v: u8 },
    Panic,
    Violation,
    InvalidOp,
    CrossInstance,
    LoserA,
    LoserB,
}

fn program_of(b: Beh) -> Program {
    match b {
        Beh::Ok { n, v } => Program::new(vec![Step::SetNodeAtt { n, v }]),
        // no write at all: cannot lose a footprint conflict, always executes
        Beh::Panic => Program::new(vec![Step::Panic]),
        // writes e0's attachment while declaring only the read of its own scope
        Beh::Violation => Program::new(vec![Step::SetEdgeAtt { e: 0, v: 3 }]).omitting(1),
        // n1 has the incident edge e0: n0 -> n1
        Beh::InvalidOp => Program::new(vec![Step::DeleteNodeUnchecked { n: 1 }]),
        Beh::CrossInstance => Program::new(vec![Step::CrossSetNodeAtt { w: 1, n: 1, v: 1 }]),
        Beh::LoserA => Program::new(vec![Step::SetNodeAtt { n: 1, v: 1 }]),
        Beh::LoserB => Program::new(vec![Step::SetNodeAtt { n: 1, v: 5 }]),
    }
}

#[derive(Clone, Debug)]
struct Pend {
    beh: Beh,
    /// `(submission id, ticket digest)` when staged through ticketed ingress.
    ticket: Option<(Hash, Hash)>,
}

// ---------------------------------------------------------------------------------------------
// Scenario
// ---------------------------------------------------------------------------------------------

#[derive(Clone, Debug)]
struct Scenario {
    /// heads per worldline, e.g. [2,1] = two heads on wl(1), one on wl(2)
    shape: Vec<u8>,
    /// register heads in descending instead of ascending key order
    reg_rev: bool,
    /// 1-based position (canonical key order) of the head that fails
    k: usize,
    kind: Kind,
    /// 0 = first, 1 = middle, 2 = last pass of the 3-pass run
    pass: usize,
    sched: SchedulerKind,
}

impl Scenario {
    fn n(&self) -> usize {
        self.shape.iter().map(|c| *c as usize).sum()
    }
    fn to_json(&self) -> Value {
        json!({"shape": self.shape, "reg_rev": self.reg_rev, "k": self.k, "kind": format!("{:?}", self.kind),
               "pass": self.pass, "sched": format!("{:?}", self.sched)})
    }
    fn from_json(v: &Value) -> Option<Scenario> {
        let kind = match v.get("kind")?.as_str()? {
            "Panic" => Kind::Panic,
            "Violation" => Kind::Violation,
            "InvalidOp" => Kind::InvalidOp,
            "CrossInstance" => Kind::CrossInstance,
            "ProvGap" => Kind::ProvGap,
            "CorrClash" => Kind::CorrClash,
            "FrontierOverflow" => Kind::FrontierOverflow,
            "GlobalOverflow" => Kind::GlobalOverflow,
            "LawfulLoser" => Kind::LawfulLoser,
            _ => return None,
        };
        Some(Scenario {
            shape: v
                .get("shape")?
                .as_array()?
                .iter()
                .filter_map(|x| x.as_u64().map(|x| x as u8))
                .collect(),
            reg_rev: v.get("reg_rev")?.as_bool()?,
            k: v.get("k")?.as_u64()? as usize,
            kind,
            pass: v.get("pass")?.as_u64()? as usize,
            sched: if v.get("sched")?.as_str()? == "Legacy" {
                SchedulerKind::Legacy
            } else {
                SchedulerKind::Radix
            },
        })
    }
}

/// All compositions of n into 1..=max_w positive parts.
fn shapes(n: usize, max_w: usize) -> Vec<Vec<u8>> {
    fn rec(rem: usize, parts_left: usize, cur: &mut Vec<u8>, out: &mut Vec<Vec<u8>>) {
        if rem == 0 {
            if !cur.is_empty() {
                out.push(cur.clone());
            }
            return;
        }
        if parts_left == 0 {
            return;
        }
        for c in 1..=rem {
            cur.push(c as u8);
            rec(rem - c, parts_left - 1, cur, out);
            cur.pop();
        }
    }
    let mut out = Vec::new();
    rec(n, max_w, &mut Vec::new(), &mut out);
    out
}

fn scenarios(max_n: usize, scheds: &[SchedulerKind]) -> Vec<Scenario> {
    let mut out = Vec::new();
    for n in 1..=max_n {
        for shape in shapes(n, 3) {
            if shape.iter().any(|c| *c > 4) {
                continue;
            }
            for reg_rev in [false, true] {
                if n == 1 && reg_rev {
                    continue;
                }
                for k in 1..=n {
                    for kind in FAIL_KINDS.iter().copied().chain([Kind::LawfulLoser]) {
                        for pass in 0..3 {
                            for sched in scheds {
                                out.push(Scenario {
                                    shape: shape.clone(),
                                    reg_rev,
                                    k,
                                    kind,
                                    pass,
                                    sched: *sched,
                                });
                            }
                        }
                    }
                }
            }
        }
    }
    out
}

// ---------------------------------------------------------------------------------------------
// Reference model
// ---------------------------------------------------------------------------------------------

#[derive(Clone, Debug)]
struct HeadM {
    key: WriterHeadKey,
    w: u8,
    pending: BTreeMap<Hash, Pend>,
    faulted: bool,
    dormant: bool,
}

#[derive(Clone, Copy, Debug, PartialEq, Eq)]
enum WlHook {
    None,
    /// frontier tick forced to u64::MAX
    Max,
    /// frontier tick forced ahead of the provenance length
    Gap,
}

#[derive(Clone, Debug)]
struct Model {
    /// canonical key order
    heads: Vec<HeadM>,
    runtime_fault: bool,
    global: u64,
    global_max: bool,
    /// true frontier tick (= provenance length) per worldline
    wl_tick: BTreeMap<u8, u64>,
    wl_hook: BTreeMap<u8, WlHook>,
    faults: usize,
    next_gen: u64,
    correlations: usize,
    serial: u32,
    /// the real system left the model's predictions (already reported as a violation): stop checking this path
    desync: bool,
}

#[derive(Clone, Copy, Debug, PartialEq, Eq)]
enum Scope {
    Head(usize),
    Runtime,
}

#[derive(Clone, Copy, Debug, PartialEq, Eq)]
enum FailClass {
    Panic,
    Violation,
    EngineErr,
    /// engine-side failure whose surface (typed error or unwind) is read off the run
    EngineAny,
    ProvErr,
    CorrErr,
    FrontierOverflow,
    GlobalOverflow,
}

#[derive(Clone, Debug, PartialEq, Eq)]
enum Expect {
    Blocked,
    Fail {
        class: FailClass,
        culprit: Option<usize>,
        /// number of heads before the culprit that the pass had already committed
        committed_before: usize,
        ticketed_before: usize,
    },
    Commit(Vec<(usize, usize)>),
}

impl Model {
    fn runnable(&self) -> Vec<usize> {
        if self.runtime_fault {
            return Vec::new();
        }
        (0..self.heads.len())
            .filter(|i| !self.heads[*i].faulted && !self.heads[*i].dormant)
            .collect()
    }

    fn expect(&self) -> Expect {
        if self.runtime_fault {
            return Expect::Blocked;
        }
        if self.global_max {
            return Expect::Fail {
                class: FailClass::GlobalOverflow,
                culprit: None,
                committed_before: 0,
                ticketed_before: 0,
            };
        }
        let run = self.runnable();
        for &i in &run {
            let h = &self.heads[i];
            if !h.pending.is_empty() && self.wl_hook[&h.w] == WlHook::Max {
                return Expect::Fail {
                    class: FailClass::FrontierOverflow,
                    culprit: Some(i),
                    committed_before: 0,
                    ticketed_before: 0,
                };
            }
        }
        let mut commits = Vec::new();
        let mut ticketed_before = 0;
        for &i in &run {
            let h = &self.heads[i];
            if h.pending.is_empty() {
                continue;
            }
            let has = |b: Beh| h.pending.values().any(|p| p.beh == b);
            let fail = |class| Expect::Fail {
                class,
                culprit: Some(i),
                committed_before: commits.len(),
                ticketed_before,
            };
            if has(Beh::Panic) {
                return fail(FailClass::Panic);
            }
            if has(Beh::Violation) {
                return fail(FailClass::Violation);
            }
            if has(Beh::CrossInstance) {
                return fail(FailClass::EngineAny);
            }
            if has(Beh::InvalidOp) {
                return fail(FailClass::EngineErr);
            }
            if self.wl_hook[&h.w] == WlHook::Gap {
                return fail(FailClass::ProvErr);
            }
            let mut tickets = BTreeSet::new();
            let mut clash = false;
            for p in h.pending.values() {
                if let Some((_, t)) = p.ticket {
                    if !tickets.insert(t) {
                        clash = true;
                    }
                }
            }
            if clash {
                return fail(FailClass::CorrErr);
            }
            ticketed_before += tickets.len();
            commits.push((i, h.pending.len()));
        }
        Expect::Commit(commits)
    }
}

// ---------------------------------------------------------------------------------------------
// World = real system + model
// ---------------------------------------------------------------------------------------------

#[derive(Clone)]
struct World {
    rt: Rt,
    m: Model,
}

#[derive(Default)]
struct Out {
    viol: Vec<(String, String)>,
    outcomes: Vec<String>,
    counters: BTreeMap<&'static str, u64>,
    nontrivial: Vec<u128>,
    evals: u64,
    transitions: u64,
    states: u64,
    traces: u64,
    machinery: Vec<String>,
}

impl Out {
    fn v(&mut self, sig: impl Into<String>, what: impl Into<String>) {
        self.viol.push((sig.into(), what.into()));
    }
    fn c(&mut self, k: &'static str) {
        *self.counters.entry(k).or_default() += 1;
    }
    fn merge(&mut self, o: Out) {
        self.viol.extend(o.viol);
        self.outcomes.extend(o.outcomes);
        for (k, n) in o.counters {
            *self.counters.entry(k).or_default() += n;
        }
        self.nontrivial.extend(o.nontrivial);
        self.evals += o.evals;
        self.transitions += o.transitions;
        self.states += o.states;
        self.traces += o.traces;
        self.machinery.extend(o.machinery);
    }
}

fn build_world(sc: &Scenario) -> World {
    let mut heads = Vec::new();
    for (wi, c) in sc.shape.iter().enumerate() {
        for h in 0..*c {
            heads.push((wi as u8 + 1, h, InboxPolicy::AcceptAll));
        }
    }
    // registration order: ascending or descending canonical key order
    heads.sort_by_key(|(w, h, _)| head_key(*w, *h));
    if sc.reg_rev {
        heads.reverse();
    }
    let rt = build_rt(sc.shape.len() as u8, &heads);
    let mut keys: Vec<(WriterHeadKey, u8)> =
        heads.iter().map(|(w, h, _)| (head_key(*w, *h), *w)).collect();
    keys.sort();
    let m = Model {
        heads: keys
            .into_iter()
            .map(|(key, w)| HeadM {
                key,
                w,
                pending: BTreeMap::new(),
                faulted: false,
                dormant: false,
            })
            .collect(),
        runtime_fault: false,
        global: 0,
        global_max: false,
        wl_tick: (1..=sc.shape.len() as u8).map(|w| (w, 0)).collect(),
        wl_hook: (1..=sc.shape.len() as u8)
            .map(|w| (w, WlHook::None))
            .collect(),
        faults: 0,
        next_gen: 0,
        correlations: 0,
        serial: 0,
        desync: false,
    };
    World { rt, m }
}

impl World {
    fn envelope(&self, pos: usize, beh: Beh) -> IngressEnvelope {
        IngressEnvelope::local_intent(
            IngressTarget::ExactHead {
                key: self.m.heads[pos].key,
            },
            prog_kind(),
            program_of(beh).to_bytes(),
        )
    }

    /// Ingest one intent on head `pos` (plain or ticketed); the model learns its behaviour.
    fn ingest(&mut self, pos: usize, beh: Beh, ticket: Option<Hash>, out: &mut Out) {
        let env = self.envelope(pos, beh);
        let id = env.ingress_id();
        let known = self.m.heads[pos].pending.contains_key(&id);
        match ticket {
            None => match self.rt.runtime.ingest(env) {
                Ok(IngressDisposition::Accepted { head_key, .. }) => {
                    if head_key != self.m.heads[pos].key || known {
                        out.v("ingest:unexpected-accept", format!("pos={pos} beh={beh:?}"));
                    }
                    self.m.heads[pos]
                        .pending
                        .insert(id, Pend { beh, ticket: None });
                }
                other => out.machinery.push(format!(
                    "harness ingest of a fresh intent was not accepted: {other:?} pos={pos} beh={beh:?}"
                )),
            },
            Some(t) => match stage_ticketed(&mut self.rt.runtime, env, t) {
                Ok((sid, warp_core::TicketedRuntimeIngressDisposition::Staged { .. })) => {
                    self.m.heads[pos].pending.insert(
                        id,
                        Pend {
                            beh,
                            ticket: Some((sid, t)),
                        },
                    );
                }
                other => out.machinery.push(format!(
                    "harness ticketed staging failed: {other:?} pos={pos} beh={beh:?}"
                )),
            },
        }
    }

    fn fresh_ok(&mut self, n: u8) -> Beh {
        self.m.serial += 1;
        Beh::Ok {
            n,
            v: 6 + (self.m.serial % 240) as u8,
        }
    }
}

/// Names of runtime fields (fault evidence and runnable cache excluded) that differ.
fn diff_fields(a: &warp_core::WorldlineRuntime, b: &warp_core::WorldlineRuntime) -> Vec<String> {
    let (sa, sb) = (format!("{a:?}"), format!("{b:?}"));
    let (fa, fb) = (debug_fields(&sa), debug_fields(&sb));
    match (fa, fb) {
        (Some(fa), Some(fb)) => {
            let mb: BTreeMap<&str, &str> = fb.into_iter().collect();
            fa.into_iter()
                .filter(|(k, v)| {
                    !FAULT_FIELDS.contains(k) && *k != RUNNABLE_FIELD && mb.get(k) != Some(v)
                })
                .map(|(k, _)| k.to_string())
                .collect()
        }
        _ => vec!["<unparseable>".into()],
    }
}

fn active_faults(rt: &warp_core::WorldlineRuntime) -> Vec<(u64, SchedulerFaultId, SchedulerFaultScope)> {
    let mut v: Vec<_> = rt
        .scheduler_faults()
        .filter(|f| matches!(f.status, SchedulerFaultStatus::Active))
        .map(|f| (f.fault_generation.as_u64(), f.fault_id, f.scope))
        .collect();
    v.sort_by_key(|x| x.0);
    v
}

/// Check the quarantine read-back surfaces against the model.
fn check_quarantine(w: &World, tag: &str, out: &mut Out) {
    let rt = &w.rt.runtime;
    for h in &w.m.heads {
        if rt.is_head_faulted(&h.key) != h.faulted {
            out.v(
                format!("quarantine:is_head_faulted-disagrees-with-model:{tag}"),
                format!("head={:?} model={}", h.key, h.faulted),
            );
        }
    }
    if rt.is_runtime_faulted() != w.m.runtime_fault {
        out.v(
            format!("quarantine:is_runtime_faulted-disagrees-with-model:{tag}"),
            format!("model={}", w.m.runtime_fault),
        );
    }
    if rt.scheduler_fault_count() != w.m.faults {
        out.v(
            format!("fault-evidence:count-disagrees-with-model:{tag}"),
            format!("real={} model={}", rt.scheduler_fault_count(), w.m.faults),
        );
    }
    let expect_order: Vec<WriterHeadKey> =
        w.m.runnable().iter().map(|i| w.m.heads[*i].key).collect();
    if SchedulerCoordinator::peek_order(rt) != expect_order {
        out.v(
            format!("quarantine:peek_order-disagrees-with-model:{tag}"),
            format!("real={:?}", SchedulerCoordinator::peek_order(rt)),
        );
    }
}

/// Run one pass on the real system, compare with the model's prediction and the statement's
/// invariants, and advance the model.  Returns the prediction that was checked.
fn step_pass(w: &mut World, sched: SchedulerKind, ktag: &str, out: &mut Out) -> Expect {
    let pre = w.rt.clone();
    let pre_view = runtime_view(&pre.runtime);
    let pre_prov = format!("{:?}", pre.provenance);
    let expect = w.m.expect();
    let run = run_pass(&mut w.rt, sched);
    out.evals += 1;
    out.outcomes.push(format!("pass:{}", run.outcome.label()));
    let post_view = runtime_view(&w.rt.runtime);
    let post_prov = format!("{:?}", w.rt.provenance);
    let (pre_view, post_view) = match (pre_view, post_view) {
        (Some(a), Some(b)) => (a, b),
        _ => {
            out.machinery
                .push("WorldlineRuntime Debug text does not have the expected fields".into());
            return expect;
        }
    };
    if !run.engine_clean {
        out.v(
            format!("engine-state-dirty-after-pass:{ktag}"),
            "fresh engine's observable state changed across super_tick",
        );
    }
    let pre_front = frontier_summary(&pre.runtime);
    let post_front = frontier_summary(&w.rt.runtime);
    let pre_g = pre.runtime.global_tick().as_u64();
    let post_g = w.rt.runtime.global_tick().as_u64();

    match &expect {
        Expect::Blocked => {
            out.c("pass_blocked_by_runtime_fault");
            match &run.outcome {
                PassOutcome::Err(RuntimeError::SchedulerRuntimeFaultActive(id)) => {
                    let active = pre.runtime.scheduler_runtime_fault().map(|f| f.fault_id);
                    if active != Some(*id) {
                        out.v(
                            format!("blocked-pass:cites-wrong-fault:{ktag}"),
                            format!("{id:?} vs {active:?}"),
                        );
                    }
                }
                o => out.v(
                    format!("runtime-fault-does-not-block-pass:{ktag}"),
                    format!("outcome {}", o.label()),
                ),
            }
            if pre_view.rest != post_view.rest
                || pre_view.fault != post_view.fault
                || pre_view.runnable != post_view.runnable
                || pre_prov != post_prov
            {
                out.v(
                    format!("blocked-pass:state-changed:{ktag}"),
                    format!("fields {:?}", diff_fields(&pre.runtime, &w.rt.runtime)),
                );
            }
        }
        Expect::Fail {
            class,
            culprit,
            committed_before,
            ticketed_before,
        } => {
            out.c("failed_passes");
            if *committed_before > 0 {
                out.c("failed_passes_after_earlier_heads_committed");
            }
            if *ticketed_before > 0 {
                out.c("failed_passes_after_earlier_receipt_correlations");
            }
            // 1. the failure surfaces as the kind predicts
            let observed = match &run.outcome {
                PassOutcome::Panic(p) if p.payload.starts_with("violation") => {
                    Some(FailClass::Violation)
                }
                PassOutcome::Panic(p) if p.payload == "str" && p.msg == "verif program panic" => {
                    Some(FailClass::Panic)
                }
                PassOutcome::Panic(_) => None,
                PassOutcome::Err(RuntimeError::Engine(_)) => Some(FailClass::EngineErr),
                PassOutcome::Err(RuntimeError::Provenance(_)) => Some(FailClass::ProvErr),
                PassOutcome::Err(RuntimeError::ReceiptCorrelationReplayMismatch(_)) => {
                    Some(FailClass::CorrErr)
                }
                PassOutcome::Err(RuntimeError::FrontierTickOverflow(wid))
                    if culprit.map(|c| wl(w.m.heads[c].w)) == Some(*wid) =>
                {
                    Some(FailClass::FrontierOverflow)
                }
                PassOutcome::Err(RuntimeError::GlobalTickOverflow) => {
                    Some(FailClass::GlobalOverflow)
                }
                _ => None,
            };
            let surface_ok = match (*class, observed) {
                (FailClass::EngineAny, Some(o)) => matches!(
                    o,
                    FailClass::Panic | FailClass::Violation | FailClass::EngineErr
                ),
                (c, Some(o)) => c == o,
                (_, None) => false,
            };
            let class = match (*class, observed) {
                (FailClass::EngineAny, Some(o)) => o,
                (c, _) => c,
            };
            if !surface_ok {
                out.v(
                    format!("failed-pass:unexpected-surface:{ktag}:expected={class:?}"),
                    format!("outcome {} ({:?})", run.outcome.label(), run.outcome),
                );
                if matches!(run.outcome, PassOutcome::Ok(_)) {
                    // the model cannot follow a pass that committed instead of failing
                    w.m.desync = true;
                    return expect;
                }
            }
            if matches!(run.outcome, PassOutcome::Panic(_)) {
                out.c("panics_reraised_after_restore");
            }
            // 2. everything except fault evidence equals its pre-pass value
            if pre_view.rest != post_view.rest {
                for f in diff_fields(&pre.runtime, &w.rt.runtime) {
                    out.v(
                        format!("failed-pass:runtime-field-not-restored:{f}:{ktag}"),
                        format!("class {class:?} culprit {culprit:?} committed_before {committed_before}"),
                    );
                }
            }
            if pre_prov != post_prov {
                out.v(
                    format!("failed-pass:provenance-not-restored:{ktag}"),
                    format!("class {class:?} culprit {culprit:?} committed_before {committed_before}"),
                );
            }
            // the same through the public read-back API
            if pre_g != post_g {
                out.v(
                    format!("failed-pass:global-tick-changed:{ktag}"),
                    format!("{pre_g} -> {post_g}"),
                );
            }
            if pre_front != post_front {
                out.v(
                    format!("failed-pass:worldline-state-or-frontier-changed:{ktag}"),
                    "state root / frontier tick differ",
                );
            }
            if pending_summary(&pre.runtime) != pending_summary(&w.rt.runtime) {
                out.v(
                    format!("failed-pass:inbox-contents-changed:{ktag}"),
                    format!(
                        "{:?} -> {:?}",
                        pending_summary(&pre.runtime)
                            .iter()
                            .map(|x| x.1)
                            .collect::<Vec<_>>(),
                        pending_summary(&w.rt.runtime)
                            .iter()
                            .map(|x| x.1)
                            .collect::<Vec<_>>()
                    ),
                );
            }
            if pre.runtime.receipt_correlation_count() != w.rt.runtime.receipt_correlation_count()
                || pre.runtime.pending_witnessed_submission_count()
                    != w.rt.runtime.pending_witnessed_submission_count()
            {
                out.v(
                    format!("failed-pass:receipt-correlation-indexes-changed:{ktag}"),
                    format!(
                        "correlations {} -> {}",
                        pre.runtime.receipt_correlation_count(),
                        w.rt.runtime.receipt_correlation_count()
                    ),
                );
            }
            for wid in pre_front.keys() {
                if pre.provenance.len(*wid).ok() != w.rt.provenance.len(*wid).ok() {
                    out.v(
                        format!("failed-pass:provenance-length-changed:{ktag}"),
                        format!("{wid:?}"),
                    );
                }
            }
            // 3. only fault evidence grew: exactly one new Active record with the predicted scope
            let scope = match class {
                FailClass::EngineErr | FailClass::FrontierOverflow => {
                    Scope::Head(culprit.unwrap_or(0))
                }
                _ => Scope::Runtime,
            };
            let old: BTreeMap<_, _> = pre
                .runtime
                .scheduler_faults()
                .map(|f| (f.fault_id, f.clone()))
                .collect();
            let mut new_records = Vec::new();
            for f in w.rt.runtime.scheduler_faults() {
                match old.get(&f.fault_id) {
                    Some(o) if o == f => {}
                    Some(_) => out.v(
                        format!("failed-pass:existing-fault-record-mutated:{ktag}"),
                        format!("{f:?}"),
                    ),
                    None => new_records.push(f.clone()),
                }
            }
            if w.rt.runtime.scheduler_fault_count() != old.len() + new_records.len() {
                out.v(
                    format!("failed-pass:fault-record-lost:{ktag}"),
                    "an existing record disappeared",
                );
            }
            if new_records.len() != 1 {
                out.v(
                    format!("failed-pass:fault-evidence-count:{ktag}:class={class:?}"),
                    format!("{} new records", new_records.len()),
                );
            } else {
                let f = &new_records[0];
                let want_scope = match scope {
                    Scope::Head(i) => SchedulerFaultScope::Head(w.m.heads[i].key),
                    Scope::Runtime => SchedulerFaultScope::Runtime,
                };
                if f.scope != want_scope {
                    out.v(
                        format!("failed-pass:fault-scope:{ktag}:class={class:?}"),
                        format!("recorded {:?}, expected {want_scope:?}", f.scope),
                    );
                }
                if f.status != SchedulerFaultStatus::Active {
                    out.v(
                        format!("failed-pass:new-fault-not-active:{ktag}"),
                        format!("{:?}", f.status),
                    );
                }
                if f.fault_generation.as_u64() <= w.m.next_gen {
                    out.v(
                        format!("failed-pass:fault-generation-not-fresh:{ktag}"),
                        format!("{} <= {}", f.fault_generation.as_u64(), w.m.next_gen),
                    );
                }
                w.m.next_gen = f.fault_generation.as_u64();
            }
            w.m.faults += new_records.len();
            match scope {
                Scope::Head(i) => w.m.heads[i].faulted = true,
                Scope::Runtime => w.m.runtime_fault = true,
            }
            out.nontrivial.push(Report::key(
                format!(
                    "fail:{class:?}:{culprit:?}:{committed_before}:{}",
                    w.m.heads.len()
                )
                .as_bytes(),
            ));
        }
        Expect::Commit(commits) => {
            let records = match &run.outcome {
                PassOutcome::Ok(r) => r.clone(),
                o => {
                    out.v(
                        format!("pass-failed-without-cause:{ktag}"),
                        format!("model predicts {} commits, outcome {} ({o:?})", commits.len(), o.label()),
                    );
                    w.m.desync = true;
                    return expect;
                }
            };
            out.c("successful_passes");
            if commits.len() >= 2 {
                out.c("successful_passes_with_2plus_commits");
                out.nontrivial
                    .push(Report::key(format!("commit:{commits:?}:{}", w.m.heads.len()).as_bytes()));
            }
            // order: ascending WriterHeadKey, exactly the predicted heads
            let got: Vec<WriterHeadKey> = records.iter().map(|r| r.head_key).collect();
            let want: Vec<WriterHeadKey> = commits.iter().map(|(i, _)| w.m.heads[*i].key).collect();
            if got.windows(2).any(|p| p[0] >= p[1]) {
                out.v(
                    format!("ok-pass:commits-not-in-ascending-head-key-order:{ktag}"),
                    format!("{got:?}"),
                );
            }
            if got != want {
                out.v(
                    format!("ok-pass:committed-heads-differ-from-model:{ktag}"),
                    format!("got {got:?} want {want:?}"),
                );
            }
            // global tick: exactly one per pass
            if post_g != pre_g + 1 {
                out.v(
                    format!("ok-pass:global-tick-delta:{ktag}"),
                    format!("{pre_g} -> {post_g} with {} commits", records.len()),
                );
            }
            let mut per_wl: BTreeMap<warp_core::WorldlineId, u64> = BTreeMap::new();
            for (ri, rec) in records.iter().enumerate() {
                let wid = rec.head_key.worldline_id;
                let c = per_wl.entry(wid).or_default();
                *c += 1;
                let want_tick = pre_front[&wid].0 + *c;
                if rec.worldline_tick_after.as_u64() != want_tick {
                    out.v(
                        format!("ok-pass:worldline-tick-not-plus-one-per-step:{ktag}"),
                        format!("record {ri}: {} want {want_tick}", rec.worldline_tick_after.as_u64()),
                    );
                }
                if rec.commit_global_tick.as_u64() != pre_g + 1 {
                    out.v(
                        format!("ok-pass:record-global-tick:{ktag}"),
                        format!("record {ri}: {} want {}", rec.commit_global_tick.as_u64(), pre_g + 1),
                    );
                }
                if let Some((_, n)) = commits.get(ri) {
                    if rec.admitted_count != *n {
                        out.v(
                            format!("ok-pass:admitted-count:{ktag}"),
                            format!("record {ri}: {} want {n}", rec.admitted_count),
                        );
                    }
                }
                // StepRecord <-> provenance entry
                let tick = WorldlineTick::from_raw(rec.worldline_tick_after.as_u64().saturating_sub(1));
                match w.rt.provenance.entry(wid, tick) {
                    Ok(e) => {
                        let mut bad = Vec::new();
                        if e.head_key != Some(rec.head_key) {
                            bad.push("head_key");
                        }
                        if e.commit_global_tick != rec.commit_global_tick {
                            bad.push("commit_global_tick");
                        }
                        if e.expected.commit_hash != rec.commit_hash {
                            bad.push("commit_hash");
                        }
                        if e.expected.state_root != rec.state_root {
                            bad.push("state_root");
                        }
                        if e.worldline_tick != tick {
                            bad.push("worldline_tick");
                        }
                        // hash chain: parent is the previous entry of the worldline
                        let want_parent = if tick.as_u64() == 0 {
                            None
                        } else {
                            w.rt.provenance
                                .entry(wid, WorldlineTick::from_raw(tick.as_u64() - 1))
                                .ok()
                                .map(|p| p.expected.commit_hash)
                        };
                        if e.parents.first().map(|p| p.commit_hash) != want_parent {
                            bad.push("parents");
                        }
                        if e.tick_receipt.as_ref().map(|r| r.entries().len())
                            != Some(rec.admitted_count)
                        {
                            bad.push("receipt_entries");
                        }
                        for b in bad {
                            out.v(
                                format!("ok-pass:step-record-vs-provenance:{b}:{ktag}"),
                                format!("record {ri}"),
                            );
                        }
                        // lawful loser: one Applied, one Rejected, and no fault (checked below)
                        if let (Some(rc), Some((i, _))) = (&e.tick_receipt, commits.get(ri)) {
                            let h = &w.m.heads[*i];
                            let losers = h
                                .pending
                                .values()
                                .filter(|p| matches!(p.beh, Beh::LoserA | Beh::LoserB))
                                .count();
                            let rejected = rc
                                .entries()
                                .iter()
                                .filter(|x| matches!(x.disposition, TickReceiptDisposition::Rejected(_)))
                                .count();
                            if losers == 2 {
                                out.c("lawful_rejections_committed");
                                if rejected != 1 {
                                    out.v(
                                        format!("lawful-loser:rejected-count:{ktag}"),
                                        format!("{rejected} rejected entries for a conflicting pair"),
                                    );
                                }
                            }
                        }
                    }
                    Err(e) => out.v(
                        format!("ok-pass:step-record-without-provenance-entry:{ktag}"),
                        format!("record {ri}: {e:?}"),
                    ),
                }
            }
            // worldlines: advance by exactly the number of committed steps; untouched otherwise
            for (wid, (t0, root0)) in &pre_front {
                let c = per_wl.get(wid).copied().unwrap_or(0);
                let (t1, root1) = post_front[wid];
                if t1 != t0 + c {
                    out.v(
                        format!("ok-pass:frontier-tick-delta:{ktag}"),
                        format!("{wid:?}: {t0} -> {t1} with {c} steps"),
                    );
                }
                let plen = w.rt.provenance.len(*wid).unwrap_or(u64::MAX);
                let plen0 = pre.provenance.len(*wid).unwrap_or(u64::MAX);
                if plen != plen0 + c {
                    out.v(
                        format!("ok-pass:provenance-length-delta:{ktag}"),
                        format!("{wid:?}: {plen0} -> {plen} with {c} steps"),
                    );
                }
                if c == 0 && root1 != *root0 {
                    out.v(
                        format!("ok-pass:untouched-worldline-changed:{ktag}"),
                        format!("{wid:?}"),
                    );
                }
                if c > 0 {
                    let last = records
                        .iter()
                        .rev()
                        .find(|r| r.head_key.worldline_id == *wid)
                        .map(|r| r.state_root);
                    if last != Some(root1) {
                        out.v(
                            format!("ok-pass:final-state-root-differs-from-last-record:{ktag}"),
                            format!("{wid:?}"),
                        );
                    }
                }
            }
            // no fault evidence on a successful pass (lawful rejections are receipts)
            if pre_view.fault != post_view.fault {
                out.v(
                    format!("ok-pass:fault-evidence-changed:{ktag}"),
                    "scheduler fault fields differ after a successful pass",
                );
            }
            // effects + correlations + inboxes; advance the model
            for (i, _) in commits {
                let h = w.m.heads[*i].clone();
                let wid = wl(h.w);
                let mut writers: BTreeMap<u8, Vec<u8>> = BTreeMap::new();
                for (id, p) in &h.pending {
                    if event_node(&w.rt.runtime, &wid, id).is_none() {
                        out.v(
                            format!("ok-pass:committed-ingress-without-event-node:{ktag}"),
                            format!("head {i}"),
                        );
                    }
                    if let Beh::Ok { n, v } = p.beh {
                        writers.entry(n).or_default().push(v);
                    }
                    if let Some((sid, t)) = p.ticket {
                        match w.rt.runtime.receipt_correlation_for_submission(&sid) {
                            Some(c) => {
                                if c.ticket_digest != t
                                    || c.head_key != h.key
                                    || c.commit_global_tick.as_u64() != pre_g + 1
                                    || !records.iter().any(|r| r.commit_hash == c.commit_hash)
                                {
                                    out.v(
                                        format!("ok-pass:receipt-correlation-mismatch:{ktag}"),
                                        format!("{c:?}"),
                                    );
                                }
                                w.m.correlations += 1;
                            }
                            None => out.v(
                                format!("ok-pass:ticketed-commit-without-receipt-correlation:{ktag}"),
                                format!("head {i}"),
                            ),
                        }
                    }
                }
                // the last head committed on this worldline in this pass leaves its (unambiguous) writes visible
                let last_on_wl = commits
                    .iter()
                    .rev()
                    .find(|(j, _)| w.m.heads[*j].w == h.w)
                    .map(|(j, _)| *j);
                if last_on_wl == Some(*i) {
                    let fr = w.rt.runtime.worldlines().get(&wid);
                    for (n, vs) in &writers {
                        if vs.len() != 1 {
                            continue;
                        }
                        let want = val(vs[0]).map(|a| rules::universe().att_value(&a));
                        let got = fr.and_then(|f| {
                            let st = f.state();
                            st.store(&st.root().warp_id)
                                .and_then(|s| s.node_attachment(&rules::universe().node(*n)).cloned())
                        });
                        if got != want {
                            out.v(
                                format!("ok-pass:committed-write-not-visible:{ktag}"),
                                format!("head {i} node n{n}"),
                            );
                        }
                    }
                }
                *w.m.wl_tick.get_mut(&h.w).unwrap() += 1;
                w.m.heads[*i].pending.clear();
            }
            if w.rt.runtime.receipt_correlation_count() != w.m.correlations {
                out.v(
                    format!("ok-pass:receipt-correlation-count:{ktag}"),
                    format!("{} vs model {}", w.rt.runtime.receipt_correlation_count(), w.m.correlations),
                );
            }
            w.m.global += 1;
            let want_pending: Vec<usize> = w.m.heads.iter().map(|h| h.pending.len()).collect();
            let got_pending: Vec<usize> =
                pending_summary(&w.rt.runtime).iter().map(|x| x.1).collect();
            if want_pending != got_pending {
                out.v(
                    format!("ok-pass:inbox-contents-differ-from-model:{ktag}"),
                    format!("got {got_pending:?} want {want_pending:?}"),
                );
            }
        }
    }
    // runnable cache = its definition, on every path
    let want_runnable = runnable_text(
        &w.m.runnable()
            .iter()
            .map(|i| w.m.heads[*i].key)
            .collect::<Vec<_>>(),
    );
    if post_view.runnable != want_runnable {
        out.v(
            format!("runnable-set-differs-from-definition:{ktag}"),
            format!("{} vs {want_runnable}", post_view.runnable),
        );
    }
    check_quarantine(w, ktag, out);
    expect
}

// ---------------------------------------------------------------------------------------------
// Continuation BFS
// ---------------------------------------------------------------------------------------------

#[derive(Clone, Debug, PartialEq, Eq)]
enum Op {
    Tick,
    /// resolve the i-th active fault (generation order) through the trusted authority
    Resolve(usize),
    /// set the eligibility of head `pos`
    Dormant(usize, bool),
    /// fresh ok intent on head `pos`
    Ingest(usize),
    /// an intent that makes head `pos` fail with a typed engine error (head-scoped fault): a SECOND
    /// faulted head next to the scenario's own
    IngestBad(usize),
}

fn menu(w: &World, focus: usize) -> Vec<Op> {
    let mut v = vec![Op::Tick];
    for i in 0..active_faults(&w.rt.runtime).len() {
        v.push(Op::Resolve(i));
    }
    v.push(Op::Dormant(focus, !w.m.heads[focus].dormant));
    for p in 0..w.m.heads.len() {
        v.push(Op::Ingest(p));
    }
    v
}

fn apply_op(w: &mut World, op: &Op, sc: &Scenario, ktag: &str, out: &mut Out) {
    match op {
        Op::Tick => {
            step_pass(w, sc.sched, ktag, out);
        }
        Op::Ingest(p) => {
            let b = w.fresh_ok(2);
            w.ingest(*p, b, None, out);
        }
        Op::IngestBad(p) => {
            w.ingest(*p, Beh::InvalidOp, None, out);
        }
        Op::Dormant(p, d) => {
            let pre = runtime_view(&w.rt.runtime);
            let key = w.m.heads[*p].key;
            let r = w.rt.runtime.set_head_eligibility(
                key,
                if *d {
                    HeadEligibility::Dormant
                } else {
                    HeadEligibility::Admitted
                },
            );
            if r.is_err() {
                out.machinery.push(format!("set_head_eligibility failed: {r:?}"));
            }
            w.m.heads[*p].dormant = *d;
            let post = runtime_view(&w.rt.runtime);
            if let (Some(a), Some(b)) = (pre, post) {
                if a.fault != b.fault {
                    out.v(
                        format!("eligibility-change-altered-fault-evidence:{ktag}"),
                        format!("head {p} dormant={d}"),
                    );
                }
            }
            out.c("eligibility_changes");
            check_quarantine(w, ktag, out);
        }
        Op::Resolve(i) => {
            let act = active_faults(&w.rt.runtime);
            let Some((_, id, scope)) = act.get(*i).copied() else {
                return;
            };
            let auth = SchedulerFaultRecoveryAuthority::assume_runtime_owner();
            let pre = w.rt.clone();
            let recovery = mc::h(format!("recovery:{:?}", id).as_bytes());
            match w.rt.runtime.resolve_scheduler_fault(&auth, id, recovery) {
                Ok(()) => {}
                Err(e) => out.v(
                    format!("recovery:resolve-active-fault-refused:{ktag}"),
                    format!("{e:?}"),
                ),
            }
            out.c("recoveries");
            match scope {
                SchedulerFaultScope::Head(k) => {
                    if let Some(h) = w.m.heads.iter_mut().find(|h| h.key == k) {
                        h.faulted = false;
                    }
                }
                SchedulerFaultScope::Runtime => w.m.runtime_fault = false,
            }
            // recovery touches nothing but fault evidence
            let (a, b) = (runtime_view(&pre.runtime), runtime_view(&w.rt.runtime));
            if let (Some(a), Some(b)) = (a, b) {
                if a.rest != b.rest {
                    out.v(
                        format!("recovery:changed-non-fault-state:{ktag}"),
                        format!("{:?}", diff_fields(&pre.runtime, &w.rt.runtime)),
                    );
                }
            }
            if format!("{:?}", pre.provenance) != format!("{:?}", w.rt.provenance) {
                out.v(format!("recovery:changed-provenance:{ktag}"), "");
            }
            match w.rt.runtime.scheduler_fault(&id).map(|f| f.status) {
                Some(SchedulerFaultStatus::Resolved { recovery_id }) if recovery_id == recovery => {}
                s => out.v(
                    format!("recovery:record-not-marked-resolved:{ktag}"),
                    format!("{s:?}"),
                ),
            }
            // evidence is kept, and a second resolution is refused
            if w.rt.runtime.scheduler_fault_count() != pre.runtime.scheduler_fault_count() {
                out.v(format!("recovery:fault-evidence-dropped:{ktag}"), "");
            }
            let mut again = w.rt.clone();
            if !matches!(
                again.runtime.resolve_scheduler_fault(&auth, id, recovery),
                Err(RuntimeError::SchedulerFaultAlreadyResolved(_))
            ) {
                out.v(format!("recovery:double-resolution-accepted:{ktag}"), "");
            }
            check_quarantine(w, ktag, out);
        }
    }
}

/// BFS over further operations from `w0`; every transition is executed on the real system and
/// compared with the model.  Dedup key: full Debug fingerprint of runtime + provenance (equal
/// fingerprints ⇒ equal futures: the transition functions read nothing else; the fresh engine is a
/// constant) plus the model's serial (names of future fresh intents).
fn continuation(w0: &World, sc: &Scenario, depth: usize, focus: usize, ktag: &str, out: &mut Out) {
    let key = |w: &World| mc::h(format!("{:?}|{:?}|{}", w.rt.runtime, w.rt.provenance, w.m.serial).as_bytes());
    let mut seen = BTreeSet::new();
    seen.insert(key(w0));
    out.states += 1;
    let mut frontier = vec![w0.clone()];
    for d in 0..depth {
        let mut next = Vec::new();
        for w in &frontier {
            for op in menu(w, focus) {
                let mut w2 = w.clone();
                let tag = format!("{ktag}:cont");
                apply_op(&mut w2, &op, sc, &tag, out);
                out.transitions += 1;
                if d + 1 == depth {
                    out.traces += 1;
                }
                if seen.insert(key(&w2)) {
                    out.states += 1;
                    next.push(w2);
                }
            }
        }
        frontier = next;
    }
}

/// Two faulted heads, one recovery.  When the scenario left exactly one ACTIVE head-scoped fault,
/// every other admitted head `s` (same worldline first) is made to fail in a LATER pass (typed
/// engine error), so two quarantines coexist; then only ONE of the two faults is resolved (either
/// one), a fresh ok intent is put on both heads and a pass runs: the head whose fault was not
/// cited must stay quarantined (model: `faulted` stays true, nothing of it commits) while the
/// recovered one commits.  Every step goes through `apply_op`, i.e. the full pass / quarantine oracle.
fn two_fault_probe(w0: &World, sc: &Scenario, kpos: usize, ktag: &str, out: &mut Out) {
    let act = active_faults(&w0.rt.runtime);
    if act.len() != 1 || !matches!(act[0].2, SchedulerFaultScope::Head(_)) || w0.m.runtime_fault {
        return;
    }
    let kw = w0.m.heads[kpos].w;
    let mut sibs: Vec<usize> = (0..w0.m.heads.len()).filter(|p| *p != kpos && !w0.m.heads[*p].faulted && !w0.m.heads[*p].dormant).collect();
    sibs.sort_by_key(|p| w0.m.heads[*p].w != kw); // same-worldline siblings first
    for s in sibs.into_iter().take(2) {
        for which in 0..2usize {
            let mut w = w0.clone();
            let tag = format!("{ktag}:two-faults");
            apply_op(&mut w, &Op::IngestBad(s), sc, &tag, out);
            apply_op(&mut w, &Op::Tick, sc, &tag, out);
            if active_faults(&w.rt.runtime).len() != 2 {
                out.c("two_fault_probe_second_fault_not_head_scoped_or_absent");
                continue;
            }
            apply_op(&mut w, &Op::Resolve(which), sc, &tag, out);
            apply_op(&mut w, &Op::Ingest(kpos), sc, &tag, out);
            apply_op(&mut w, &Op::Ingest(s), sc, &tag, out);
            apply_op(&mut w, &Op::Tick, sc, &tag, out);
            check_quarantine(&w, &tag, out);
            out.transitions += 6;
            out.states += 6;
            out.traces += 1;
            out.c(if w0.m.heads[s].w == kw { "two_fault_probes_same_worldline" } else { "two_fault_probes_other_worldline" });
        }
    }
}

// ---------------------------------------------------------------------------------------------
// One scenario
// ---------------------------------------------------------------------------------------------

fn ticket_digest(sc: &Scenario, pos: usize, pass: usize, tag: &str) -> Hash {
    mc::h(format!("ticket:{:?}:{}:{}:{}:{tag}", sc.shape, sc.k, pos, pass).as_bytes())
}

fn run_scenario(sc: &Scenario, cont_depth: usize) -> Out {
    let mut out = Out::default();
    let mut w = build_world(sc);
    let n = sc.n();
    let kpos = sc.k - 1;
    let ktag = format!("kind={:?}", sc.kind);
    let kw = w.m.heads[kpos].w;
    // registration order differs from key order?
    if w.rt.heads.windows(2).any(|p| p[0] > p[1]) {
        out.c("scenarios_registered_out_of_key_order");
    }
    let mut failing_expect = None;
    for p in 0..3 {
        let failing = p == sc.pass;
        let wl_scoped = matches!(sc.kind, Kind::ProvGap | Kind::FrontierOverflow);
        for pos in 0..n {
            let tk = |tag: &str| {
                if (pos + p) % 2 == 0 {
                    Some(ticket_digest(sc, pos, p, tag))
                } else {
                    None
                }
            };
            if failing && pos == kpos {
                match sc.kind {
                    Kind::Panic | Kind::Violation | Kind::InvalidOp | Kind::CrossInstance => {
                        // a lawful companion in the same batch: node n2 is untouched by every failing program
                        let ok = w.fresh_ok(2);
                        w.ingest(pos, ok, tk("ok"), &mut out);
                        let bad = match sc.kind {
                            Kind::Panic => Beh::Panic,
                            Kind::Violation => Beh::Violation,
                            Kind::InvalidOp => Beh::InvalidOp,
                            _ => Beh::CrossInstance,
                        };
                        w.ingest(pos, bad, None, &mut out);
                    }
                    Kind::CorrClash => {
                        let t = ticket_digest(sc, pos, p, "clash");
                        let a = w.fresh_ok(1);
                        let b = w.fresh_ok(2);
                        w.ingest(pos, a, Some(t), &mut out);
                        w.ingest(pos, b, Some(t), &mut out);
                    }
                    Kind::LawfulLoser => {
                        w.ingest(pos, Beh::LoserA, tk("la"), &mut out);
                        w.ingest(pos, Beh::LoserB, None, &mut out);
                    }
                    Kind::ProvGap | Kind::FrontierOverflow | Kind::GlobalOverflow => {
                        let ok = w.fresh_ok(2);
                        w.ingest(pos, ok, tk("ok"), &mut out);
                    }
                }
            } else if failing && wl_scoped && pos < kpos && w.m.heads[pos].w == kw {
                // worldline-scoped failure: earlier heads of that worldline stay idle so that the
                // failing head is exactly position k
            } else {
                let ok = w.fresh_ok(2);
                w.ingest(pos, ok, tk("ok"), &mut out);
            }
        }
        // hooks for the counter-overflow / desynchronisation kinds
        let pre_hook = w.rt.clone();
        let mut hooked = false;
        if failing {
            match sc.kind {
                Kind::FrontierOverflow => {
                    hooks::set_frontier_tick(&mut w.rt.runtime, &wl(kw), u64::MAX);
                    w.m.wl_hook.insert(kw, WlHook::Max);
                    hooked = true;
                }
                Kind::ProvGap => {
                    let t = w.m.wl_tick[&kw];
                    hooks::set_frontier_tick(&mut w.rt.runtime, &wl(kw), t + 7);
                    w.m.wl_hook.insert(kw, WlHook::Gap);
                    hooked = true;
                }
                Kind::GlobalOverflow => {
                    hooks::set_global_tick(&mut w.rt.runtime, u64::MAX);
                    w.m.global_max = true;
                    hooked = true;
                }
                _ => {}
            }
        }
        let tag = format!("{ktag}:pass={}", ["first", "middle", "last"][p]);
        let e = step_pass(&mut w, sc.sched, if failing { &tag } else { &ktag }, &mut out);
        out.transitions += 1;
        out.states += 1;
        if w.m.desync {
            return out;
        }
        if failing {
            failing_expect = Some(e.clone());
            match (&e, sc.kind) {
                (Expect::Commit(_), Kind::LawfulLoser) => {}
                (Expect::Fail { culprit, .. }, k) if k != Kind::LawfulLoser => {
                    if sc.kind != Kind::GlobalOverflow && *culprit != Some(kpos) {
                        out.machinery.push(format!(
                            "scenario construction: failing head {culprit:?} is not position {kpos}"
                        ));
                    }
                    out.outcomes.push(format!(
                        "failed:{:?}:n={n}:k={}:pass={p}",
                        sc.kind, sc.k
                    ));
                }
                _ => out.machinery.push(format!(
                    "scenario construction: model predicts {e:?} for kind {:?}",
                    sc.kind
                )),
            }
        }
        if hooked {
            // operator repair of the injected counter condition (scaffolding, not part of the property):
            // afterwards the state equals the pre-hook state except for fault evidence
            match sc.kind {
                Kind::FrontierOverflow | Kind::ProvGap => {
                    let t = w.m.wl_tick[&kw];
                    hooks::set_frontier_tick(&mut w.rt.runtime, &wl(kw), t);
                    w.m.wl_hook.insert(kw, WlHook::None);
                }
                _ => {
                    hooks::set_global_tick(&mut w.rt.runtime, w.m.global);
                    w.m.global_max = false;
                }
            }
            let (a, b) = (runtime_view(&pre_hook.runtime), runtime_view(&w.rt.runtime));
            if let (Some(a), Some(b)) = (a, b) {
                if a.rest != b.rest
                    || format!("{:?}", pre_hook.provenance) != format!("{:?}", w.rt.provenance)
                {
                    out.v(
                        format!("failed-pass:state-differs-from-pre-pass-after-counter-repair:{ktag}"),
                        format!("{:?}", diff_fields(&pre_hook.runtime, &w.rt.runtime)),
                    );
                }
            }
        }
        // a runtime-scoped fault blocks every head until trusted recovery; then quarantine the
        // culprit head by eligibility so that the rest of the run exercises commits again
        if failing && w.m.runtime_fault && p < 2 {
            step_pass(&mut w, sc.sched, &format!("{ktag}:blocked"), &mut out);
            apply_op(&mut w, &Op::Resolve(0), sc, &ktag, &mut out);
            out.transitions += 2;
            out.states += 2;
            if sc.kind != Kind::GlobalOverflow && sc.kind != Kind::ProvGap {
                apply_op(&mut w, &Op::Dormant(kpos, true), sc, &ktag, &mut out);
            }
        }
    }
    if let Some(Expect::Fail {
        committed_before, ..
    }) = &failing_expect
    {
        if *committed_before > 0 {
            out.outcomes
                .push(format!("rollback_after_earlier_commit:{:?}", sc.kind));
        }
    }
    out.traces += 1;
    if !w.m.desync {
        two_fault_probe(&w, sc, kpos, &ktag, &mut out);
        continuation(&w, sc, cont_depth, kpos, &ktag, &mut out);
    }
    out
}

// ---------------------------------------------------------------------------------------------
// main
// ---------------------------------------------------------------------------------------------

fn main() {
    let r = Report::new("C09", Level::ModelChecking);
    mc::quiet_panics();
    let _ = rayon::ThreadPoolBuilder::new()
        .num_threads(
            2 * std::thread::available_parallelism()
                .map(|n| n.get())
                .unwrap_or(8),
        )
        .build_global();
    r.rule(
        "one case = (n runnable heads, composition of n over 1..3 worldlines, registration order asc/desc, \
         failing position k<=n in canonical key order, failure kind, failing pass first/middle/last of 3, scheduler kind); \
         every case runs 3 real scheduler passes (plus a blocked pass and trusted recovery after runtime-scoped faults) and then a BFS \
         (ops: pass, resolve each active fault, toggle eligibility of the culprit head, fresh ingress on each head) of the stated depth; \
         every pass on every path is compared with the reference scheduler model and the all-or-nothing / ordering invariants \
         (quick tier: the descending-registration twin of each case runs the 3-pass history without the BFS). \
         distinct_nontrivial counts distinct (failure class, culprit position, heads already committed in the failed pass, n) \
         and distinct multi-commit batches of successful passes",
    );
    r.assume("fault evidence = WorldlineRuntime fields scheduler_faults, faulted_heads, runtime_fault, next_scheduler_fault_generation (read off the struct); the `runnable` cache is a function of head modes and fault evidence and is compared against that definition instead of its pre-pass value");
    r.assume("Debug text of WorldlineRuntime/ProvenanceService is a faithful, deterministic rendering of their private state (all collections are BTreeMap/BTreeSet/Vec)");
    r.assume("a fresh Engine per pass: engine-owned configuration (rules, policy, scheduler kind, 1 worker) is constant; the engine's observable state is compared before/after every pass");
    r.assume("failure kind 'missing instance' is not reachable through the public API (WorldlineState::new validates the root instance and user rules cannot delete instances under enforcement); CrossInstance (write into a non-existent instance) is enumerated in its place. Tick overflow uses the H6 hooks; ProvGap desynchronises the frontier tick from the provenance length with the same hook to make append_local_commit fail after a successful engine commit");

    if let Some(path) = r.replay.clone() {
        let v: Value = std::fs::read_to_string(&path)
            .ok()
            .and_then(|s| serde_json::from_str(&s).ok())
            .unwrap_or(Value::Null);
        let case = v.get("case").cloned().or_else(|| v.get("detail").and_then(|d| d.get("case").cloned()));
        match case.as_ref().and_then(Scenario::from_json) {
            Some(sc) => {
                let out = run_scenario(&sc, 2);
                flush(&r, &sc, out);
                r.add_states(1);
                r.add_transitions(1);
                r.add_traces(1);
                r.sample(sc.to_json());
                r.nontrivial(b"replay-a");
                r.nontrivial(b"replay-b");
            }
            None => r.machinery_error("replay file has no parsable `case`"),
        }
        r.finish();
    }

    let max_n = r.pick(3, 4);
    let cont_depth = r.pick(2, 4);
    let scheds: Vec<SchedulerKind> = if r.quick() {
        vec![SchedulerKind::Radix]
    } else {
        vec![SchedulerKind::Radix, SchedulerKind::Legacy]
    };
    let all = scenarios(max_n, &scheds);
    r.note("scenarios", json!(all.len()));
    r.note("max_heads", json!(max_n));
    r.note("continuation_depth", json!(cont_depth));
    for sc in all.iter().step_by((all.len() / 6).max(1)).take(6) {
        r.sample(sc.to_json());
    }

    let quick = r.quick();
    let results: Vec<(usize, Option<Out>)> = all
        .par_iter()
        .enumerate()
        .map(|(i, sc)| {
            // thorough: stay within ~20 min of the 3600 s cap
            if r.over_budget_frac(if quick { 0.9 } else { 0.33 }) {
                return (i, None);
            }
            // quick tier: the registration-order twin of a scenario runs the 3-pass history only
            let d = if quick && sc.reg_rev { 0 } else { cont_depth };
            (i, Some(run_scenario(sc, d)))
        })
        .collect();
    let mut done = 0usize;
    for (i, o) in results {
        match o {
            Some(out) => {
                done += 1;
                flush(&r, &all[i], out);
            }
            None => {}
        }
    }
    if done < all.len() {
        r.cap_hit(&format!(
            "wall cap: {done} of {} scenarios completed (scenario order is n-major)",
            all.len()
        ));
    }

    // vacuity guards
    let complete = done == all.len();
    for kind in FAIL_KINDS {
        let mut every = true;
        for n in 1..=max_n {
            for k in 1..=n {
                for p in 0..3 {
                    if r.outcome_count(&format!("failed:{kind:?}:n={n}:k={k}:pass={p}")) == 0 {
                        every = false;
                    }
                }
            }
        }
        // when a wall cap cut the enumeration short, only n=1 is required
        let minimal = r.outcome_count(&format!("failed:{kind:?}:n=1:k=1:pass=0")) > 0;
        r.guard(
            &format!("kind_{kind:?}_produced_a_failed_pass_at_every_position_and_pass_index"),
            if complete { every } else { minimal },
        );
        if !matches!(kind, Kind::FrontierOverflow | Kind::GlobalOverflow) {
            r.guard(
                &format!("kind_{kind:?}_rolled_back_after_an_earlier_head_committed"),
                r.outcome_count(&format!("rollback_after_earlier_commit:{kind:?}")) > 0,
            );
        }
    }
    r.guard(
        "rollbacks_after_earlier_heads_committed",
        r.counter_value("failed_passes_after_earlier_heads_committed") > 0,
    );
    r.guard(
        "rollbacks_after_earlier_receipt_correlations",
        r.counter_value("failed_passes_after_earlier_receipt_correlations") > 0,
    );
    r.guard("panics_reraised", r.counter_value("panics_reraised_after_restore") > 0);
    r.guard("lawful_rejections_seen", r.counter_value("lawful_rejections_committed") > 0);
    r.guard("blocked_passes_seen", r.counter_value("pass_blocked_by_runtime_fault") > 0);
    r.guard("recoveries_seen", r.counter_value("recoveries") > 0);
    r.guard("two_faulted_heads_on_one_worldline_one_recovery_probed", r.counter_value("two_fault_probes_same_worldline") > 0);
    r.guard(
        "multi_commit_passes_seen",
        r.counter_value("successful_passes_with_2plus_commits") > 0,
    );
    r.guard(
        "registration_order_differs_from_key_order",
        r.counter_value("scenarios_registered_out_of_key_order") > 0,
    );
    r.finish();
}

fn flush(r: &Report, sc: &Scenario, out: Out) {
    r.eval(out.evals);
    r.add_states(out.states);
    r.add_transitions(out.transitions);
    r.add_traces(out.traces);
    r.nontrivial_many(out.nontrivial.iter().copied());
    for o in &out.outcomes {
        r.outcome(o);
    }
    for (k, n) in &out.counters {
        r.counter(k, *n);
    }
    for m in &out.machinery {
        r.machinery_error(&format!("{m} scenario={}", sc.to_json()));
    }
    for (sig, what) in out.viol {
        r.violation(&sig, json!({"case": sc.to_json(), "what": what}));
    }
}
