//! Property check C09 (see /verif/DESIGN.md §4).
use mc::{Level, Report};

fn main() {
    let r = Report::new("C09", Level::Exploration);
    r.machinery_error("check not implemented yet");
    r.finish();
}
