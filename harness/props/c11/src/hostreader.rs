//! `TrustedRuntimeHost::enable_runtime_wal` as a reader of damaged host logs.

use crate::damage::{apply, class, enumerate_ops, family, M};
use crate::readers::{errkind, Stats};
use mc::{json, Report};
use rayon::prelude::*;
use walkit::frame;
use walkit::host::{fingerprint, open_host, Op, Sub};
use walkit::hostrun::{learn_ids, run_uninterrupted, Run};
use walkit::{fresh_dir, DirImage};
use warp_core::Hash;

thread_local! {
    static WORK: std::cell::RefCell<Option<std::path::PathBuf>> = const { std::cell::RefCell::new(None) };
}

fn with_dir<R>(f: impl FnOnce(&std::path::Path) -> R) -> R {
    WORK.with(|w| {
        let mut g = w.borrow_mut();
        if g.is_none() {
            *g = Some(fresh_dir(&mc::scratch_root(), "c11h").join("wal"));
        }
        f(g.as_ref().unwrap())
    })
}

pub fn eval_host_image(run: &Run, m: &M, img: &[u8], ids: &[(Sub, Hash)], st: &mut Stats) {
    let cls = class(run, m);
    let case = json!({"host_log": run.word(), "damage": m.js()});
    st.evals += 1;
    st.outcome(&format!("host-op:{}", family(m)));
    st.nontrivial.push(Report::key(format!("host:{}:{m:?}", run.word()).as_bytes()));
    let n = run.k_at(run.seg.len());
    with_dir(|dir| {
        let _ = std::fs::remove_dir_all(dir);
        DirImage {
            segment: Some(img.to_vec()),
            ledger: run.ledgers.last().cloned(),
            ..DirImage::default()
        }
        .materialise(dir);
        match mc::catch(|| open_host(dir)) {
            Err(p) => st.viol(format!("c11:{cls}:panic:enable_runtime_wal"), json!({"case": case, "panic": p})),
            Ok(Err((stage, e))) => st.outcome(&format!("err:{}@host:{stage}", errkind(&e))),
            Ok(Ok(mut host)) => {
                let fp = fingerprint(&mut host, ids);
                let k = (0..=n).find(|k| run.fps[run.fp_index_for_k(*k)] == fp);
                match k {
                    None => st.viol(
                        format!("c11:{cls}:recovered-state-is-not-a-committed-prefix:enable_runtime_wal"),
                        json!({"case": case, "fingerprint": fp, "final_fingerprint_of_original": run.fps.last()}),
                    ),
                    Some(k) if k == n => {
                        let reg = match m {
                            M::Flip { off, .. } | M::Zero { off, .. } => frame::region_of(&run.records, *off),
                            _ => "record",
                        };
                        if m.appends_after_log() {
                            st.viol(format!("c11:{cls}:trailing-content-silently-ignored:enable_runtime_wal"), json!({"case": case}));
                        } else if m.byte_level() {
                            st.viol(format!("c11:{}:undetected-byte-damage:{reg}:enable_runtime_wal", family(m)), json!({"case": case}));
                        } else {
                            st.outcome(&format!("host-ok:absorbed-full-state:{cls}"));
                        }
                    }
                    Some(_) => st.outcome("host-ok:strict-prefix-state"),
                }
            }
        }
    });
}

fn stride_ops(all: Vec<M>, quick: bool) -> Vec<M> {
    if !quick {
        return all;
    }
    all.into_iter()
        .filter(|m| match m {
            // quick: one bit per byte (bit index rotates with the offset) and zeroing of ≥8-byte ranges
            M::Flip { off, bit } => (*off % 8) as u8 == *bit,
            M::Zero { len, .. } => *len >= 8,
            _ => true,
        })
        .collect()
}

pub fn run(r: &Report) {
    let scratch = mc::scratch_root();
    let ids = match learn_ids(&scratch) {
        Ok(i) => i,
        Err(e) => {
            r.machinery_error(&format!("host fixture: {e}"));
            return;
        }
    };
    let (a, b, t) = (Op::Submit(Sub::A), Op::Submit(Sub::B), Op::Tick);
    // (log, second log with the same shape and different payloads, byte-level damage?)
    let specs: Vec<(Vec<Op>, Vec<Op>, bool)> = if r.quick() {
        vec![(vec![a, t], vec![b, t], true), (vec![a, b, t], vec![b, a, t], false)]
    } else {
        vec![(vec![a], vec![b], true), (vec![a, t], vec![b, t], true), (vec![a, b, t], vec![b, a, t], true), (vec![a, t, b, t], vec![b, t, a, t], false)]
    };
    let mut runs: Vec<(Run, Run, bool)> = Vec::new();
    for (x, y, bytes) in specs {
        match (run_uninterrupted(&scratch, &x, &ids), run_uninterrupted(&scratch, &y, &ids)) {
            (Ok(rx), Ok(ry)) => runs.push((rx, ry, bytes)),
            (e1, e2) => {
                r.machinery_error(&format!("host log build failed: {:?} {:?}", e1.err(), e2.err()));
                return;
            }
        }
    }
    let mut jobs: Vec<(usize, M)> = Vec::new();
    for (i, (x, y, bytes)) in runs.iter().enumerate() {
        for m in stride_ops(enumerate_ops(x, y, *bytes, *bytes), r.quick()) {
            jobs.push((i, m));
        }
    }
    r.counter("host_reader_cases", jobs.len() as u64);
    if r.quick() {
        r.not_exhaustive();
        r.note("host_reader_stride", json!("quick: record edits exhaustive; bit flips one bit per byte; zeroing only for ranges of ≥8 bytes"));
    }
    let capped = std::sync::atomic::AtomicBool::new(false);
    let st = jobs
        .par_iter()
        .fold(Stats::default, |mut st, (i, m)| {
            if r.over_budget_frac(0.9) {
                capped.store(true, std::sync::atomic::Ordering::Relaxed);
                st.count("host_reader_skipped_by_cap", 1);
                return st;
            }
            let (x, y, _) = &runs[*i];
            if let Some(img) = apply(x, y, m) {
                eval_host_image(x, m, &img, &ids, &mut st);
            }
            st
        })
        .reduce(Stats::default, Stats::merge);
    if capped.load(std::sync::atomic::Ordering::Relaxed) {
        r.cap_hit("host reader: wall cap reached");
    }
    let oc = st.outcomes.clone();
    st.flush(r);
    r.guard("host_reader_typed_errors_seen", oc.keys().any(|k| k.starts_with("err:") && k.contains("@host")));
    r.guard("host_reader_prefix_states_seen", oc.get("host-ok:strict-prefix-state").copied().unwrap_or(0) > 0);
}

/// Replay one host-reader case.
pub fn replay(case: &mc::Value, st: &mut Stats) -> Result<(), String> {
    let scratch = mc::scratch_root();
    let ids = learn_ids(&scratch)?;
    let parse = |w: &str| -> Vec<Op> {
        w.split('.').filter_map(|t| match t {
            "A" => Some(Op::Submit(Sub::A)),
            "B" => Some(Op::Submit(Sub::B)),
            "t" => Some(Op::Tick),
            _ => None,
        }).collect()
    };
    let x = parse(case["host_log"].as_str().ok_or("host_log")?);
    let y: Vec<Op> = x.iter().map(|o| match o {
        Op::Submit(Sub::A) => Op::Submit(Sub::B),
        Op::Submit(Sub::B) => Op::Submit(Sub::A),
        o => *o,
    }).collect();
    let (rx, ry) = (run_uninterrupted(&scratch, &x, &ids)?, run_uninterrupted(&scratch, &y, &ids)?);
    let m = M::from_js(&case["damage"]).ok_or("damage")?;
    let img = apply(&rx, &ry, &m).ok_or("no-op damage")?;
    eval_host_image(&rx, &m, &img, &ids, st);
    Ok(())
}
