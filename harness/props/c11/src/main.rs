//! Property check C11 — the log rejects corruption instead of reinterpreting it.
//!
//! Logs are the C10 store-layer logs (built through the real `FilesystemWalStore`).  Every damage
//! operator is applied at every position; every reader is run on every damaged image; the result
//! must be a typed error / obstruction, or a success whose committed transactions are a prefix of
//! the original list.
mod damage;
mod hostreader;
mod mseg;
mod readers;

use damage::{apply, enumerate_ops, M};
use mc::{json, Level, Report, Value};
use rayon::prelude::*;
use readers::{eval_image, Stats};
use walkit::store::{build_log, words_quick, BuiltLog, TxKind, KINDS};
use walkit::fresh_dir;

fn build(scratch: &std::path::Path, w: &[TxKind], variant: u8) -> Result<BuiltLog, String> {
    let d = fresh_dir(scratch, "c11-build");
    let r = build_log(&d, w, variant, true);
    let _ = std::fs::remove_dir_all(&d);
    r
}

fn main() {
    let r = Report::new("C11", Level::FaultEnumeration);
    mc::quiet_panics();
    walkit::syncspy::init();
    r.rule("readers: recover_wal_segment_bytes and recover_filesystem_store in both modes (+ a second recovery after the writable one), doctor_filesystem_store, \
            validate_filesystem_manifest, FilesystemWalStore::open, the graph projection (project_filesystem_wal_recovery over the read-only report with the intact log's \
            writer-epoch evidence: Present over a non-prefix history is a violation, Obstructed/Absent is a typed refusal) and TrustedRuntimeHost::enable_runtime_wal. \
            A case is one damaged image: (log, damage operator, position) evaluated by every reader; \
            distinct_nontrivial counts images whose bytes differ from the original inside a committed record. \
            Multi-segment part: a case is (2-3 segment log, one damage applied to ONE segment file or to the set of files, all other files intact): \
            every single-segment operator on each segment file in turn, truncation of every non-final segment (every record boundary and zero length; thorough every byte length), \
            deletion of each segment file, exchange of two segment files, copy of a segment under the next id, overwrite of one segment by another");
    r.assume("single-segment logs: 1–3 transactions; multi-segment logs: 2–3 segment files (at most 2 transactions per file) produced by rotate_segment and by a new writer \
              opening the next segment id under a fresh epoch; all built through the real FilesystemWalStore (same builders as C10). \
              The host reader (enable_runtime_wal) is driven on single-segment host logs only: TrustedRuntimeHost always writes segment 1 and has no rotation call");
    r.assume("a success that returns the complete original history with a clean tail after bytes of a committed record changed counts as undetected damage for bit flips, zeroing, \
              truncation, deletion or overwrite of a segment file; for record reordering and for two intact segment files exchanged it is counted separately \
              (absorbed by LSN sorting), not as a violation");
    let scratch = mc::scratch_root();

    if let Some(path) = r.replay.clone() {
        let txt = std::fs::read_to_string(&path).unwrap_or_default();
        let v: Value = serde_json::from_str(&txt).unwrap_or(json!(null));
        let case = v["detail"]["case"].clone();
        let mut st = Stats::default();
        let res = if case.get("host_log").is_some() {
            hostreader::replay(&case, &mut st)
        } else if case.get("mseg_log").is_some() {
            mseg::replay(&case, &mut st)
        } else {
            readers::replay(&scratch, &case, &mut st)
        };
        match res {
            Ok(()) => {}
            Err(e) => r.machinery_error(&format!("replay: {e}")),
        }
        for v in &st.viols {
            println!("replay: {} {}", v.0, v.1);
        }
        r.sample(json!({"replayed": case}));
        r.nontrivial(b"replay-a");
        r.nontrivial(b"replay-b");
        st.flush(&r);
        r.finish();
    }

    // ---- logs -------------------------------------------------------------------------------
    let words: Vec<Vec<TxKind>> = if r.quick() { words_quick() } else { walkit::store::words_over(&KINDS, 3) };
    let logs: Vec<(BuiltLog, BuiltLog)> = match words
        .par_iter()
        .map(|w| Ok((build(&scratch, w, 0)?, build(&scratch, w, 1)?)))
        .collect::<Result<Vec<_>, String>>()
    {
        Ok(l) => l,
        Err(e) => {
            r.machinery_error(&format!("log build failed: {e}"));
            r.finish();
        }
    };
    r.counter("logs", logs.len() as u64);
    // vacuity for the projection reader: every intact log projects Present with its writer-epoch evidence
    {
        let d = fresh_dir(&scratch, "c11-intact").join("wal");
        let mut present = 0usize;
        let mut other = Vec::new();
        for (a, _) in &logs {
            let _ = std::fs::remove_dir_all(&d);
            a.image_after(a.n()).materialise(&d);
            match warp_core::causal_wal::recover_filesystem_store(&d, warp_core::causal_wal::RecoveryAccessMode::ReadOnly) {
                Ok(rep) => {
                    let pr = warp_core::causal_wal::project_filesystem_wal_recovery(&d, &rep, &a.writer_epochs, None);
                    if pr.posture == warp_core::causal_wal::WalRecoveryProjectionPosture::Present {
                        present += 1;
                    } else {
                        other.push(format!("{}: {:?} {:?}", a.word(), pr.posture, pr.obstructions));
                    }
                }
                Err(e) => other.push(format!("{}: {e:?}", a.word())),
            }
        }
        r.counter("intact_logs_projected_present", present as u64);
        if !other.is_empty() {
            r.note("intact_logs_not_projected_present", json!(other));
        }
        r.guard("intact_log_projects_present", present == logs.len() && present > 0);
    }
    r.counter("log_bytes_total", logs.iter().map(|l| l.0.segment.len() as u64).sum());

    // ---- segment damage ----------------------------------------------------------------------
    // quick: bit flips on every one-transaction log; zeroing and record edits on every log
    let mut jobs: Vec<(usize, M)> = Vec::new();
    for (i, (a, b)) in logs.iter().enumerate() {
        let flips = r.thorough() || a.n() == 1;
        let zero = r.thorough() || a.n() == 1;
        for m in enumerate_ops(a, b, flips, zero) {
            jobs.push((i, m));
        }
    }
    r.counter("segment_damage_cases", jobs.len() as u64);
    let capped = std::sync::atomic::AtomicBool::new(false);
    let st = jobs
        .par_iter()
        .fold(Stats::default, |mut st, (i, m)| {
            if r.over_budget_frac(0.7) {
                capped.store(true, std::sync::atomic::Ordering::Relaxed);
                st.count("skipped_by_cap", 1);
                return st;
            }
            let (a, b) = &logs[*i];
            if let Some(img) = apply(a, b, m) {
                eval_image(a, *i, m, &img, &mut st);
            } else {
                st.count("noop_damage_skipped", 1);
            }
            st
        })
        .reduce(Stats::default, Stats::merge);
    if capped.load(std::sync::atomic::Ordering::Relaxed) {
        r.cap_hit("segment damage: wall cap reached");
    }
    let oc = st.outcomes.clone();
    st.flush(&r);

    // ---- ledger and manifest tampering ---------------------------------------------------------
    let side_logs: Vec<usize> = logs.iter().enumerate().filter(|(_, l)| r.thorough() || l.0.word() == "ST").map(|(i, _)| i).collect();
    let mut sjobs: Vec<(usize, bool, usize, u8)> = Vec::new();
    for i in &side_logs {
        let a = &logs[*i].0;
        let n = a.n();
        for off in 0..a.ledgers[n].len() {
            for bit in 0..8u8 {
                sjobs.push((*i, true, off, bit));
            }
        }
        if let Some(m) = &a.manifests[n] {
            for off in 0..m.len() {
                for bit in 0..8u8 {
                    sjobs.push((*i, false, off, bit));
                }
            }
        }
    }
    r.counter("side_file_damage_cases", sjobs.len() as u64);
    let st2 = sjobs
        .par_iter()
        .fold(Stats::default, |mut st, (i, ledger, off, bit)| {
            readers::eval_side_flip(&logs[*i].0, *ledger, *off, *bit, &mut st);
            st
        })
        .reduce(Stats::default, Stats::merge);
    let oc2 = st2.outcomes.clone();
    st2.flush(&r);

    // ---- multi-segment logs ------------------------------------------------------------------
    if std::env::var("C11_ONLY").map_or(true, |o| o.contains("mseg")) {
        mseg::run(&r);
    }

    // ---- the trusted host as a reader ----------------------------------------------------------
    hostreader::run(&r);

    // ---- vacuity guards -----------------------------------------------------------------------
    let kinds: std::collections::BTreeSet<String> = oc
        .keys()
        .filter_map(|k| k.strip_prefix("err:").map(|s| s.split('@').next().unwrap_or(s).to_string()))
        .collect();
    r.note("typed_error_kinds", json!(kinds));
    r.guard("typed_errors_of_at_least_3_kinds", kinds.len() >= 3);
    let seen = |p: &str| oc.iter().any(|(k, v)| k.starts_with(p) && *v > 0);
    r.guard("clean_prefix_outcomes_seen", seen("ok:strict-prefix"));
    r.guard("flips_in_every_region_seen", ["frame.magic", "frame.kind", "frame.len", "frame.payload", "frame.digest", "commit.magic", "commit.kind", "commit.len", "commit.payload", "commit.digest"]
        .iter().all(|reg| seen(&format!("region:{reg}"))));
    r.guard("record_edits_seen", seen("op:delete") && seen("op:dup") && seen("op:swap") && seen("op:transplant") && seen("op:splice") && seen("op:unknown-kind"));
    r.guard("projection_reader_saw_present_and_obstructed", seen("projection:Present") && seen("projection:Obstructed"));
    r.guard("projection_obstructed_on_duplicated_history", seen("projection:Obstructed-on-non-prefix-history"));
    r.guard("ledger_and_manifest_flips_seen", oc2.keys().any(|k| k.starts_with("ledger:")) && oc2.keys().any(|k| k.starts_with("manifest:")));
    if let Some((a, _)) = logs.first() {
        r.sample(json!({"log": a.word(), "segment_len": a.segment.len(),
            "records": a.records.iter().map(|x| json!([x.start, x.end, x.kind])).collect::<Vec<_>>(),
            "example_damage": {"op": "flip", "off": 20, "bit": 3}}));
    }
    r.finish();
}
