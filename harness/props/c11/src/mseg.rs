//! Damage to MULTI-SEGMENT logs.
//!
//! Logs span 2–3 segment files produced through the real store (`rotate_segment`, and a new writer
//! opening the next segment id under a fresh epoch; `walkit::mseg`).  Every single-segment damage
//! operator is applied to EACH segment file in turn (all other files intact), plus the operators
//! that only exist for several files: truncation of a non-final segment (record boundaries and zero
//! length; thorough: every byte length), deletion of a whole segment file, swapping two segment
//! files, copying a segment under a further id, overwriting one segment file with another.
//! Readers: `recover_filesystem_store` (both modes, second recovery after the writable one),
//! `doctor_filesystem_store`, `validate_filesystem_manifest`, `FilesystemWalStore::open`, and
//! `recover_wal_segment_bytes` on the damaged file alone.  Oracle: typed error, or a history that is
//! a prefix of the complete committed list (of the segment's own list for the bytes reader).

use crate::damage::{self, class_at, family, SegLog, M};
use crate::readers::{errkind, relate_txs, Rel, Stats};
use mc::{json, Report, Value};
use rayon::prelude::*;
use std::collections::BTreeMap;
use std::path::Path;
use walkit::frame::{self, Rec};
use walkit::fresh_dir;
use walkit::mseg::{build_multi, BuiltMulti, MDirImage, MSpec};
use warp_core::causal_wal::{
    doctor_filesystem_store, recover_filesystem_store, recover_wal_segment_bytes,
    validate_filesystem_manifest, FilesystemWalStore, RecoveryAccessMode, RecoveryScanReport,
    RecoveryTailPosture, WalCommittedTransaction, WalDoctorPosture, WalSegmentId,
};

/// One segment file seen as a single-segment log by the record-level operators.
pub struct SegView<'a> {
    pub seg: &'a [u8],
    pub recs: &'a [Rec],
}
impl SegLog for SegView<'_> {
    fn seg(&self) -> &[u8] {
        self.seg
    }
    fn recs(&self) -> &[Rec] {
        self.recs
    }
}

fn view(log: &BuiltMulti, si: usize) -> SegView<'_> {
    SegView { seg: &log.segments[si], recs: &log.records[si] }
}

/// One damage descriptor over a multi-segment directory (`seg` = 0-based file index, id = seg+1).
#[derive(Clone, Debug, PartialEq, Eq)]
pub enum MM {
    /// A single-segment operator applied to one segment file.
    InSeg { seg: usize, m: M },
    /// The segment file is cut to `len` bytes (`len` < its length).
    Trunc { seg: usize, len: usize },
    /// The segment file is removed.
    DeleteFile { seg: usize },
    /// The contents of two segment files are exchanged.
    SwapFiles { a: usize, b: usize },
    /// The segment file is copied under the next free id.
    DupAsNew { seg: usize },
    /// File `dst` gets the contents of file `src`.
    Overwrite { src: usize, dst: usize },
}

impl MM {
    pub fn js(&self) -> Value {
        match self {
            MM::InSeg { seg, m } => json!({"mop": "in-segment", "segment": seg + 1, "damage": m.js()}),
            MM::Trunc { seg, len } => json!({"mop": "truncate-segment", "segment": seg + 1, "len": len}),
            MM::DeleteFile { seg } => json!({"mop": "delete-segment-file", "segment": seg + 1}),
            MM::SwapFiles { a, b } => json!({"mop": "swap-segment-files", "a": a + 1, "b": b + 1}),
            MM::DupAsNew { seg } => json!({"mop": "copy-segment-under-next-id", "segment": seg + 1}),
            MM::Overwrite { src, dst } => json!({"mop": "overwrite-segment", "src": src + 1, "dst": dst + 1}),
        }
    }
    pub fn from_js(v: &Value) -> Option<MM> {
        let u = |k: &str| v[k].as_u64().map(|x| x as usize);
        let z = |k: &str| u(k).and_then(|x| x.checked_sub(1));
        Some(match v["mop"].as_str()? {
            "in-segment" => MM::InSeg { seg: z("segment")?, m: M::from_js(&v["damage"])? },
            "truncate-segment" => MM::Trunc { seg: z("segment")?, len: u("len")? },
            "delete-segment-file" => MM::DeleteFile { seg: z("segment")? },
            "swap-segment-files" => MM::SwapFiles { a: z("a")?, b: z("b")? },
            "copy-segment-under-next-id" => MM::DupAsNew { seg: z("segment")? },
            "overwrite-segment" => MM::Overwrite { src: z("src")?, dst: z("dst")? },
            _ => return None,
        })
    }
    /// The file whose committed content the operator damages (None: no single file).
    pub fn target(&self) -> Option<usize> {
        match self {
            MM::InSeg { seg, .. } | MM::Trunc { seg, .. } | MM::DeleteFile { seg } => Some(*seg),
            MM::Overwrite { dst, .. } => Some(*dst),
            _ => None,
        }
    }
    pub fn family(&self) -> &'static str {
        match self {
            MM::InSeg { m, .. } => family(m),
            MM::Trunc { .. } => "truncate-segment",
            MM::DeleteFile { .. } => "delete-segment-file",
            MM::SwapFiles { .. } => "swap-segment-files",
            MM::DupAsNew { .. } => "copy-segment",
            MM::Overwrite { .. } => "overwrite-segment",
        }
    }
}

/// first / middle / final position of a segment file.
pub fn seg_pos(log: &BuiltMulti, si: usize) -> &'static str {
    if si + 1 == log.nseg() {
        "final-segment"
    } else if si == 0 {
        "first-segment"
    } else {
        "middle-segment"
    }
}

/// Where a truncation cuts.
fn cut_class(recs: &[Rec], len: usize) -> &'static str {
    if len == 0 {
        return "to-zero-length";
    }
    let last = recs.len() - 1;
    for (i, r) in recs.iter().enumerate() {
        if len == r.end {
            return if r.is_commit() { "at-transaction-boundary" } else if i + 1 == last { "before-last-commit-marker" } else { "at-frame-boundary" };
        }
        if len > r.start && len < r.end {
            return if i == last { "inside-last-commit-marker" } else if i == 0 { "inside-first-record" } else { "mid-record" };
        }
    }
    "beyond"
}

/// Class label (goes into signatures and histograms).  In-segment operators keep the labels of the
/// single-segment check, with first / last / non-last meaning positions in the whole history.
pub fn class_mm(log: &BuiltMulti, mm: &MM) -> String {
    match mm {
        // byte-level damage: operator @ record region first touched @ position of the segment file
        MM::InSeg { seg, m: m @ (M::Flip { off, .. } | M::Zero { off, .. }) } => {
            format!("{}@{}@{}", class_at(&view(log, *seg), m, 0, 0), frame::region_of(&log.records[*seg], *off), seg_pos(log, *seg))
        }
        MM::InSeg { seg, m } => class_at(&view(log, *seg), m, log.txs_of_seg(*seg as u64 + 1).start, log.n()),
        MM::Trunc { seg, len } => format!("truncate-segment({},{})", seg_pos(log, *seg), cut_class(&log.records[*seg], *len)),
        MM::DeleteFile { seg } => format!("delete-segment-file({})", seg_pos(log, *seg)),
        MM::SwapFiles { .. } => "swap-segment-files".into(),
        MM::DupAsNew { seg } => format!("copy-segment-under-next-id({})", seg_pos(log, *seg)),
        MM::Overwrite { dst, .. } => format!("overwrite-segment({})", seg_pos(log, *dst)),
    }
}

/// All damage descriptors for one multi-segment log.
/// `bytes`: 0 = no byte-level operators, 1 = strided (one bit per byte, zeroing of ≥8-byte ranges), 2 = all.
/// `all_cuts`: truncate non-final segments at every byte length (otherwise record boundaries and zero).
pub fn enumerate_mm(a: &BuiltMulti, b: &BuiltMulti, bytes: u8, all_cuts: bool) -> Vec<MM> {
    let mut out = Vec::new();
    let s = a.nseg();
    for si in 0..s {
        if a.segments[si].is_empty() {
            continue;
        }
        let same_shape = b.records.get(si).is_some_and(|r| r.len() == a.records[si].len());
        let bv = if same_shape { view(b, si) } else { view(a, si) };
        for m in damage::enumerate_ops(&view(a, si), &bv, bytes > 0, bytes > 0) {
            let keep = match &m {
                M::Flip { off, bit } => bytes == 2 || (*off % 8) as u8 == *bit,
                M::Zero { len, .. } => bytes == 2 || *len >= 8,
                M::Transplant(_) | M::SpliceTx(_) | M::AppendForeignTx(_) => same_shape,
                _ => true,
            };
            if keep {
                out.push(MM::InSeg { seg: si, m });
            }
        }
        if si + 1 < s {
            let len = a.segments[si].len();
            if all_cuts {
                out.extend((0..len).map(|l| MM::Trunc { seg: si, len: l }));
            } else {
                out.push(MM::Trunc { seg: si, len: 0 });
                out.extend(a.records[si].iter().map(|r| r.end).filter(|e| *e < len).map(|l| MM::Trunc { seg: si, len: l }));
            }
        }
    }
    for si in 0..s {
        out.push(MM::DeleteFile { seg: si });
        out.push(MM::DupAsNew { seg: si });
        for sj in 0..s {
            if si < sj {
                out.push(MM::SwapFiles { a: si, b: sj });
            }
            // (overwriting with an empty file is the truncation to zero length)
            if si != sj && !a.segments[si].is_empty() {
                out.push(MM::Overwrite { src: si, dst: sj });
            }
        }
    }
    out
}

/// The damaged set of segment files (None when nothing changes).
pub fn apply_mm(a: &BuiltMulti, b: &BuiltMulti, mm: &MM) -> Option<BTreeMap<u64, Vec<u8>>> {
    let mut segs: BTreeMap<u64, Vec<u8>> = a.segments.iter().enumerate().map(|(i, s)| (i as u64 + 1, s.clone())).collect();
    let orig = segs.clone();
    match mm {
        MM::InSeg { seg, m } => {
            let same_shape = b.records.get(*seg).is_some_and(|r| r.len() == a.records[*seg].len());
            let bv = if same_shape { view(b, *seg) } else { view(a, *seg) };
            let img = damage::apply(&view(a, *seg), &bv, m)?;
            segs.insert(*seg as u64 + 1, img);
        }
        MM::Trunc { seg, len } => {
            segs.get_mut(&(*seg as u64 + 1))?.truncate(*len);
        }
        MM::DeleteFile { seg } => {
            segs.remove(&(*seg as u64 + 1));
        }
        MM::SwapFiles { a: x, b: y } => {
            let (bx, by) = (segs[&(*x as u64 + 1)].clone(), segs[&(*y as u64 + 1)].clone());
            segs.insert(*x as u64 + 1, by);
            segs.insert(*y as u64 + 1, bx);
        }
        MM::DupAsNew { seg } => {
            let c = segs[&(*seg as u64 + 1)].clone();
            segs.insert(a.nseg() as u64 + 1, c);
        }
        MM::Overwrite { src, dst } => {
            let c = segs[&(*src as u64 + 1)].clone();
            segs.insert(*dst as u64 + 1, c);
        }
    }
    if segs == orig {
        None
    } else {
        Some(segs)
    }
}

/// Does the operator remove or alter bytes of committed records (as opposed to only adding files /
/// permuting intact files)?
fn alters_committed_content(a: &BuiltMulti, mm: &MM) -> bool {
    match mm {
        MM::InSeg { m, .. } => !m.appends_after_log(),
        MM::Trunc { .. } => true,
        MM::DeleteFile { seg } => !a.segments[*seg].is_empty(),
        MM::Overwrite { dst, .. } => !a.segments[*dst].is_empty(),
        MM::SwapFiles { .. } | MM::DupAsNew { .. } => false,
    }
}

thread_local! {
    static WORK: std::cell::RefCell<Option<std::path::PathBuf>> = const { std::cell::RefCell::new(None) };
}

fn with_dir<R>(f: impl FnOnce(&Path) -> R) -> R {
    WORK.with(|w| {
        let mut g = w.borrow_mut();
        if g.is_none() {
            *g = Some(fresh_dir(&mc::scratch_root(), "c11m").join("wal"));
        }
        f(g.as_ref().unwrap())
    })
}

fn hexes(txs: &[WalCommittedTransaction]) -> Vec<String> {
    txs.iter().map(|t| mc::hex(&t.commit.commit_digest[..6])).collect()
}

/// Run every reader on one damaged multi-segment directory and apply the oracle.
pub fn eval_mm(a: &BuiltMulti, mm: &MM, segs: &BTreeMap<u64, Vec<u8>>, st: &mut Stats) {
    let cls = class_mm(a, mm);
    let case = json!({"mseg_log": a.word(), "damage": mm.js(), "segment_lens": a.segments.iter().map(|s| s.len()).collect::<Vec<_>>()});
    st.evals += 1;
    st.outcome(&format!("mseg.op:{}", mm.family()));
    if let Some(t) = mm.target() {
        st.outcome(&format!("mseg.damaged:{}", seg_pos(a, t)));
        st.outcome(&format!("mseg.damaged-segment-id={}", t + 1));
    }
    st.nontrivial.push(Report::key(format!("mseg:{}:{mm:?}", a.word()).as_bytes()));
    let nonfinal = mm.target().is_some_and(|t| t + 1 < a.nseg());
    let region = match mm {
        MM::InSeg { seg, m: M::Flip { off, .. } } | MM::InSeg { seg, m: M::Zero { off, .. } } => frame::region_of(&a.records[*seg], *off),
        _ => "record",
    };
    let byte_level = matches!(mm, MM::InSeg { m, .. } if m.byte_level());
    let appends = matches!(mm, MM::InSeg { m, .. } if m.appends_after_log());
    let alters = alters_committed_content(a, mm);

    let mut judge = |st: &mut Stats, reader: &str, cls: &str, want: &[WalCommittedTransaction], res: Result<Result<RecoveryScanReport, String>, String>| -> Option<Rel> {
        match res {
            Err(p) => {
                st.viol(format!("c11:{cls}:panic:{reader}"), json!({"case": case, "panic": p}));
                None
            }
            Ok(Err(e)) => {
                st.outcome(&format!("mseg.err:{}@{reader}", errkind(&e)));
                if nonfinal {
                    st.outcome(&format!("mseg.nonfinal-damage:typed-error:{}", errkind(&e)));
                }
                None
            }
            Ok(Ok(rep)) => {
                let rel = relate_txs(&rep, want);
                match &rel {
                    Rel::NonPrefix(why) => st.viol(
                        format!("c11:{cls}:non-prefix-history:{why}:{reader}"),
                        json!({"case": case, "reader": reader, "returned_commits": hexes_r(&rep), "original_commits": hexes(want), "tail": format!("{:?}", rep.tail_posture)}),
                    ),
                    Rel::FullClean => {
                        if appends {
                            st.viol(format!("c11:{cls}:trailing-content-silently-ignored:{reader}"), json!({"case": case, "reader": reader}));
                        } else if byte_level && region != "outside" {
                            st.viol(format!("c11:{}:undetected-byte-damage:{region}:{reader}", mm.family()), json!({"case": case, "reader": reader, "region": region}));
                        } else if alters && !matches!(mm, MM::InSeg { .. }) {
                            st.viol(format!("c11:{cls}:undetected-loss-of-committed-content:{reader}"), json!({"case": case, "reader": reader}));
                        } else {
                            st.outcome(&format!("mseg.ok:absorbed-full-history:{cls}@{reader}"));
                        }
                    }
                    Rel::FullWithTail => st.outcome(&format!("mseg.ok:full-history-with-tail@{reader}")),
                    Rel::StrictPrefix(_) => st.outcome(&format!("mseg.ok:strict-prefix@{reader}")),
                }
                Some(rel)
            }
        }
    };

    // 1. the damaged file alone through the bytes reader (history = that segment's own list)
    if let MM::InSeg { seg, .. } | MM::Trunc { seg, .. } = mm {
        let id = *seg as u64 + 1;
        let range = a.txs_of_seg(id);
        let own = &a.txs[range.clone()];
        let local_cls = match mm {
            MM::InSeg { m, .. } if !m.byte_level() => class_at(&view(a, *seg), m, 0, own.len()),
            _ => cls.clone(),
        };
        if let Some(img) = segs.get(&id) {
            for (mode, name) in [(RecoveryAccessMode::ReadOnly, "bytes-ro"), (RecoveryAccessMode::Writable, "bytes-rw")] {
                let res = mc::catch(|| recover_wal_segment_bytes(WalSegmentId::from_raw(id), img, mode).map(|x| x.report).map_err(|e| format!("{e:?}")));
                judge(st, name, &local_cls, own, res);
            }
        }
    }

    // 2. filesystem readers on the whole directory
    let full = a.full_image();
    let img = MDirImage { segs: segs.clone(), ..full };
    with_dir(|dir| {
        img.materialise_over(dir);
        let ro = mc::catch(|| recover_filesystem_store(dir, RecoveryAccessMode::ReadOnly).map_err(|e| format!("{e:?}")));
        let ro_rel = judge(st, "fs-ro", &cls, &a.txs, ro.clone());
        if MDirImage::read(dir) != img {
            st.viol(format!("c11:{cls}:fs-ro:mutated-directory"), json!({"case": case}));
        }
        if let Ok(Ok(rep)) = &ro {
            crate::readers::judge_projection(st, dir, rep, ro_rel.as_ref(), &a.writer_epochs, &cls, &case, "mseg.");
        }
        match mc::catch(|| doctor_filesystem_store(dir)) {
            Err(p) => st.viol(format!("c11:{cls}:doctor:panic"), json!({"case": case, "panic": p})),
            Ok(Err(e)) => st.outcome(&format!("mseg.err:{}@doctor", errkind(&format!("{e:?}")))),
            Ok(Ok(rep)) => {
                st.outcome(&format!("mseg.doctor:{:?}", rep.posture));
                let consistent = match (&ro, rep.posture) {
                    (Ok(Err(_)), WalDoctorPosture::Obstructed) => true,
                    (Ok(Ok(r)), WalDoctorPosture::Recoverable | WalDoctorPosture::RecoverableWithUncommittedTail) => {
                        rep.recovery_certificate.committed_transactions_replayed == r.transactions.len() as u64
                            && (rep.posture == WalDoctorPosture::Recoverable) == (r.tail_posture == RecoveryTailPosture::Clean)
                    }
                    _ => false,
                };
                if !consistent {
                    st.viol(format!("c11:{cls}:doctor:inconsistent-with-read-only-recovery"),
                        json!({"case": case, "posture": format!("{:?}", rep.posture), "replayed": rep.recovery_certificate.committed_transactions_replayed}));
                }
            }
        }
        match mc::catch(|| validate_filesystem_manifest(dir)) {
            Err(p) => st.viol(format!("c11:{cls}:manifest:panic"), json!({"case": case, "panic": p})),
            Ok(Err(e)) => st.outcome(&format!("mseg.err:{}@manifest", errkind(&format!("{e:?}")))),
            Ok(Ok(_)) => {
                if matches!(ro_rel, Some(Rel::FullClean)) {
                    st.outcome("mseg.manifest:ok-on-absorbed-damage");
                } else {
                    st.outcome("mseg.manifest:ok-although-recovery-refuses-or-shortens");
                }
            }
        }
        let newest = img.last_seg_id().unwrap_or(1);
        match mc::catch(|| FilesystemWalStore::open(dir, WalSegmentId::from_raw(newest)).map(|_| ())) {
            Err(p) => st.viol(format!("c11:{cls}:open:panic"), json!({"case": case, "panic": p})),
            Ok(Err(e)) => st.outcome(&format!("mseg.err:{}@open", errkind(&format!("{e:?}")))),
            Ok(Ok(())) => st.outcome("mseg.open:ok"),
        }
        let rw = mc::catch(|| recover_filesystem_store(dir, RecoveryAccessMode::Writable).map_err(|e| format!("{e:?}")));
        let rw_rel = judge(st, "fs-rw", &cls, &a.txs, rw.clone());
        if let (Ok(Ok(first)), Some(_)) = (&rw, &rw_rel) {
            match mc::catch(|| recover_filesystem_store(dir, RecoveryAccessMode::ReadOnly).map_err(|e| format!("{e:?}"))) {
                Ok(Ok(again)) => {
                    if again.transactions != first.transactions {
                        st.viol(format!("c11:{cls}:fs-rw:history-changes-on-second-recovery"), json!({"case": case}));
                    }
                }
                Ok(Err(e)) => st.viol(format!("c11:{cls}:fs-rw:second-recovery-fails:{}", errkind(&e)), json!({"case": case, "error": e})),
                Err(p) => st.viol(format!("c11:{cls}:fs-rw:panic-on-second-recovery"), json!({"case": case, "panic": p})),
            }
        }
        if ro_rel.is_some() != rw_rel.is_some() {
            st.outcome("mseg.note:ro-and-rw-disagree-on-success");
        }
    });
}

fn hexes_r(rep: &RecoveryScanReport) -> Vec<String> {
    rep.transactions.iter().map(|t| mc::hex(&t.commit.commit_digest[..6])).collect()
}

/// Flip one bit of the ledger (or manifest) of a complete multi-segment log.
pub fn eval_side_flip_m(log: &BuiltMulti, ledger: bool, off: usize, bit: u8, st: &mut Stats) {
    st.evals += 1;
    let case = json!({"mseg_log": log.word(), "damage": {"mop": if ledger { "flip-ledger" } else { "flip-manifest" }, "off": off, "bit": bit}});
    st.nontrivial.push(Report::key(format!("mseg:{}:{ledger}:{off}:{bit}", log.word()).as_bytes()));
    let mut img = log.full_image();
    let newest = WalSegmentId::from_raw(img.last_seg_id().unwrap_or(1));
    with_dir(|dir| {
        if ledger {
            let Some(l) = img.ledger.as_mut() else { return };
            let len = l.len();
            l[off] ^= 1 << bit;
            img.materialise_over(dir);
            let field = if off < 8 { "magic" } else if off < 16 { "length" } else if off + 32 >= len { "digest" } else { "payload" };
            match mc::catch(|| FilesystemWalStore::open(dir, newest).map(|_| ())) {
                Err(p) => st.viol("c11:flip-ledger:open:panic".into(), json!({"case": case, "panic": p})),
                Ok(Err(e)) => st.outcome(&format!("mseg.ledger:{field}:err:{}", errkind(&format!("{e:?}")))),
                Ok(Ok(())) => st.viol(format!("c11:flip-ledger:open:undetected-byte-damage:ledger.{field}"), json!({"case": case})),
            }
            match mc::catch(|| recover_filesystem_store(dir, RecoveryAccessMode::ReadOnly)) {
                Ok(Ok(rep)) if relate_txs(&rep, &log.txs) == Rel::FullClean => st.outcome("mseg.ledger:recovery-unaffected"),
                other => st.viol("c11:flip-ledger:fs-ro:history-affected".into(), json!({"case": case, "observed": format!("{:?}", other.map(|r| r.map(|x| x.transactions.len())))})),
            }
        } else {
            let Some(m) = img.manifest.as_mut() else { return };
            m[off] ^= 1 << bit;
            img.materialise_over(dir);
            let field = if off < 32 { "manifest_digest" } else if off < 33 { "lsn-tag" } else if off < 41 { "last_committed_lsn" } else if off < 42 { "digest-tag" } else if off < 74 { "last_commit_digest" } else { "sealed_segment_count" };
            match mc::catch(|| validate_filesystem_manifest(dir)) {
                Err(p) => st.viol("c11:flip-manifest:validate:panic".into(), json!({"case": case, "panic": p})),
                Ok(Err(e)) => st.outcome(&format!("mseg.manifest:{field}:err:{}", errkind(&format!("{e:?}")))),
                Ok(Ok(_)) => st.viol(format!("c11:flip-manifest:validate:undetected-byte-damage:manifest.{field}"), json!({"case": case})),
            }
        }
    });
}

fn build_pair(scratch: &Path, spec: &MSpec) -> Result<(BuiltMulti, BuiltMulti), String> {
    let mk = |v: u8| {
        let d = fresh_dir(scratch, "c11-mbuild");
        let r = build_multi(&d, spec, v);
        let _ = std::fs::remove_dir_all(&d);
        r.map_err(|e| format!("{}: {e}", spec.word()))
    };
    Ok((mk(0)?, mk(1)?))
}

/// Quick logs: 3 non-empty segments via two rotations; 2 segments with two writer epochs;
/// rotation + new writer mixed; an empty middle segment.
pub fn specs(quick: bool) -> Vec<MSpec> {
    if quick {
        ["ST|S|T", "S/T", "S|T/S", "S||T"].iter().filter_map(|s| MSpec::parse(s)).collect()
    } else {
        walkit::mseg::specs_thorough().into_iter().filter(|s| s.ntx() >= 2).collect()
    }
}

pub fn run(r: &Report) {
    let scratch = mc::scratch_root();
    let logs: Vec<(BuiltMulti, BuiltMulti)> = match specs(r.quick()).par_iter().map(|s| build_pair(&scratch, s)).collect::<Result<Vec<_>, String>>() {
        Ok(l) => l,
        Err(e) => {
            r.machinery_error(&format!("multi-segment log build failed: {e}"));
            return;
        }
    };
    r.counter("mseg.logs", logs.len() as u64);
    r.counter("mseg.segment_files_total", logs.iter().map(|l| l.0.nseg() as u64).sum());
    r.counter("mseg.log_bytes_total", logs.iter().map(|l| l.0.segments.iter().map(|s| s.len() as u64).sum::<u64>()).sum());
    r.note("mseg.log_words", json!(logs.iter().map(|l| l.0.word()).collect::<Vec<_>>()));
    r.guard("mseg.multi_segment_log_built", logs.iter().any(|l| l.0.segments.iter().filter(|s| !s.is_empty()).count() >= 2));
    r.guard("mseg.three_segment_log_built", logs.iter().any(|l| l.0.segments.iter().filter(|s| !s.is_empty()).count() >= 3));

    // vacuity: the intact multi-segment logs (those whose manifest is current) project Present
    let mut intact_present = 0usize;
    let mut intact_other = Vec::new();
    for (a, _) in &logs {
        let img = a.full_image();
        with_dir(|dir| {
            img.materialise_over(dir);
            if validate_filesystem_manifest(dir).is_err() {
                return;
            }
            match recover_filesystem_store(dir, RecoveryAccessMode::ReadOnly) {
                Ok(rep) => {
                    let pr = warp_core::causal_wal::project_filesystem_wal_recovery(dir, &rep, &a.writer_epochs, None);
                    if pr.posture == warp_core::causal_wal::WalRecoveryProjectionPosture::Present && pr.root.as_ref().is_some_and(|x| x.segments.len() == a.segments.iter().filter(|s| !s.is_empty()).count()) {
                        intact_present += 1;
                    } else {
                        intact_other.push(format!("{}: {:?} {:?}", a.word(), pr.posture, pr.obstructions));
                    }
                }
                Err(e) => intact_other.push(format!("{}: {e:?}", a.word())),
            }
        });
    }
    r.counter("mseg.intact_logs_projected_present", intact_present as u64);
    if !intact_other.is_empty() {
        r.note("mseg.intact_logs_not_projected_present", json!(intact_other));
    }
    r.guard("mseg.intact_log_projects_present", intact_present >= 2 && intact_other.is_empty());

    let mut jobs: Vec<(usize, MM)> = Vec::new();
    for (i, (a, b)) in logs.iter().enumerate() {
        let bytes = if r.thorough() { 2 } else { 1 };
        for mm in enumerate_mm(a, b, bytes, r.thorough()) {
            jobs.push((i, mm));
        }
    }
    r.counter("mseg.damage_cases", jobs.len() as u64);
    if r.quick() {
        r.not_exhaustive();
        r.note("mseg.quick_stride", json!("quick: record / file operators exhaustive on every segment; bit flips one bit per byte (bit index = offset mod 8); zeroing only for ranges of ≥8 bytes; non-final segments truncated at every record boundary and to zero length (thorough: every bit, every zeroing, every byte length)"));
    }
    let capped = std::sync::atomic::AtomicBool::new(false);
    let st = jobs
        .par_iter()
        .fold(Stats::default, |mut st, (i, mm)| {
            if r.over_budget_frac(0.8) {
                capped.store(true, std::sync::atomic::Ordering::Relaxed);
                st.count("mseg.skipped_by_cap", 1);
                return st;
            }
            let (a, b) = &logs[*i];
            match apply_mm(a, b, mm) {
                Some(segs) => eval_mm(a, mm, &segs, &mut st),
                None => st.count("mseg.noop_damage_skipped", 1),
            }
            st
        })
        .reduce(Stats::default, Stats::merge);
    if capped.load(std::sync::atomic::Ordering::Relaxed) {
        r.cap_hit("multi-segment damage: wall cap reached");
    }
    let oc = st.outcomes.clone();
    st.flush(r);

    // ledger (two epochs) and manifest (segment count 2–3) of multi-segment logs
    let mut sjobs: Vec<(usize, bool, usize, u8)> = Vec::new();
    for (i, (a, _)) in logs.iter().enumerate() {
        if r.quick() && a.word() != "S/T" && a.word() != "ST|S|T" {
            continue;
        }
        let img = a.full_image();
        for off in 0..img.ledger.as_ref().map_or(0, |l| l.len()) {
            for bit in 0..8u8 {
                sjobs.push((i, true, off, bit));
            }
        }
        // manifest flips only where the intact manifest describes the complete directory (a log that
        // ends with an empty, freshly created segment has a stale segment count to begin with)
        let manifest_current = with_dir(|dir| {
            img.materialise_over(dir);
            validate_filesystem_manifest(dir).is_ok()
        });
        if !manifest_current {
            r.outcome("mseg.manifest-flips-skipped:intact-manifest-is-stale");
            continue;
        }
        for off in 0..img.manifest.as_ref().map_or(0, |l| l.len()) {
            for bit in 0..8u8 {
                sjobs.push((i, false, off, bit));
            }
        }
    }
    r.counter("mseg.side_file_damage_cases", sjobs.len() as u64);
    let st2 = sjobs
        .par_iter()
        .fold(Stats::default, |mut st, (i, ledger, off, bit)| {
            eval_side_flip_m(&logs[*i].0, *ledger, *off, *bit, &mut st);
            st
        })
        .reduce(Stats::default, Stats::merge);
    let oc2 = st2.outcomes.clone();
    st2.flush(r);

    let seen = |p: &str| oc.iter().any(|(k, v)| k.starts_with(p) && *v > 0);
    let ids_damaged = oc.keys().filter(|k| k.starts_with("mseg.damaged-segment-id=")).count();
    r.guard("mseg.at_least_2_segments_damaged", ids_damaged >= 2);
    r.guard("mseg.first_middle_and_final_segment_damaged", seen("mseg.damaged:first-segment") && seen("mseg.damaged:middle-segment") && seen("mseg.damaged:final-segment"));
    r.guard("mseg.typed_errors_for_non_final_segment_damage", oc.keys().filter(|k| k.starts_with("mseg.nonfinal-damage:typed-error:")).count() >= 3);
    r.guard("mseg.every_file_operator_seen", ["truncate-segment", "delete-segment-file", "swap-segment-files", "copy-segment", "overwrite-segment"].iter().all(|f| seen(&format!("mseg.op:{f}"))));
    r.guard("mseg.every_record_operator_seen_in_segments", ["flip", "zero", "delete", "dup", "swap", "transplant", "splice", "unknown-kind"].iter().all(|f| seen(&format!("mseg.op:{f}"))));
    r.guard("mseg.segment_gap_and_lsn_continuity_errors_seen", seen("mseg.err:Store:SegmentGap@fs-ro") && seen("mseg.err:Validation:LsnContinuityMismatch@fs-ro"));
    r.guard("mseg.clean_prefix_outcomes_seen", seen("mseg.ok:strict-prefix"));
    r.guard("mseg.ledger_and_manifest_flips_seen", oc2.keys().any(|k| k.starts_with("mseg.ledger:")) && oc2.keys().any(|k| k.starts_with("mseg.manifest:")));
    if let Some((a, _)) = logs.iter().find(|l| l.0.nseg() == 3) {
        r.sample_force(json!({"mseg_log": a.word(), "segment_lens": a.segments.iter().map(|s| s.len()).collect::<Vec<_>>(), "tx_segment": a.tx_seg,
            "records_of_segment_1": a.records[0].iter().map(|x| json!([x.start, x.end, x.kind])).collect::<Vec<_>>(),
            "example_damage": MM::Trunc { seg: 0, len: a.records[0].first().map(|x| x.end).unwrap_or(0) }.js()}));
    }
}

/// Replay one multi-segment case.
pub fn replay(case: &Value, st: &mut Stats) -> Result<(), String> {
    let spec = MSpec::parse(case["mseg_log"].as_str().ok_or("mseg_log")?).ok_or("bad word")?;
    let (a, b) = build_pair(&mc::scratch_root(), &spec)?;
    let d = &case["damage"];
    match d["mop"].as_str() {
        Some("flip-ledger") | Some("flip-manifest") => {
            eval_side_flip_m(&a, d["mop"] == "flip-ledger", d["off"].as_u64().ok_or("off")? as usize, d["bit"].as_u64().ok_or("bit")? as u8, st);
        }
        _ => {
            let mm = MM::from_js(d).ok_or("damage")?;
            let segs = apply_mm(&a, &b, &mm).ok_or("no-op damage")?;
            eval_mm(&a, &mm, &segs, st);
        }
    }
    Ok(())
}
