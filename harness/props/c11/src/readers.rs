//! Readers and the prefix oracle.

use crate::damage::{apply, class, family, M};
use mc::{json, Report, Value};
use std::collections::BTreeMap;
use std::path::Path;
use walkit::frame;
use walkit::store::{build_log, BuiltLog, TxKind, KINDS};
use walkit::{fresh_dir, DirImage, LEDGER_FILE, MANIFEST_FILE, SEGMENT_REL};
use warp_core::causal_wal::{
    doctor_filesystem_store, project_filesystem_wal_recovery, recover_filesystem_store,
    recover_wal_segment_bytes, validate_filesystem_manifest, FilesystemWalStore,
    RecoveryAccessMode, RecoveryScanReport, RecoveryTailPosture, WalDoctorPosture,
    WalRecoveryProjectionPosture, WalSegmentId, WalWriterEpoch,
};

#[derive(Clone, Debug, Default)]
pub struct Stats {
    pub evals: u64,
    pub outcomes: BTreeMap<String, u64>,
    pub counters: BTreeMap<String, u64>,
    pub nontrivial: Vec<u128>,
    /// Kept violation details: at most `KEEP_PER_SIG` per signature (a rare signature can never be
    /// crowded out by a frequent one); `viol_counts` has the true number per signature.
    pub viols: Vec<(String, Value)>,
    pub viol_counts: BTreeMap<String, u64>,
}

const KEEP_PER_SIG: usize = 4;

impl Stats {
    pub fn outcome(&mut self, k: &str) {
        *self.outcomes.entry(k.to_string()).or_insert(0) += 1;
    }
    pub fn count(&mut self, k: &str, n: u64) {
        *self.counters.entry(k.to_string()).or_insert(0) += n;
    }
    pub fn viol(&mut self, sig: String, detail: Value) {
        let n = self.viol_counts.entry(sig.clone()).or_insert(0);
        *n += 1;
        if (*n as usize) <= KEEP_PER_SIG {
            self.viols.push((sig, detail));
        }
    }
    pub fn merge(mut self, o: Stats) -> Stats {
        self.evals += o.evals;
        for (k, v) in o.outcomes {
            *self.outcomes.entry(k).or_insert(0) += v;
        }
        for (k, v) in o.counters {
            *self.counters.entry(k).or_insert(0) += v;
        }
        self.nontrivial.extend(o.nontrivial);
        for (k, v) in o.viol_counts {
            *self.viol_counts.entry(k).or_insert(0) += v;
        }
        for v in o.viols {
            if self.viols.iter().filter(|x| x.0 == v.0).count() < KEEP_PER_SIG {
                self.viols.push(v);
            }
        }
        self
    }
    pub fn flush(self, r: &Report) {
        r.eval(self.evals);
        for (s, n) in &self.viol_counts {
            r.counter(&format!("violation:{s}"), *n);
        }
        for (k, v) in &self.outcomes {
            r.outcome_n(k, *v);
        }
        for (k, v) in &self.counters {
            r.counter(k, *v);
        }
        r.nontrivial_many(self.nontrivial);
        let mut kept: BTreeMap<String, u64> = BTreeMap::new();
        for (s, d) in self.viols {
            *kept.entry(s.clone()).or_insert(0) += 1;
            r.violation(&s, d);
        }
        // the report counts occurrences per signature: register the ones whose detail was not kept
        for (s, n) in &self.viol_counts {
            for _ in kept.get(s).copied().unwrap_or(0)..*n {
                r.violation(s, json!(null));
            }
        }
    }
}

/// Variant-name path of a `Debug`-printed error.
pub fn errkind(dbg: &str) -> String {
    let b = dbg.as_bytes();
    let mut i = 0;
    let mut parts: Vec<String> = Vec::new();
    loop {
        let s = i;
        while i < b.len() && (b[i].is_ascii_alphanumeric() || b[i] == b'_') {
            i += 1;
        }
        if s == i || !b[s].is_ascii_uppercase() {
            break;
        }
        parts.push(dbg[s..i].to_string());
        if parts.len() >= 4 || i >= b.len() || b[i] != b'(' {
            break;
        }
        i += 1;
    }
    if parts.is_empty() {
        "?".into()
    } else {
        parts.join(":")
    }
}

/// How a successfully returned history relates to the original committed list.
#[derive(Clone, Debug, PartialEq, Eq)]
pub enum Rel {
    /// Complete original history, clean tail: the reader saw nothing wrong.
    FullClean,
    /// Complete original history, but a tail was reported.
    FullWithTail,
    /// The first m < n original transactions.
    StrictPrefix(usize),
    /// Not a prefix: why.
    NonPrefix(&'static str),
}

pub fn relate(report: &RecoveryScanReport, log: &BuiltLog) -> Rel {
    relate_txs(report, &log.txs)
}

/// Same, against an explicit committed list.
pub fn relate_txs(report: &RecoveryScanReport, want: &[warp_core::causal_wal::WalCommittedTransaction]) -> Rel {
    let got = &report.transactions;
    let orig: Vec<_> = want.iter().map(|t| t.commit.commit_digest).collect();
    for (i, g) in got.iter().enumerate() {
        let same = i < want.len() && g.commit == want[i].commit && g.frames == want[i].frames;
        if !same {
            // classify the deviation
            let d = g.commit.commit_digest;
            if got[..i].iter().any(|p| p.commit.commit_digest == d) {
                return Rel::NonPrefix("transaction-duplicated");
            }
            return match orig.iter().position(|x| *x == d) {
                Some(j) if j > i => Rel::NonPrefix("transaction-missing"),
                Some(j) if g.frames != want[j].frames => Rel::NonPrefix("frames-differ"),
                Some(_) => Rel::NonPrefix("transaction-out-of-order"),
                None if i < want.len() && g.commit.first_lsn == want[i].commit.first_lsn => Rel::NonPrefix("foreign-transaction-substituted"),
                None => Rel::NonPrefix("foreign-transaction-appended"),
            };
        }
    }
    if got.len() == want.len() {
        if report.tail_posture == RecoveryTailPosture::Clean {
            Rel::FullClean
        } else {
            Rel::FullWithTail
        }
    } else {
        Rel::StrictPrefix(got.len())
    }
}

/// The graph-projection reader: `project_filesystem_wal_recovery` over the report that read-only
/// recovery returned for the (damaged) directory, with the writer-epoch evidence of the intact log.
/// A projection that is `Present` over a history that is not a prefix of what was committed is a
/// violation (an obstructed / absent projection is the typed refusal the property asks for).
pub fn judge_projection(st: &mut Stats, dir: &Path, rep: &RecoveryScanReport, rel: Option<&Rel>, epochs: &[WalWriterEpoch], cls: &str, case: &Value, tag: &str) {
    match mc::catch(|| project_filesystem_wal_recovery(dir, rep, epochs, None)) {
        Err(p) => st.viol(format!("c11:{cls}:panic:projection"), json!({"case": case, "panic": p})),
        Ok(pr) => {
            match pr.posture {
                WalRecoveryProjectionPosture::Present => st.outcome(&format!("{tag}projection:Present")),
                WalRecoveryProjectionPosture::Absent => st.outcome(&format!("{tag}projection:Absent")),
                WalRecoveryProjectionPosture::Obstructed => {
                    let why = pr.obstructions.first().map(|o| errkind(&format!("{o:?}"))).unwrap_or_else(|| "?".into());
                    st.outcome(&format!("{tag}projection:Obstructed:{why}"));
                }
            }
            if let (WalRecoveryProjectionPosture::Present, Some(Rel::NonPrefix(why))) = (pr.posture, rel) {
                st.outcome(&format!("{tag}projection:Present-on-non-prefix-history"));
                st.viol(
                    format!("c11:{cls}:projection-present-on-non-prefix-history:projection"),
                    json!({"case": case, "reader": "projection", "why_not_a_prefix": why, "transactions_in_report": rep.transactions.len(),
                        "projected_segments": pr.root.as_ref().map(|r| r.segments.len())}),
                );
            } else if let (WalRecoveryProjectionPosture::Obstructed, Some(Rel::NonPrefix(_))) = (pr.posture, rel) {
                st.outcome(&format!("{tag}projection:Obstructed-on-non-prefix-history"));
            }
        }
    }
}

thread_local! {
    static WORK: std::cell::RefCell<Option<(std::path::PathBuf, usize)>> = const { std::cell::RefCell::new(None) };
}

/// Per-thread WAL directory holding the intact ledger and manifest of log `li`; only the segment
/// file is replaced per case.
fn with_dir<R>(log: &BuiltLog, li: usize, f: impl FnOnce(&Path) -> R) -> R {
    WORK.with(|w| {
        let mut g = w.borrow_mut();
        if g.is_none() {
            *g = Some((fresh_dir(&mc::scratch_root(), "c11w").join("wal"), usize::MAX));
        }
        let (dir, cur) = g.as_mut().unwrap();
        if *cur != li {
            let _ = std::fs::remove_dir_all(&*dir);
            log.image_after(log.n()).materialise(dir);
            *cur = li;
        }
        f(dir)
    })
}

fn case_json(log: &BuiltLog, m: &M) -> Value {
    json!({"log": log.word(), "damage": m.js()})
}

/// Byte region (of the ORIGINAL image) first touched by a byte-level damage.
fn region(log: &BuiltLog, m: &M) -> &'static str {
    match m {
        M::Flip { off, .. } => frame::region_of(&log.records, *off),
        M::Zero { off, .. } => frame::region_of(&log.records, *off),
        _ => "record",
    }
}

/// Run every reader on one damaged image and apply the oracle.
pub fn eval_image(log: &BuiltLog, li: usize, m: &M, img: &[u8], st: &mut Stats) {
    let cls = class(log, m);
    let reg = region(log, m);
    let case = case_json(log, m);
    st.evals += 1;
    st.outcome(&format!("op:{}", family(m)));
    if m.byte_level() {
        st.outcome(&format!("region:{reg}"));
    }
    st.nontrivial.push(Report::key(format!("{}:{:?}", log.word(), m).as_bytes()));
    let seg1 = WalSegmentId::from_raw(1);

    let judge = |st: &mut Stats, reader: &str, res: Result<Result<RecoveryScanReport, String>, String>| -> Option<Rel> {
        match res {
            Err(p) => {
                st.viol(format!("c11:{cls}:panic:{reader}"), json!({"case": case, "panic": p}));
                None
            }
            Ok(Err(e)) => {
                st.outcome(&format!("err:{}@{reader}", errkind(&e)));
                None
            }
            Ok(Ok(rep)) => {
                let rel = relate(&rep, log);
                match &rel {
                    Rel::NonPrefix(why) => {
                        st.viol(
                            format!("c11:{cls}:non-prefix-history:{why}:{reader}"),
                            json!({"case": case, "reader": reader, "returned_commits": rep.transactions.iter().map(|t| mc::hex(&t.commit.commit_digest[..6])).collect::<Vec<_>>(),
                                "original_commits": log.txs.iter().map(|t| mc::hex(&t.commit.commit_digest[..6])).collect::<Vec<_>>(), "tail": format!("{:?}", rep.tail_posture)}),
                        );
                    }
                    Rel::FullClean => {
                        if m.appends_after_log() {
                            st.viol(
                                format!("c11:{cls}:trailing-content-silently-ignored:{reader}"),
                                json!({"case": case, "reader": reader}),
                            );
                        } else if m.byte_level() && reg != "outside" {
                            st.viol(
                                format!("c11:{}:undetected-byte-damage:{reg}:{reader}", family(m)),
                                json!({"case": case, "reader": reader, "region": reg}),
                            );
                        } else {
                            st.outcome(&format!("ok:absorbed-full-history:{cls}@{reader}"));
                        }
                    }
                    Rel::FullWithTail => st.outcome(&format!("ok:full-history-with-tail@{reader}")),
                    Rel::StrictPrefix(_) => st.outcome(&format!("ok:strict-prefix@{reader}")),
                }
                Some(rel)
            }
        }
    };

    // 1. bytes reader, both modes
    for (mode, name) in [(RecoveryAccessMode::ReadOnly, "bytes-ro"), (RecoveryAccessMode::Writable, "bytes-rw")] {
        let res = mc::catch(|| recover_wal_segment_bytes(seg1, img, mode).map(|x| x.report).map_err(|e| format!("{e:?}")));
        judge(st, name, res);
    }
    // 2. filesystem readers on the materialised directory
    with_dir(log, li, |dir| {
        let seg_path = dir.join(SEGMENT_REL);
        if std::fs::write(&seg_path, img).is_err() {
            st.count("machinery:write-failed", 1);
            return;
        }
        let ro = mc::catch(|| recover_filesystem_store(dir, RecoveryAccessMode::ReadOnly).map_err(|e| format!("{e:?}")));
        let ro_rel = judge(st, "fs-ro", ro.clone());
        if std::fs::read(&seg_path).map(|b| b != img).unwrap_or(true) {
            st.viol(format!("c11:{cls}:fs-ro:mutated-segment"), json!({"case": case}));
        }
        if let Ok(Ok(rep)) = &ro {
            judge_projection(st, dir, rep, ro_rel.as_ref(), &log.writer_epochs, &cls, &case, "");
        }
        // doctor: obstruction posture, or a report consistent with read-only recovery
        match mc::catch(|| doctor_filesystem_store(dir)) {
            Err(p) => st.viol(format!("c11:{cls}:doctor:panic"), json!({"case": case, "panic": p})),
            Ok(Err(e)) => st.outcome(&format!("err:{}@doctor", errkind(&format!("{e:?}")))),
            Ok(Ok(rep)) => {
                st.outcome(&format!("doctor:{:?}", rep.posture));
                let consistent = match (&ro, rep.posture) {
                    (Ok(Err(_)), WalDoctorPosture::Obstructed) => true,
                    (Ok(Ok(r)), WalDoctorPosture::Recoverable | WalDoctorPosture::RecoverableWithUncommittedTail) => {
                        rep.recovery_certificate.committed_transactions_replayed == r.transactions.len() as u64
                            && (rep.posture == WalDoctorPosture::Recoverable) == (r.tail_posture == RecoveryTailPosture::Clean)
                    }
                    _ => false,
                };
                if !consistent {
                    st.viol(format!("c11:{cls}:doctor:inconsistent-with-read-only-recovery"),
                        json!({"case": case, "posture": format!("{:?}", rep.posture), "replayed": rep.recovery_certificate.committed_transactions_replayed}));
                }
            }
        }
        // manifest validation against the intact manifest of the complete log
        match mc::catch(|| validate_filesystem_manifest(dir)) {
            Err(p) => st.viol(format!("c11:{cls}:manifest:panic"), json!({"case": case, "panic": p})),
            Ok(Err(e)) => st.outcome(&format!("err:{}@manifest", errkind(&format!("{e:?}")))),
            Ok(Ok(_)) => {
                if matches!(ro_rel, Some(Rel::FullClean)) {
                    st.outcome("manifest:ok-on-absorbed-damage");
                } else {
                    st.outcome("manifest:ok-although-recovery-refuses-or-shortens");
                }
            }
        }
        // store open (reads segments + reconciles the ledger)
        match mc::catch(|| FilesystemWalStore::open(dir, seg1).map(|_| ())) {
            Err(p) => st.viol(format!("c11:{cls}:open:panic"), json!({"case": case, "panic": p})),
            Ok(Err(e)) => st.outcome(&format!("err:{}@open", errkind(&format!("{e:?}")))),
            Ok(Ok(())) => st.outcome("open:ok"),
        }
        // writable recovery (may rewrite the segment) and what is left afterwards
        let rw = mc::catch(|| recover_filesystem_store(dir, RecoveryAccessMode::Writable).map_err(|e| format!("{e:?}")));
        let rw_rel = judge(st, "fs-rw", rw.clone());
        if let (Ok(Ok(first)), Some(_)) = (&rw, &rw_rel) {
            match mc::catch(|| recover_filesystem_store(dir, RecoveryAccessMode::ReadOnly).map_err(|e| format!("{e:?}"))) {
                Ok(Ok(again)) => {
                    if again.transactions != first.transactions {
                        st.viol(format!("c11:{cls}:fs-rw:history-changes-on-second-recovery"), json!({"case": case}));
                    }
                }
                Ok(Err(e)) => st.viol(format!("c11:{cls}:fs-rw:second-recovery-fails:{}", errkind(&e)), json!({"case": case, "error": e})),
                Err(p) => st.viol(format!("c11:{cls}:fs-rw:panic-on-second-recovery"), json!({"case": case, "panic": p})),
            }
        }
        if ro_rel.is_some() != rw_rel.is_some() {
            st.outcome("note:ro-and-rw-disagree-on-success");
        }
    });
}

/// Flip one bit of the ledger (or manifest) of the complete log and run the readers of that file.
pub fn eval_side_flip(log: &BuiltLog, ledger: bool, off: usize, bit: u8, st: &mut Stats) {
    st.evals += 1;
    let n = log.n();
    let case = json!({"log": log.word(), "damage": {"op": if ledger { "flip-ledger" } else { "flip-manifest" }, "off": off, "bit": bit}});
    st.nontrivial.push(Report::key(format!("{}:{ledger}:{off}:{bit}", log.word()).as_bytes()));
    let dir = fresh_dir(&mc::scratch_root(), "c11s");
    let mut img: DirImage = log.image_after(n);
    let seg1 = WalSegmentId::from_raw(1);
    if ledger {
        if let Some(l) = img.ledger.as_mut() {
            l[off] ^= 1 << bit;
        }
        img.materialise(&dir);
        let field = if off < 8 { "magic" } else if off < 16 { "length" } else if off + 32 >= log.ledgers[n].len() { "digest" } else { "payload" };
        match mc::catch(|| FilesystemWalStore::open(&dir, seg1).map(|_| ())) {
            Err(p) => st.viol("c11:flip-ledger:open:panic".into(), json!({"case": case, "panic": p})),
            Ok(Err(e)) => st.outcome(&format!("ledger:{field}:err:{}", errkind(&format!("{e:?}")))),
            Ok(Ok(())) => st.viol(format!("c11:flip-ledger:open:undetected-byte-damage:ledger.{field}"), json!({"case": case})),
        }
        // recovery of the transactions does not depend on the ledger and must still be exact
        match mc::catch(|| recover_filesystem_store(&dir, RecoveryAccessMode::ReadOnly)) {
            Ok(Ok(rep)) if relate(&rep, log) == Rel::FullClean => st.outcome("ledger:recovery-unaffected"),
            other => st.viol("c11:flip-ledger:fs-ro:history-affected".into(), json!({"case": case, "observed": format!("{:?}", other.map(|r| r.map(|x| x.transactions.len())))})),
        }
    } else {
        if let Some(m) = img.manifest.as_mut() {
            m[off] ^= 1 << bit;
        }
        img.materialise(&dir);
        // manifest layout: digest(32) · option tag(1)+lsn(8) · option tag(1)+digest(32) · count(8)
        let field = if off < 32 { "manifest_digest" } else if off < 33 { "lsn-tag" } else if off < 41 { "last_committed_lsn" } else if off < 42 { "digest-tag" } else if off < 74 { "last_commit_digest" } else { "sealed_segment_count" };
        match mc::catch(|| validate_filesystem_manifest(&dir)) {
            Err(p) => st.viol("c11:flip-manifest:validate:panic".into(), json!({"case": case, "panic": p})),
            Ok(Err(e)) => st.outcome(&format!("manifest:{field}:err:{}", errkind(&format!("{e:?}")))),
            Ok(Ok(_)) => st.viol(format!("c11:flip-manifest:validate:undetected-byte-damage:manifest.{field}"), json!({"case": case})),
        }
    }
    let _ = std::fs::remove_dir_all(&dir);
    let _ = (LEDGER_FILE, MANIFEST_FILE);
}

/// Replay one case from a violation's `detail.case`.
pub fn replay(scratch: &Path, case: &Value, st: &mut Stats) -> Result<(), String> {
    let w: Vec<TxKind> = case["log"].as_str().ok_or("log")?.chars().filter_map(|c| KINDS.iter().copied().find(|k| k.letter() == c)).collect();
    let mk = |v: u8| {
        let d = fresh_dir(scratch, "c11-replay");
        build_log(&d, &w, v, true)
    };
    let (a, b) = (mk(0)?, mk(1)?);
    let d = &case["damage"];
    match d["op"].as_str() {
        Some("flip-ledger") | Some("flip-manifest") => {
            eval_side_flip(&a, d["op"] == "flip-ledger", d["off"].as_u64().ok_or("off")? as usize, d["bit"].as_u64().ok_or("bit")? as u8, st);
        }
        _ => {
            let m = M::from_js(d).ok_or("damage")?;
            let img = apply(&a, &b, &m).ok_or("no-op damage")?;
            eval_image(&a, 0, &m, &img, st);
        }
    }
    Ok(())
}
