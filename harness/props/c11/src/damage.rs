//! Damage operators over a segment image.

use mc::{json, Value};
use walkit::frame::Rec;
use walkit::hostrun::Run;
use walkit::store::BuiltLog;

/// What the damage operators need to know about a log.
pub trait SegLog {
    fn seg(&self) -> &[u8];
    fn recs(&self) -> &[Rec];
    fn ntx(&self) -> usize {
        self.recs().iter().filter(|r| r.is_commit()).count()
    }
}
impl SegLog for BuiltLog {
    fn seg(&self) -> &[u8] {
        &self.segment
    }
    fn recs(&self) -> &[Rec] {
        &self.records
    }
}
impl SegLog for Run {
    fn seg(&self) -> &[u8] {
        &self.seg
    }
    fn recs(&self) -> &[Rec] {
        &self.records
    }
}

/// One damage descriptor (cheap; the damaged bytes are produced by [`apply`]).
#[derive(Clone, Debug, PartialEq, Eq)]
pub enum M {
    Flip { off: usize, bit: u8 },
    Zero { off: usize, len: usize },
    /// Remove record i.
    Delete(usize),
    /// Insert a copy of record i right after it.
    DupHere(usize),
    /// Append a copy of record i at the end of the segment.
    DupEnd(usize),
    /// Swap records i and i+1.
    Swap(usize),
    /// Replace record i by record i of the second log (same shape, different payloads).
    Transplant(usize),
    /// Replace all records of transaction t by those of the second log's transaction t.
    SpliceTx(usize),
    /// Append the second log's transaction t after the complete log.
    AppendForeignTx(usize),
    /// Remove all records of transaction t.
    DeleteTx(usize),
    /// Re-label record i with an unknown record kind (3) and a recomputed, valid disk digest.
    Rekind(usize),
    /// Append a well-formed record of unknown kind (3) after the complete log.
    AppendUnknownKind,
}

/// Disk-record digest as documented: BLAKE3("echo:causal_wal:disk_record:v1\0" · kind · len u64 LE · payload).
pub fn disk_digest(kind: u8, payload: &[u8]) -> [u8; 32] {
    let mut h = blake3::Hasher::new();
    h.update(b"echo:causal_wal:disk_record:v1\0");
    h.update(&[kind]);
    h.update(&(payload.len() as u64).to_le_bytes());
    h.update(payload);
    *h.finalize().as_bytes()
}

fn forged_record(kind: u8, payload: &[u8]) -> Vec<u8> {
    let mut v = Vec::new();
    v.extend_from_slice(walkit::frame::MAGIC);
    v.push(kind);
    v.extend_from_slice(&(payload.len() as u64).to_le_bytes());
    v.extend_from_slice(payload);
    v.extend_from_slice(&disk_digest(kind, payload));
    v
}

impl M {
    pub fn byte_level(&self) -> bool {
        matches!(self, M::Flip { .. } | M::Zero { .. })
    }
    pub fn js(&self) -> Value {
        match self {
            M::Flip { off, bit } => json!({"op": "flip", "off": off, "bit": bit}),
            M::Zero { off, len } => json!({"op": "zero", "off": off, "len": len}),
            M::Delete(i) => json!({"op": "delete", "record": i}),
            M::DupHere(i) => json!({"op": "dup-here", "record": i}),
            M::DupEnd(i) => json!({"op": "dup-end", "record": i}),
            M::Swap(i) => json!({"op": "swap", "record": i}),
            M::Transplant(i) => json!({"op": "transplant", "record": i}),
            M::SpliceTx(t) => json!({"op": "splice-tx", "tx": t}),
            M::AppendForeignTx(t) => json!({"op": "append-foreign-tx", "tx": t}),
            M::DeleteTx(t) => json!({"op": "delete-tx", "tx": t}),
            M::Rekind(i) => json!({"op": "rekind", "record": i}),
            M::AppendUnknownKind => json!({"op": "append-unknown-kind"}),
        }
    }
    /// Operators that only add bytes after the complete, intact log.
    pub fn appends_after_log(&self) -> bool {
        matches!(self, M::DupEnd(_) | M::AppendForeignTx(_) | M::AppendUnknownKind)
    }
    pub fn from_js(v: &Value) -> Option<M> {
        let u = |k: &str| v[k].as_u64().map(|x| x as usize);
        Some(match v["op"].as_str()? {
            "flip" => M::Flip { off: u("off")?, bit: u("bit")? as u8 },
            "zero" => M::Zero { off: u("off")?, len: u("len")? },
            "delete" => M::Delete(u("record")?),
            "dup-here" => M::DupHere(u("record")?),
            "dup-end" => M::DupEnd(u("record")?),
            "swap" => M::Swap(u("record")?),
            "transplant" => M::Transplant(u("record")?),
            "splice-tx" => M::SpliceTx(u("tx")?),
            "append-foreign-tx" => M::AppendForeignTx(u("tx")?),
            "delete-tx" => M::DeleteTx(u("tx")?),
            "rekind" => M::Rekind(u("record")?),
            "append-unknown-kind" => M::AppendUnknownKind,
            _ => return None,
        })
    }
}

fn rk(r: &Rec) -> &'static str {
    if r.is_commit() {
        "commit-marker"
    } else {
        "frame"
    }
}

/// Records of transaction t (frames + its commit marker) as an index range.
pub fn tx_records(log: &dyn SegLog, t: usize) -> std::ops::Range<usize> {
    let mut start = 0;
    let mut seen = 0;
    for (i, r) in log.recs().iter().enumerate() {
        if r.is_commit() {
            if seen == t {
                return start..i + 1;
            }
            seen += 1;
            start = i + 1;
        }
    }
    0..0
}

/// Transaction index of record i.
pub fn tx_of_record(log: &dyn SegLog, i: usize) -> usize {
    log.recs()[..i].iter().filter(|r| r.is_commit()).count()
}

/// Class label of a damage (goes into signatures and histograms).
pub fn class(log: &dyn SegLog, m: &M) -> String {
    class_at(log, m, 0, log.ntx())
}

/// Class label of a damage inside one segment of a longer history: `log` is the segment,
/// `tx_offset` the number of transactions of the history that precede it, `n` the number of
/// transactions of the whole history (first / last / non-last are positions in the HISTORY).
pub fn class_at(log: &dyn SegLog, m: &M, tx_offset: usize, n: usize) -> String {
    let pos = |t: usize| if t + tx_offset + 1 == n { "last-tx" } else { "non-last-tx" };
    match m {
        M::Flip { .. } => "flip".into(),
        M::Zero { len, .. } => format!("zero{len}"),
        M::Delete(i) => format!("delete-{}({})", rk(&log.recs()[*i]), pos(tx_of_record(log, *i))),
        M::DupHere(i) => format!("dup-{}-in-place", rk(&log.recs()[*i])),
        M::DupEnd(i) => format!("dup-{}-at-end", rk(&log.recs()[*i])),
        M::Swap(i) => format!("swap-{}-{}", rk(&log.recs()[*i]), rk(&log.recs()[*i + 1])),
        M::Transplant(i) => format!("transplant-{}", rk(&log.recs()[*i])),
        M::SpliceTx(t) => format!("splice-transaction({})", pos(*t)),
        M::AppendForeignTx(_) => "append-foreign-transaction".into(),
        M::DeleteTx(t) => format!("delete-transaction({})", if *t + tx_offset == 0 && n > 1 { "first" } else { pos(*t) }),
        M::Rekind(i) => format!("unknown-kind-{}({})", rk(&log.recs()[*i]), pos(tx_of_record(log, *i))),
        M::AppendUnknownKind => "unknown-kind-record-appended".into(),
    }
}

/// Coarse operator family for vacuity guards.
pub fn family(m: &M) -> &'static str {
    match m {
        M::Flip { .. } => "flip",
        M::Zero { .. } => "zero",
        M::Delete(_) | M::DeleteTx(_) => "delete",
        M::DupHere(_) | M::DupEnd(_) => "dup",
        M::Swap(_) => "swap",
        M::Transplant(_) => "transplant",
        M::SpliceTx(_) | M::AppendForeignTx(_) => "splice",
        M::Rekind(_) | M::AppendUnknownKind => "unknown-kind",
    }
}

/// All damage descriptors for one log.
pub fn enumerate_ops(a: &dyn SegLog, b: &dyn SegLog, flips: bool, zero: bool) -> Vec<M> {
    let mut out = Vec::new();
    let len = a.seg().len();
    if flips {
        for off in 0..len {
            for bit in 0..8u8 {
                out.push(M::Flip { off, bit });
            }
        }
    }
    if zero {
        let mut l = 1usize;
        while l <= 512 {
            let mut off = 0;
            while off < len {
                out.push(M::Zero { off, len: l });
                off += l;
            }
            l *= 2;
        }
    }
    let nrec = a.recs().len();
    for i in 0..nrec {
        out.push(M::Delete(i));
        out.push(M::DupHere(i));
        out.push(M::DupEnd(i));
        if i + 1 < nrec {
            out.push(M::Swap(i));
        }
        if b.recs().len() == nrec {
            out.push(M::Transplant(i));
        }
        out.push(M::Rekind(i));
    }
    out.push(M::AppendUnknownKind);
    for t in 0..a.ntx() {
        if b.ntx() == a.ntx() {
            out.push(M::SpliceTx(t));
            out.push(M::AppendForeignTx(t));
        }
        out.push(M::DeleteTx(t));
    }
    out
}

fn rec_bytes<'a>(log: &'a dyn SegLog, i: usize) -> &'a [u8] {
    let r = &log.recs()[i];
    &log.seg()[r.start..r.end]
}

/// Damaged segment bytes (None when the operator does not change the image).
pub fn apply(a: &dyn SegLog, b: &dyn SegLog, m: &M) -> Option<Vec<u8>> {
    let seg: &[u8] = a.seg();
    let out = match m {
        M::Flip { off, bit } => {
            let mut v = seg.to_vec();
            v[*off] ^= 1 << bit;
            v
        }
        M::Zero { off, len } => {
            let end = (*off + *len).min(seg.len());
            if seg[*off..end].iter().all(|x| *x == 0) {
                return None;
            }
            let mut v = seg.to_vec();
            v[*off..end].iter_mut().for_each(|x| *x = 0);
            v
        }
        M::Delete(i) => {
            let r = &a.recs()[*i];
            [&seg[..r.start], &seg[r.end..]].concat()
        }
        M::DupHere(i) => {
            let r = &a.recs()[*i];
            [&seg[..r.end], rec_bytes(a, *i), &seg[r.end..]].concat()
        }
        M::DupEnd(i) => [&seg[..], rec_bytes(a, *i)].concat(),
        M::Swap(i) => {
            let (x, y) = (&a.recs()[*i], &a.recs()[*i + 1]);
            [&seg[..x.start], &seg[y.start..y.end], &seg[x.start..x.end], &seg[y.end..]].concat()
        }
        M::Transplant(i) => {
            let r = &a.recs()[*i];
            [&seg[..r.start], rec_bytes(b, *i), &seg[r.end..]].concat()
        }
        M::SpliceTx(t) => {
            let (ra, rb) = (tx_records(a, *t), tx_records(b, *t));
            let (s, e) = (a.recs()[ra.start].start, a.recs()[ra.end - 1].end);
            let (bs, be) = (b.recs()[rb.start].start, b.recs()[rb.end - 1].end);
            [&seg[..s], &b.seg()[bs..be], &seg[e..]].concat()
        }
        M::AppendForeignTx(t) => {
            let rb = tx_records(b, *t);
            let (bs, be) = (b.recs()[rb.start].start, b.recs()[rb.end - 1].end);
            [&seg[..], &b.seg()[bs..be]].concat()
        }
        M::DeleteTx(t) => {
            let ra = tx_records(a, *t);
            let (s, e) = (a.recs()[ra.start].start, a.recs()[ra.end - 1].end);
            [&seg[..s], &seg[e..]].concat()
        }
        M::Rekind(i) => {
            let r = &a.recs()[*i];
            let forged = forged_record(3, &seg[r.payload_start()..r.payload_end()]);
            [&seg[..r.start], &forged[..], &seg[r.end..]].concat()
        }
        M::AppendUnknownKind => {
            let r = a.recs().last()?;
            let forged = forged_record(3, &seg[r.payload_start()..r.payload_end()]);
            [seg, &forged[..]].concat()
        }
    };
    if out == seg {
        None
    } else {
        Some(out)
    }
}
