//! Hot loop of check C19: result buffer, stream hashing, per-element oracle bookkeeping.
//! (harness code only — no subject code is called from here except through `Op::eval`)

use mc::{Report, Value};
use std::collections::{BTreeMap, HashSet};

pub const T_S: u8 = 1; // result produced by the F32Scalar type (must be canonical)
pub const T_R: u8 = 2; // raw f32 result
pub const T_I: u8 = 3; // integer result
pub const T_P: u8 = 9; // panic (val 1) / conflated "non-finite or debug-assert panic" (val 0)

pub struct Out {
    pub n: usize,
    pub tag: [u8; 64],
    pub val: [u64; 64],
    pub fails: [&'static str; 8],
    pub nf: usize,
    /// true in the main build's oracle pass: ops may do extra (not hashed) evaluations for oracles
    pub oracles: bool,
    /// true in the 2^32 sweeps: wrapper entry points are compared in the oracle pass, not hashed
    pub lean: bool,
}

impl Out {
    pub fn new() -> Out {
        Out { n: 0, tag: [0; 64], val: [0; 64], fails: [""; 8], nf: 0, oracles: false, lean: false }
    }
    pub fn reset(&mut self) {
        self.n = 0;
        self.nf = 0;
    }
    pub fn push(&mut self, t: u8, v: u64) {
        if self.n < 64 {
            self.tag[self.n] = t;
            self.val[self.n] = v;
            self.n += 1;
        }
    }
    pub fn s_bits(&mut self, b: u32) -> u32 {
        self.push(T_S, b as u64);
        b
    }
    pub fn r(&mut self, x: f32) -> u32 {
        self.push(T_R, x.to_bits() as u64);
        x.to_bits()
    }
    pub fn i(&mut self, x: i64) {
        self.push(T_I, x as u64);
    }
    pub fn fail(&mut self, c: &'static str) {
        if self.nf < 8 && !self.fails[..self.nf].contains(&c) {
            self.fails[self.nf] = c;
            self.nf += 1;
        }
    }
}

pub type EvalFn = Box<dyn Fn(u64, &mut Out) + Send + Sync>;
pub type PredFn = Box<dyn Fn(u64) -> bool + Send + Sync>;
pub type DescFn = Box<dyn Fn(u64) -> Value + Send + Sync>;

pub struct Op {
    pub name: &'static str,
    pub n: u64,
    pub eval: EvalFn,
    /// totality is claimed for this input (all float inputs finite / integer inputs)
    pub in_domain: PredFn,
    /// input involves a special class (vacuity / distinct_nontrivial)
    pub special: PredFn,
    pub describe: DescFn,
    /// hash "non-finite result" and "panic" as the same class (quaternion constructors)
    pub conflate: bool,
    pub min_distinct: usize,
    /// see `Out::lean`
    pub lean: bool,
}

// ───────────────────────────── stream evaluation ─────────────────────────────

#[derive(Default)]
pub struct Stats {
    pub evals: u64,
    pub special_inputs: u64,
    pub panics_in_domain: u64,
    pub panics_outside_domain: u64,
    pub conflated_nonfinite: u64,
    pub empty_outputs: u64,
    pub viol: BTreeMap<String, (u64, u64)>, // signature -> (count, first index)
    pub distinct: HashSet<u64>,
    pub nontrivial: Vec<u128>,
}

impl Stats {
    pub fn v(&mut self, sig: String, idx: u64) {
        let e = self.viol.entry(sig).or_insert((0, idx));
        e.0 += 1;
        if idx < e.1 {
            e.1 = idx;
        }
    }
    pub fn merge(&mut self, o: Stats) {
        self.evals += o.evals;
        self.special_inputs += o.special_inputs;
        self.panics_in_domain += o.panics_in_domain;
        self.panics_outside_domain += o.panics_outside_domain;
        self.conflated_nonfinite += o.conflated_nonfinite;
        self.empty_outputs += o.empty_outputs;
        for (k, (n, i)) in o.viol {
            let e = self.viol.entry(k).or_insert((0, i));
            e.0 += n;
            if i < e.1 {
                e.1 = i;
            }
        }
        if self.distinct.len() < 100_000 {
            self.distinct.extend(o.distinct);
        }
        self.nontrivial.extend(o.nontrivial);
    }
}

pub fn is_canonical_f32(bits: u32) -> Result<(), &'static str> {
    let exp = (bits >> 23) & 0xff;
    let mant = bits & 0x7f_ffff;
    if bits == 0x8000_0000 {
        Err("negative-zero")
    } else if exp == 0 && mant != 0 {
        Err("subnormal")
    } else if exp == 255 && mant != 0 && bits != 0x7fc0_0000 {
        Err("non-canonical-NaN")
    } else {
        Ok(())
    }
}

pub fn nonfinite32(v: u64) -> bool {
    ((v as u32) >> 23) & 0xff == 0xff
}

/// Evaluate one input; returns false if the op panicked.  Applies the stated conflation.
pub fn eval_one(op: &Op, idx: u64, o: &mut Out) -> (bool, bool) {
    o.reset();
    let ok = std::panic::catch_unwind(std::panic::AssertUnwindSafe(|| (op.eval)(idx, o))).is_ok();
    let mut conflated = false;
    if !ok {
        o.n = 0;
        o.push(T_P, if op.conflate { 0 } else { 1 });
    } else if op.conflate && (0..o.n).any(|i| (o.tag[i] == T_R || o.tag[i] == T_S) && nonfinite32(o.val[i])) {
        conflated = true;
        o.n = 0;
        o.push(T_P, 0);
    }
    (ok, conflated)
}

pub struct RangeOut {
    pub raw: [u8; 32],
    pub canon: [u8; 32],
    pub stats: Stats,
}

/// Digest (raw and NaN-canonicalised) of the result stream of `op` over indices a..b; with
/// `oracles` also evaluates every in-process oracle.
pub fn run_range(op: &Op, a: u64, b: u64, oracles: bool, keys: bool) -> RangeOut {
    let mut hr = blake3::Hasher::new();
    let mut hc = blake3::Hasher::new();
    let mut br: Vec<u8> = Vec::with_capacity(1 << 16);
    let mut bc: Vec<u8> = Vec::with_capacity(1 << 16);
    let mut st = Stats::default();
    let mut o = Out::new();
    o.oracles = oracles;
    o.lean = op.lean;
    let stride = (op.n / 65_536).max(1);
    for idx in a..b {
        let (ok, conflated) = eval_one(op, idx, &mut o);
        br.push(o.n as u8);
        bc.push(o.n as u8);
        for i in 0..o.n {
            br.push(o.tag[i]);
            br.extend_from_slice(&o.val[i].to_le_bytes());
            bc.push(o.tag[i]);
            let mut v = o.val[i];
            if (o.tag[i] == T_R || o.tag[i] == T_S) && nonfinite32(v) && (v as u32) & 0x7f_ffff != 0 {
                v = 0x7fc0_0000;
            }
            bc.extend_from_slice(&v.to_le_bytes());
        }
        if br.len() >= (1 << 16) - 1024 {
            hr.update(&br);
            hc.update(&bc);
            br.clear();
            bc.clear();
        }
        if oracles {
            st.evals += 1;
            let special = (op.special)(idx);
            if special {
                st.special_inputs += 1;
                if keys {
                    let mut k = op.name.as_bytes().to_vec();
                    k.extend_from_slice(&idx.to_le_bytes());
                    st.nontrivial.push(Report::key(&k));
                }
            }
            if !ok {
                if (op.in_domain)(idx) {
                    st.panics_in_domain += 1;
                    st.v(format!("{}:panic-on-finite-input", op.name), idx);
                } else {
                    st.panics_outside_domain += 1;
                }
            }
            if conflated {
                st.conflated_nonfinite += 1;
            }
            if o.n == 0 {
                st.empty_outputs += 1;
            }
            for i in 0..o.n {
                if o.tag[i] == T_S {
                    if let Err(c) = is_canonical_f32(o.val[i] as u32) {
                        st.v(format!("{}:F32Scalar-result-is-{c}", op.name), idx);
                    }
                }
            }
            for f in &o.fails[..o.nf] {
                st.v(format!("{}:{f}", op.name), idx);
            }
            if idx % stride == 0 && st.distinct.len() < 4096 {
                let mut h = 0xcbf2_9ce4_8422_2325u64;
                for i in 0..o.n {
                    h = (h ^ o.val[i] ^ ((o.tag[i] as u64) << 56)).wrapping_mul(0x100_0000_01b3);
                }
                st.distinct.insert(h);
            }
        }
    }
    hr.update(&br);
    hc.update(&bc);
    RangeOut { raw: *hr.finalize().as_bytes(), canon: *hc.finalize().as_bytes(), stats: st }
}

pub fn chunk_size(n: u64) -> u64 {
    if n > (1 << 24) {
        1 << 20
    } else {
        4096
    }
}

pub fn chunks(n: u64) -> Vec<(u64, u64)> {
    let c = chunk_size(n);
    let mut v = Vec::new();
    let mut a = 0;
    while a < n {
        v.push((a, (a + c).min(n)));
        a += c;
    }
    v
}

