//! Property check C19 (see /verif/DESIGN.md §4).
use mc::{Level, Report};

fn main() {
    let r = Report::new("C19", Level::Exploration);
    r.machinery_error("check not implemented yet");
    r.finish();
}
