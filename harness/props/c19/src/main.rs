//! Property check C19 — deterministic math is bit-stable and canonical.
//!
//! Exhaustive enumeration of fixed input streams through the real `warp-math` /
//! `echo-wasm-abi` functions:
//!   * unary ops: every one of the 2^32 f32 bit patterns (thorough) or a stratified exhaustive
//!     alphabet (every exponent x 64 mantissa patterns x both signs + boundary bands) (quick);
//!   * binary ops: all ordered pairs of a class-covering alphabet (64 quick / 256 thorough);
//!   * ternary ops: all ordered triples of a 64-value alphabet.
//! Oracles evaluated on every element in this (main, `verif` profile) build, plus a
//! cross-profile differential: the same binary built with profiles `verifrel` (opt 3, no debug
//! assertions) and `verifdbg` (opt 0) is run in `--digests` mode and its per-chunk BLAKE3 digests
//! of the result stream are compared with ours; a mismatch is bisected to the first input.
//!
//! Modes:  (default) full check  |  --digests --op NAME [--range a..b]  |  --eval --op NAME --index i
//!         --panics --op NAME (count panics of an outside-domain op)

mod ops;

use mc::{json, Level, Report, Value};
use c19fw::{chunks, eval_one, run_range, Op, Out, RangeOut, Stats, T_I, T_R, T_S};
use ops::{build_ops, Alph};
use rayon::prelude::*;
use std::collections::BTreeMap;

// ───────────────────────────── sub-binary modes ─────────────────────────────

fn arg_after(args: &[String], flag: &str) -> Option<String> {
    args.iter().position(|a| a == flag).and_then(|i| args.get(i + 1).cloned())
}

fn tier_from(args: &[String]) -> bool {
    // true = thorough
    match arg_after(args, "--tier").or_else(|| std::env::var("VERIF_TIER").ok()) {
        Some(t) => t == "thorough",
        None => false,
    }
}

fn words_json(o: &Out) -> Value {
    json!((0..o.n)
        .map(|i| {
            let t = match o.tag[i] {
                T_S => "S",
                T_R => "R",
                T_I => "I",
                _ => "PANIC/NONFINITE",
            };
            if o.tag[i] == T_S || o.tag[i] == T_R {
                format!("{t}:{:08x}({:e})", o.val[i] as u32, f32::from_bits(o.val[i] as u32))
            } else {
                format!("{t}:{:016x}", o.val[i])
            }
        })
        .collect::<Vec<_>>())
}

fn sub_mode(args: &[String]) -> bool {
    let digests = args.iter().any(|a| a == "--digests");
    let eval = args.iter().any(|a| a == "--eval");
    let panics = args.iter().any(|a| a == "--panics");
    if !(digests || eval || panics) {
        return false;
    }
    mc::quiet_panics();
    let al = Alph::new(tier_from(args));
    let (ops, outside) = build_ops(&al);
    let name = arg_after(args, "--op");
    if panics {
        for op in outside.iter().filter(|o| name.as_deref().map_or(true, |n| n == o.name)) {
            let mut o = Out::new();
            let mut p = 0u64;
            let mut first = String::new();
            for idx in 0..op.n {
                let (ok, _) = eval_one(op, idx, &mut o);
                if !ok {
                    p += 1;
                } else if first.is_empty() {
                    first = words_json(&o).to_string();
                }
            }
            println!("P {} {} {} {}", op.name, op.n, p, first);
        }
        return true;
    }
    for op in ops.iter().filter(|o| name.as_deref().map_or(true, |n| n == o.name)) {
        if eval {
            let idx: u64 = arg_after(args, "--index").and_then(|s| s.parse().ok()).unwrap_or(0);
            let mut o = Out::new();
            o.lean = op.lean;
            eval_one(op, idx, &mut o);
            println!("E {} {} {}", op.name, idx, words_json(&o));
            continue;
        }
        if let Some(r) = arg_after(args, "--range") {
            let mut it = r.split("..");
            let a: u64 = it.next().and_then(|s| s.parse().ok()).unwrap_or(0);
            let b: u64 = it.next().and_then(|s| s.parse().ok()).unwrap_or(0);
            if args.iter().any(|x| x == "--per-element") {
                let fps: Vec<(u64, u64)> = (a..b.min(op.n)).into_par_iter().map(|i| element_fp(op, i)).collect();
                let mut out = String::with_capacity(fps.len() * 44);
                for (k, (r, c)) in fps.iter().enumerate() {
                    out.push_str(&format!("L {} {r:016x} {c:016x}\n", a + k as u64));
                }
                print!("{out}");
                continue;
            }
            let out = run_range(op, a, b.min(op.n), false, false);
            println!("R {} {} {} {} {}", op.name, a, b, mc::hex(&out.raw), mc::hex(&out.canon));
            continue;
        }
        let cs = chunks(op.n);
        let (c0, c1) = match arg_after(args, "--chunks") {
            Some(r) => {
                let mut it = r.split("..");
                let a: usize = it.next().and_then(|s| s.parse().ok()).unwrap_or(0);
                let b: usize = it.next().and_then(|s| s.parse().ok()).unwrap_or(cs.len());
                (a.min(cs.len()), b.min(cs.len()))
            }
            None => (0, cs.len()),
        };
        let res: Vec<RangeOut> = cs[c0..c1].par_iter().map(|&(a, b)| run_range(op, a, b, false, false)).collect();
        for (i, r) in res.iter().enumerate() {
            println!("D {} {} {} {}", op.name, c0 + i, mc::hex(&r.raw), mc::hex(&r.canon));
        }
    }
    true
}

fn run_sub(bin: &str, tier: &str, extra: &[String]) -> Result<Vec<Vec<String>>, String> {
    let out = std::process::Command::new(bin)
        .args(["--tier", tier])
        .args(extra)
        .env("VERIF_TIER", tier)
        .output()
        .map_err(|e| format!("cannot run {bin}: {e}"))?;
    if !out.status.success() {
        return Err(format!(
            "{bin} {:?} exited with {:?}: {}",
            extra,
            out.status.code(),
            String::from_utf8_lossy(&out.stderr).lines().rev().take(3).collect::<Vec<_>>().join(" | ")
        ));
    }
    Ok(String::from_utf8_lossy(&out.stdout)
        .lines()
        .map(|l| l.split(' ').map(|s| s.to_string()).collect())
        .collect())
}

// ───────────────────────────── differential ─────────────────────────────

struct Other {
    tag: &'static str,
    bin: String,
}

/// 64-bit fingerprints (raw, NaN-canonicalised) of the result of one input.
fn element_fp(op: &Op, idx: u64) -> (u64, u64) {
    let r = run_range(op, idx, idx + 1, false, false);
    let f = |d: &[u8; 32]| u64::from_le_bytes([d[0], d[1], d[2], d[3], d[4], d[5], d[6], d[7]]);
    (f(&r.raw), f(&r.canon))
}

/// Find the first index in a..b whose result differs between us and `other`: first confirm with
/// a `--range a..b` digest, then ask the other build for its per-element fingerprints of that
/// chunk (`--per-element`) and compare them with ours element by element.
fn bisect(op: &Op, other: &Other, tier: &str, a: u64, b: u64, canon: bool) -> Result<u64, String> {
    let mine = run_range(op, a, b, false, false);
    let l = run_sub(&other.bin, tier, &["--digests".into(), "--op".into(), op.name.into(), "--range".into(), format!("{a}..{b}")])?;
    let line = l.iter().find(|x| x.len() >= 6 && x[0] == "R").ok_or("no R line from sub-binary")?;
    let same = if canon { mc::hex(&mine.canon) == line[5] } else { mc::hex(&mine.raw) == line[4] };
    if same {
        return Err(format!("chunk {a}..{b} digests differ but the range digest does not (nondeterminism?)"));
    }
    let l = run_sub(&other.bin, tier, &["--digests".into(), "--op".into(), op.name.into(), "--range".into(), format!("{a}..{b}"), "--per-element".into()])?;
    let theirs: Vec<&Vec<String>> = l.iter().filter(|x| x.len() >= 4 && x[0] == "L").collect();
    if theirs.len() as u64 != b - a {
        return Err(format!("per-element listing has {} lines, expected {}", theirs.len(), b - a));
    }
    let firsts: Vec<Option<u64>> = (0..(b - a))
        .into_par_iter()
        .map(|k| {
            let (r, c) = element_fp(op, a + k);
            let t = theirs[k as usize];
            let m = if canon { format!("{c:016x}") } else { format!("{r:016x}") };
            if m != t[if canon { 3 } else { 2 }] {
                Some(a + k)
            } else {
                None
            }
        })
        .collect();
    firsts.into_iter().flatten().next().ok_or_else(|| "range digests differ but no element does".to_string())
}

fn eval_remote(op: &Op, other: &Other, tier: &str, idx: u64) -> String {
    match run_sub(&other.bin, tier, &["--eval".into(), "--op".into(), op.name.into(), "--index".into(), idx.to_string()]) {
        Ok(l) => l.iter().find(|x| x.len() >= 4 && x[0] == "E").map(|x| x[3..].join(" ")).unwrap_or_default(),
        Err(e) => e,
    }
}

fn case_json(op: &Op, idx: u64) -> Value {
    let mut o = Out::new();
    o.lean = op.lean;
    eval_one(op, idx, &mut o);
    json!({"op": op.name, "index": idx, "inputs": (op.describe)(idx), "result_in_this_build": words_json(&o)})
}

/// Compare our digests of chunks `c0..c0+mine.len()` of `op` with the other builds'.
/// Returns the number of violations registered (callers stop after the first window that has any).
fn differential(r: &Report, op: &Op, c0: usize, mine: &[RangeOut], others: &[Other], prefetched: &[Option<Vec<Vec<String>>>], tier: &str) -> usize {
    let cs: Vec<(u64, u64)> = chunks(op.n)[c0..c0 + mine.len()].to_vec();
    let mut found = 0;
    for (oi, other) in others.iter().enumerate() {
        let lines = match &prefetched[oi] {
            Some(l) => l.clone(),
            None => match run_sub(&other.bin, tier, &["--digests".into(), "--op".into(), op.name.into(), "--chunks".into(), format!("{}..{}", c0, c0 + mine.len())]) {
                Ok(l) => l,
                Err(e) => {
                    r.machinery_error(&e);
                    continue;
                }
            },
        };
        let theirs: Vec<&Vec<String>> = lines.iter().filter(|x| x.len() >= 5 && x[0] == "D" && x[1] == op.name).collect();
        if theirs.len() != mine.len() {
            r.machinery_error(&format!("{}: {} build printed {} chunk digests, expected {}", op.name, other.tag, theirs.len(), mine.len()));
            continue;
        }
        r.counter(&format!("digest_chunks_compared_{}", other.tag), mine.len() as u64);
        r.counter("digest_chunks_compared", mine.len() as u64);
        let mut raw_bad = Vec::new();
        let mut canon_bad = Vec::new();
        for (i, (m, t)) in mine.iter().zip(theirs.iter()).enumerate() {
            if mc::hex(&m.raw) != t[3] {
                raw_bad.push(i);
            }
            if mc::hex(&m.canon) != t[4] {
                canon_bad.push(i);
            }
        }
        if let Some(&c) = canon_bad.first() {
            match bisect(op, other, tier, cs[c].0, cs[c].1, true) {
                Ok(idx) => { found += 1; r.violation(
                    &format!("{}:profile-divergence", op.name),
                    json!({"case": case_json(op, idx), "other_build": other.tag, "result_in_other_build": eval_remote(op, other, tier, idx),
                           "first_differing_chunk": c0 + c, "differing_chunks": canon_bad.len(), "chunks": mine.len()}),
                ) }
                Err(e) => r.machinery_error(&format!("{}: bisect failed: {e}", op.name)),
            }
        }
        if let Some(&c) = raw_bad.iter().find(|c| !canon_bad.contains(c)) {
            match bisect(op, other, tier, cs[c].0, cs[c].1, false) {
                Ok(idx) => { found += 1; r.violation(
                    &format!("{}:profile-divergence:NaN-payload-only", op.name),
                    json!({"case": case_json(op, idx), "other_build": other.tag, "result_in_other_build": eval_remote(op, other, tier, idx),
                           "first_differing_chunk": c0 + c, "differing_chunks": raw_bad.len(), "chunks": mine.len()}),
                ) }
                Err(e) => r.machinery_error(&format!("{}: bisect failed: {e}", op.name)),
            }
        }
    }
    found
}

// ───────────────────────────── main ─────────────────────────────

fn main() {
    let args: Vec<String> = std::env::args().collect();
    if sub_mode(&args) {
        return;
    }
    let r = Report::new("C19", Level::Exploration);
    mc::quiet_panics();
    let tier = if r.thorough() { "thorough" } else { "quick" };
    let al = Alph::new(r.thorough());
    let (ops, outside) = build_ops(&al);

    let mut others = Vec::new();
    for (tag, var) in [("prod", "VERIF_BIN_PROD"), ("dbg", "VERIF_BIN_DBG")] {
        // replay (./check builds no extra lanes for it): fall back to the binaries a previous
        // ./check run left in <root>/target/bin
        let fallback = format!("{}/target/bin/c19-{tag}", std::env::var("VERIF_ROOT").unwrap_or_else(|_| "/verif".into()));
        match std::env::var(var) {
            Ok(b) if std::path::Path::new(&b).exists() => others.push(Other { tag, bin: b }),
            _ if r.replay.is_some() && std::path::Path::new(&fallback).exists() => others.push(Other { tag, bin: fallback }),
            _ => {
                if r.replay.is_none() {
                    r.machinery_error(&format!("{var} not set / not a file: the cross-profile differential needs the {tag} build (./check builds it; by hand: cargo build --offline --profile {})", if tag == "prod" { "verifrel" } else { "verifdbg" }))
                }
            }
        }
    }

    if let Some(p) = r.replay.clone() {
        r.rule("replay of one recorded case");
        r.nontrivial(b"replay-a");
        r.nontrivial(b"replay-b");
        let v: Value = serde_json::from_str(&std::fs::read_to_string(&p).unwrap_or_default()).unwrap_or(Value::Null);
        let name = v["detail"]["case"]["op"].as_str().unwrap_or("").to_string();
        let idx = v["detail"]["case"]["index"].as_u64().unwrap_or(0);
        r.sample(json!({"replay": p.display().to_string(), "op": name, "index": idx}));
        match ops.iter().find(|o| o.name == name) {
            None => r.machinery_error("replay file names an unknown op"),
            Some(op) => {
                println!("[C19 replay] {}", case_json(op, idx));
                for o in &others {
                    println!("[C19 replay] {} build: {}", o.tag, eval_remote(op, o, tier, idx));
                }
                let out = run_range(op, idx, idx + 1, true, false);
                r.eval(1);
                for (sig, (n, i)) in out.stats.viol {
                    r.violation(&sig, json!({"case": case_json(op, i), "count": n}));
                }
                let mine = [run_range(op, idx, idx + 1, false, false)];
                for o in &others {
                    if let Ok(l) = run_sub(&o.bin, tier, &["--digests".into(), "--op".into(), name.clone(), "--range".into(), format!("{idx}..{}", idx + 1)]) {
                        if let Some(line) = l.iter().find(|x| x.len() >= 6 && x[0] == "R") {
                            if line[5] != mc::hex(&mine[0].canon) {
                                r.violation(&format!("{}:profile-divergence", op.name), json!({"case": case_json(op, idx), "other_build": o.tag}));
                            } else if line[4] != mc::hex(&mine[0].raw) {
                                r.violation(&format!("{}:profile-divergence:NaN-payload-only", op.name), json!({"case": case_json(op, idx), "other_build": o.tag}));
                            }
                        }
                    }
                }
            }
        }
        r.finish();
    }

    r.rule(&format!(
        "Fixed input streams, every element evaluated on the real code. Unary ops: {} f32 bit patterns ({}). \
         Binary ops: all ordered pairs over a class-covering alphabet of {} f32 values (vectors/quaternions/matrices/Q32.32 raws derived index-wise from it: {} vectors, {} quaternions, {} matrices, {} raw i64). \
         Ternary ops: all ordered triples over {} values. PRNG: {} seed pairs x {} (min,max) ranges x 8 draws. \
         Oracles per element: F32Scalar results are never -0/subnormal/non-canonical NaN and equal the canonical-form reference; sin(-x) == -sin(x), cos(-x) == cos(x) bit-exact (float lane, raw Mat4 path and fixed lane), |sin|,|cos| <= 1, sin_cos consistent, within 1e-4 of libm f64 for |x| <= 64; no panic on finite inputs (catch_unwind); integer-exact references for Q32.32 conversions and DFix64 arithmetic; det_sqrt equals correctly rounded sqrt; PRNG draws inside [min,max]. \
         Differential: per-chunk BLAKE3 digests of the result stream of every op from the verifrel (opt 3, no debug assertions) and verifdbg (opt 0) builds of this binary are compared with this build's (opt 2, debug assertions); a mismatch is bisected to the first differing input. \
         distinct_nontrivial = distinct (op, input index) cases whose input contains a NaN/inf/subnormal/-0, an angle beyond the first quadrant, a saturating/tie raw value or a non-trivial PRNG range (keys recorded for streams <= 2^20 elements; larger sweeps are counted in counters.special_inputs_*).",
        al.unary_n(),
        if r.thorough() { "ALL 2^32" } else { "every exponent x 64 mantissa patterns x both signs, plus +-64-ulp bands around pi/2, pi, 3pi/2, 2pi, 4pi and 1.0" },
        al.b.len(), al.v.len(), al.q.len(), al.m.len(), al.iraw.len(), al.t.len(), al.seeds.len(), al.ranges.len()
    ));
    r.assume("profiles are compared on this machine/target only (x86_64 linux); 32-bit / wasm targets are not covered");
    r.assume("quaternion ops whose result has a non-finite component are hashed as one class 'non-finite' in the differential (debug builds panic in Quat::new's documented debug_assert where release returns the value); panics on all-finite inputs are still reported by the in-process totality oracle");
    r.assume("sin/cos entry points with NaN/Inf angles are outside the stated domain: exercised separately and reported under profile_dependent_panics, excluded from the differential");
    r.assume("thorough only: in the 2^32 sweeps the cross-profile digest covers the primary entry points (F32Scalar::sin_cos, Mat4::rotation_x, DFix64::sin_cos); the thin wrappers sin()/cos()/rotation_y/rotation_z are compared bit-for-bit with the primary in this build for every input and are hashed across profiles over the quick alphabet (quick tier hashes everything)");
    r.assume("libm (f64, software) is the accuracy reference for |x| <= 64 with tolerance 1e-4; IEEE-754 f32 sqrt of std is the reference for det_sqrt");

    // quick: one `--digests` run per other build for all ops (4 process spawns in total);
    // thorough: one run per op so that the wall cap can stop between ops.
    let prefetched: Vec<Option<Vec<Vec<String>>>> = if r.quick() {
        others.par_iter().map(|o| run_sub(&o.bin, tier, &["--digests".into()]).ok()).collect()
    } else {
        others.iter().map(|_| None).collect()
    };

    // thorough: stop starting new work after 25 min (VERIF_C19_SOFT_CAP_S overrides)
    let soft_cap_s: f64 = std::env::var("VERIF_C19_SOFT_CAP_S").ok().and_then(|s| s.parse().ok()).unwrap_or(if r.thorough() { 1500.0 } else { 1.0e9 });

    let mut total_special = 0u64;
    let mut per_op = serde_json::Map::new();

    // Work plan: (op index, first chunk, end chunk).  Streams up to 2^24 inputs are one unit; the
    // 2^32 sweeps are cut into 16 windows of 256 chunks (2^28 bit patterns, i.e. one value of the
    // top 4 bits: sign + 3 exponent bits) and scheduled ROUND-ROBIN over the ops, most informative
    // window first, so that a wall cap leaves every op with the same, stated, fully compared part.
    //   3,4 / 11,12: |x| in [2^-31, 2^33) positive / negative (all of trig's interesting range)
    //   7, 15: huge, inf, NaN     0, 8: zero, subnormals, tiny     then the remaining exponents.
    const WINDOW_ORDER: [usize; 16] = [3, 4, 11, 12, 7, 0, 15, 8, 2, 5, 10, 13, 1, 6, 9, 14];
    let mut plan: Vec<(usize, usize, usize)> = Vec::new();
    for (i, op) in ops.iter().enumerate() {
        if op.n <= (1 << 24) {
            plan.push((i, 0, chunks(op.n).len()));
        }
    }
    for w in WINDOW_ORDER {
        for (i, op) in ops.iter().enumerate() {
            if op.n > (1 << 24) {
                plan.push((i, w * 256, (w + 1) * 256));
            }
        }
    }
    struct Prog {
        st: Stats,
        done: Vec<(usize, usize)>,
        wall: f64,
        skipped: usize,
    }
    let mut prog: Vec<Prog> = ops.iter().map(|_| Prog { st: Stats::default(), done: Vec::new(), wall: 0.0, skipped: 0 }).collect();
    let mut capped = false;
    for (i, c0, c1) in plan {
        let op = &ops[i];
        if capped || r.elapsed_s() > soft_cap_s || r.over_budget_frac(0.92) {
            capped = true;
            prog[i].skipped += c1 - c0;
            continue;
        }
        let t0 = r.elapsed_s();
        let cs = chunks(op.n);
        let keys = op.n <= (1 << 20);
        let res: Vec<RangeOut> = cs[c0..c1].par_iter().map(|&(a, b)| run_range(op, a, b, true, keys)).collect();
        let mut mine = Vec::with_capacity(res.len());
        for mut x in res {
            prog[i].st.merge(std::mem::take(&mut x.stats));
            mine.push(x);
        }
        differential(&r, op, c0, &mine, &others, &prefetched, tier);
        prog[i].done.push((c0, c1));
        prog[i].wall += r.elapsed_s() - t0;
        if op.n > (1 << 24) {
            println!("[C19] {:<18} window bits {:x}0000000..{:x}fffffff done  {:.1}s (t={:.0}s)", op.name, c0 / 256, c0 / 256, r.elapsed_s() - t0, r.elapsed_s());
        }
    }
    let mut sampled = 0;
    for (i, op) in ops.iter().enumerate() {
        let Prog { st, done, wall, skipped } = std::mem::replace(&mut prog[i], Prog { st: Stats::default(), done: Vec::new(), wall: 0.0, skipped: 0 });
        let total_chunks = chunks(op.n).len();
        let done_chunks: usize = done.iter().map(|(a, b)| b - a).sum();
        if skipped > 0 {
            let wins: Vec<String> = done.iter().map(|(a, _)| format!("{:x}", a / 256)).collect();
            r.cap_hit(&format!(
                "op {}: wall cap: {} of {} chunks ({} of {} inputs) fully checked and compared across profiles{}",
                op.name, done_chunks, total_chunks, (done_chunks as u64) << 20, op.n,
                if op.n > (1 << 24) { format!("; completed 2^28-windows (top hex digit of the bit pattern): [{}]", wins.join(",")) } else { String::new() }
            ));
        }
        if done_chunks == 0 {
            continue;
        }
        r.eval(st.evals);
        r.nontrivial_many(st.nontrivial.iter().copied());
        total_special += st.special_inputs;
        r.counter(&format!("special_inputs_{}", op.name), st.special_inputs);
        r.counter("panics_on_nonfinite_inputs_to_checked_ops", st.panics_outside_domain);
        r.counter("quat_results_conflated_as_nonfinite", st.conflated_nonfinite);
        let nd = st.distinct.len();
        r.outcome_n(&format!("distinct_outputs:{}", op.name), nd as u64);
        r.guard(&format!("op_{}_produced_{}plus_distinct_outputs", op.name, op.min_distinct), nd >= op.min_distinct);
        for (sig, (n, idx)) in &st.viol {
            r.violation(sig, json!({"case": case_json(op, *idx), "count": n, "note": "first (lowest-index) failing input of this class"}));
        }
        if sampled < 8 {
            // one real case per op: a mid-stream element
            let idx = (op.n / 3) | 1;
            r.sample(case_json(op, idx.min(op.n - 1)));
            sampled += 1;
        }
        per_op.insert(op.name.to_string(), json!({"inputs": op.n, "chunks": total_chunks, "chunks_done": done_chunks, "distinct_outputs_seen": nd, "special_inputs": st.special_inputs,
            "panics_finite_inputs": st.panics_in_domain, "panics_nonfinite_inputs": st.panics_outside_domain, "skipped_outside_domain": st.empty_outputs, "wall_s": (wall * 100.0).round() / 100.0}));
        println!("[C19] {:<18} n={:<11} chunks {}/{} distinct>={:<5} special={:<10} {:.1}s", op.name, op.n, done_chunks, total_chunks, nd, st.special_inputs, wall);
    }
    r.note("per_op", Value::Object(per_op));

    // outside-domain entry points (non-finite angles): evidence only
    let mut pdp = serde_json::Map::new();
    let mut pd_total = 0u64;
    let remote: Vec<Vec<Vec<String>>> = others.par_iter().map(|o| run_sub(&o.bin, tier, &["--panics".into()]).unwrap_or_default()).collect();
    for op in &outside {
        let mut o = Out::new();
        let mut p = 0u64;
        for idx in 0..op.n {
            let (ok, _) = eval_one(op, idx, &mut o);
            if !ok {
                p += 1;
            }
        }
        pd_total += op.n;
        let mut e = serde_json::Map::new();
        e.insert("inputs".into(), json!(op.n));
        e.insert("main(verif: opt2, debug-assertions)".into(), json!(format!("{p} panics")));
        for (oi, other) in others.iter().enumerate() {
            // op names contain spaces: "P <name...> <n> <panics> <first result>" — match on the joined prefix
            for x in &remote[oi] {
                let line = x.join(" ");
                if let Some(rest) = line.strip_prefix(&format!("P {} ", op.name)) {
                    let mut it = rest.splitn(3, ' ');
                    let (_n, pn, first) = (it.next().unwrap_or(""), it.next().unwrap_or("?"), it.next().unwrap_or(""));
                    e.insert(other.tag.into(), json!(format!("{pn} panics; first non-panicking result {first}")));
                }
            }
        }
        pdp.insert(op.name.to_string(), Value::Object(e));
    }
    r.note("profile_dependent_panics", Value::Object(pdp));
    r.counter("nonfinite_angle_cases_exercised", pd_total);

    r.counter("special_inputs_total", total_special);
    r.guard("nan_inf_subnormal_inputs_were_included", total_special > 0 && al.class_counts().iter().all(|(_, n)| *n > 0));
    r.note("unary_alphabet_classes", json!(al.class_counts().into_iter().collect::<BTreeMap<_, _>>()));
    r.guard("digest_chunks_compared_gt_0", r.counter_value("digest_chunks_compared") > 0);
    r.guard("both_other_profiles_compared", others.len() == 2);
    r.finish();
}
